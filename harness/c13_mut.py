"""Single-edit neighbourhood of a text, at token granularity (property C13's own quantifier).

lex(text) -> list of (kind, string) pieces whose concatenation is the text; kind "ws" pieces are kept in place.
mutants(text) -> generator of (operator, index, mutant text):
   delete i / duplicate i / swap i with next token / replace i by each token of ALPHABET /
   truncate before token i (and in the middle of it) / flip a bracket token to each other bracket
 and, because a balanced `(..)`, `[..]`, `{..}` group is ONE token for JMC's own tokenizer:
   group-delete / group-duplicate / group-replace by each token of GROUP_ALPHABET
   truncate-close: the prefix before token i, with the brackets still open closed again (three variants:
   closers only, `;` then closers, closers then `;`) - the truncations that survive the tokenizer and reach
   the header-of-statement parsers with a short statement
 string tokens are additionally replaced by each string of STRING_ALPHABET (formatted-text / macro / Hardcode.calc
 syntax lives inside string literals).
mutants(text, span=(lo, hi)) edits only tokens that start inside the character range (used for the per-statement
 programs, whose wrapper / prelude must stay intact).
head_end_mutants(text, span, extra) -> (operator, index, mutant): what no single replacement by ALPHABET reaches (triage round 5)
   head-insert:<sym> / head-replace:<sym>   every operator / symbol of HEAD_SYMBOLS in front of / instead of the FIRST token
                                            of every statement (`@ ::a = 1;`, `/ x;`, `% $x = 1;` ...)
   end-append:<tok>                         the text + one more token and NO `;`: a source that ends in every token kind
                                            (alphabet, symbols, and `extra` = the macro names of the program's header)
header_line_mutants(header) -> (operator, line number, mutant header): the header is line-oriented, so its neighbourhood is
   taken per LINE: delete / duplicate / swap with next / replace by and insert each of BLANK_LINES (`#`, `# `, `#//`, ...) /
   cut the line after its k-th token / append a token of LINE_TOKENS / move the line to the end (definitions on LATE lines)
contexts(text) -> per token (same numbering as the `index` of the flat operators) its CELL CONTEXT
   (enclosing construct, statement head, class of the previous token, class of the token)
 used to stratify the quick-tier sample: every (context x operator) cell is run at least once.
"""
from __future__ import annotations

import re

LEX = re.compile(r"""
    (?P<ws>\s+)
  | (?P<str>"(?:\\.|[^"\\\n])*"|'(?:\\.|[^'\\\n])*'|`(?:\\.|[^`\\])*`)
  | (?P<comment>//[^\n]*)
  | (?P<word>[A-Za-z0-9_.$@~^\#]+)
  | (?P<op>\?\?=|=>|::|==|!=|<=|>=|&&|\|\||\+=|-=|\*=|/=|%=|\+\+|--|><|<<|>>|:=|\?=)
  | (?P<punct>.)
""", re.X | re.S)

ALPHABET = ["(", ")", "{", "}", "[", "]", ";", ",", ":", "=", "=>", "\"x\"", "\"", "1", "-", "x", "$x", "@s",
            "if", "else", "function", "case", "::", "\\", "#", "//", "execute", "run", "()", "{}", "with", "\n",
            "extends", "stringify", "default", "expand", "@zz", "true", "\"\\x\"", "'\\u12'",
            # strengthening round 1: operand / operator / statement-head tokens the positional parsers look for
            "..", "matches", ":=", "+=", "!", "&&", "$", "-1", "1.5", "return", "while", "for", "switch", "new", "class", "$(",
            # triage round 5: operator characters that were missing (`/` of paths and Hardcode.calc, `%`, a bare `@`)
            "/", "%", "@",
            # strengthening round 4: whole vanilla macro operands (bare, connected suffix, connected prefix, two in a row): what
            # Tokenizer.merge_vanilla_macro folds into one token while condition_to_ast / FuncContent iterate over the list
            "$(x)", "$(p)_x", "a$(p)", "$(a)$(b)"]
STRING_ALPHABET = ['""', '"&<"', '"&<red"', '"&<$x,>"', '"$("', '"Hardcode.calc("']
GROUP_ALPHABET = [";", "()", "{}", "[]", "x", "\"x\"", "1", "( )", "{ }"]
BRACKETS = "()[]{}"
CLOSER = {"(": ")", "[": "]", "{": "}"}


# every operator / symbol character of JMC and of Minecraft commands, alone and doubled up, that can open a statement
HEAD_SYMBOLS = ["@", "~", "^", ".", "*", "/", "%", "<", ">", "?", "|", "&", "+", "'", "`", ">>", "<<", "??=", "><", "==", "++",
                "--", "-=", "*=", "/=", "%=", "?=", "!=", "<=", ">=", "||", "..", "@s", "@a[", "#", "$", "::", ":", "=", "-", "!",
                "\\", ",", ";", "(", ")", "[", "]", "{", "}", "=>", ":=", "+=", "&&", "$(", "\"", "//", "()", "{}", "[]", "1", "-1",
                "\"x\"", "with", "run", "else", "matches"]
END_TOKENS = ["x", "1", "-1", "1.5", "\"x\"", "'x'", "`x`", "$x", "$", "@s", "@", "()", "(1)", "{}", "[]", "x.y", "x:y", "::", "::a",
              "=", "+", "-", "!", "~", "^", "%", "*", "/", "//", "//c", "#", "\\", ".", "..", ",", ":", "=>", ":=", "++", "&&",
              "if", "else", "while", "do", "for", "switch", "case", "function", "class", "new", "return", "with", "run", "execute",
              "import", "async", "say", "f()", "f() with", "Text.tellraw", "Hardcode.repeat", "@lazy", "@add(__tick__)", "\n", "\t"]
# forms of a header line that carries no directive
BLANK_LINES = ["#", "# ", "#\t", "#//", "# //", "#// c", "# // c", "", " ", "\t", "//", "// c", " // c", "##", "# #", "#;", "#()",
               "#\"s\"", "#1", "#-", "#define", "# define", "#define ", "#define //", "#deepdefine", "#bind", "#enum", "#zz",
               "x", "define A 1", "\\"]
LINE_TOKENS = ["x", "1", "-1", "\"s\"", "(", ")", "()", "(a)", "(a, b)", "{}", "[]", ",", "=", "#", "//", "// c", "\\", "EVAL",
               "__namespace__", "$x", "@s", ";", "'"]


def lex(text: str):
    return [(m.lastgroup, m.group(0)) for m in LEX.finditer(text)]


KEYWORDS = {"if", "else", "while", "do", "for", "switch", "case", "default", "function", "class", "new", "return", "run",
            "execute", "with", "matches", "break", "async", "schedule", "import", "expand", "true", "false", "extends",
            "stringify", "say", "tellraw"}
_INT = re.compile(r"\d+$")
_NUM = re.compile(r"\d+(\.\d+)?[a-zA-Z]?$")


def tok_class(kind: str, s: str) -> str:
    if kind == "str":
        return "str`" if s[0] == "`" else "str"
    if kind == "comment":
        return "comment"
    if kind != "word":
        return s
    if s[0] == "$":
        return "$var" if len(s) > 1 else "$"
    if s[0] == "@":
        return "@sel"
    if s[0] in "~^":
        return "coord"
    if s[0] == "#":
        return "#dir"
    if _INT.match(s):
        return "int"
    if _NUM.match(s):
        return "num"
    if s in KEYWORDS:
        return s
    return "dotted" if "." in s else "word"


def contexts(text: str):
    """[(enclosing construct, statement head, class of previous token, class of token)] per non-whitespace token.
    enclosing construct = opening bracket of the innermost enclosing group + class of the token in front of it;
    statement head = class of the first token after the preceding `;` / `{` / `}` / opening bracket of that group
    (`run>` + class of the token after the last `run` when the token sits in the run-clause of an execute)."""
    pieces = lex(text)
    toks = [(k, s) for k, s in pieces if k != "ws"]
    cls = [tok_class(k, s) for k, s in toks]
    out = []
    stack = []          # (index of opener)
    start = 0           # index of the first token of the current statement
    starts = []         # saved statement starts of the enclosing groups
    for n, (k, s) in enumerate(toks):
        body_close = False
        if k == "punct" and s in CLOSER.values() and stack:
            o = stack.pop()
            start = starts.pop()
            # a `{...}` that is the body of a construct ends the statement; an NBT / JSON object does not
            body_close = o == 0 or cls[o - 1] in (")", "else", "do", "run", "expand", "=>", "word", "dotted", ":", ";", "{", "}")
        encl = "top"
        if stack:
            o = stack[-1]
            encl = (cls[o - 1] if o > 0 else "^") + toks[o][1]
        head = cls[start] if start <= n else cls[n]
        runs = [j for j in range(start, n) if cls[j] == "run"]
        if runs and runs[-1] + 1 <= n:
            head = "run>" + cls[runs[-1] + 1]
        out.append((encl, head, cls[n - 1] if n > start else "^", cls[n]))
        if k == "punct" and s in CLOSER:
            stack.append(n)
            starts.append(start)
            start = n + 1
        elif k == "punct" and s == ";":
            start = n + 1
        elif k == "punct" and s == "}" and body_close:
            start = n + 1
    return out


def mutants(text: str, span=None):
    pieces = lex(text)
    idx = [i for i, (k, _) in enumerate(pieces) if k != "ws"]
    strs = [s for _, s in pieces]
    kinds = [k for k, _ in pieces]
    offs, o = [], 0
    for _, s_ in pieces:
        offs.append(o)
        o += len(s_)

    def inside(i):
        return span is None or span[0] <= offs[i] < span[1]

    def join(parts):
        return "".join(parts)

    for n, i in enumerate(idx):
        if not inside(i):
            continue
        s = strs[i]
        yield ("delete", n, join(strs[:i] + strs[i + 1:]))
        yield ("duplicate", n, join(strs[:i] + [s, " ", s] + strs[i + 1:]))
        if n + 1 < len(idx):
            j = idx[n + 1]
            sw = list(strs)
            sw[i], sw[j] = sw[j], sw[i]
            yield ("swap", n, join(sw))
        for a in ALPHABET:
            if a != s:
                yield ("replace:" + a, n, join(strs[:i] + [a] + strs[i + 1:]))
        if kinds[i] == "str":
            for a in STRING_ALPHABET:
                if a != s:
                    yield ("replace-str:" + a, n, join(strs[:i] + [a] + strs[i + 1:]))
        yield ("truncate", n, join(strs[:i]))
        if len(s) > 1:
            yield ("truncate-mid", n, join(strs[:i]) + s[:len(s) // 2])
        if s in BRACKETS and len(s) == 1:
            for b in BRACKETS:
                if b != s:
                    yield ("flip:" + b, n, join(strs[:i] + [b] + strs[i + 1:]))

    # ---- bracket groups as single tokens, and truncations that keep the brackets balanced
    stack, groups, open_at = [], [], {}
    for n, i in enumerate(idx):
        open_at[n] = [strs[j] for j in stack]
        t = strs[i]
        if t in CLOSER:
            stack.append(i)
        elif t in CLOSER.values() and stack and CLOSER[strs[stack[-1]]] == t:
            groups.append((stack.pop(), i))
    pos_of = {i: n for n, i in enumerate(idx)}
    for g_, (a, b) in enumerate(groups):
        if not inside(a):
            continue
        g = pos_of[a]           # index of the group's opening token (same numbering as the flat operators)
        yield ("group-delete", g, join(strs[:a] + strs[b + 1:]))
        yield ("group-duplicate", g, join(strs[:b + 1] + [" "] + strs[a:b + 1] + strs[b + 1:]))
        for r in GROUP_ALPHABET:
            yield ("group-replace:" + r, g, join(strs[:a] + [r] + strs[b + 1:]))
    for n, i in enumerate(idx):
        if n == 0 or not inside(i):
            continue
        closers = "".join(CLOSER[o] for o in reversed(open_at[n]))
        pre = join(strs[:i])
        yield ("truncate-close", n, pre + " " + closers)
        yield ("truncate-close:;", n, pre + "; " + closers)
        yield ("truncate-close;:", n, pre + " " + closers + ";")


def head_end_mutants(text: str, span=None, extra=()):
    pieces = lex(text)
    idx = [i for i, (k, _) in enumerate(pieces) if k != "ws"]
    strs = [s for _, s in pieces]
    offs, o = [], 0
    for _, s_ in pieces:
        offs.append(o)
        o += len(s_)
    ctx = contexts(text)
    for n, i in enumerate(idx):
        if span is not None and not (span[0] <= offs[i] < span[1]):
            continue
        if ctx[n][2] != "^" or pieces[i][0] == "comment":
            continue
        for a in HEAD_SYMBOLS:
            yield ("head-insert:" + a, n, "".join(strs[:i] + [a, " "] + strs[i:]))
            if a != strs[i] and a not in ALPHABET:
                yield ("head-replace:" + a, n, "".join(strs[:i] + [a] + strs[i + 1:]))
    if idx:
        last = len(idx) - 1
        base = text.rstrip()
        for a in list(END_TOKENS) + [e for e in extra if e not in END_TOKENS]:
            yield ("end-append:" + a, last, base + " " + a)
            yield ("end-append-nl:" + a, last, base + "\n" + a + "\n")


def header_line_mutants(header: str, first_line: int = 0):
    """`first_line`: lines in front of it are padding of the corpus program and are not edited themselves"""
    lines = header.split("\n")

    def join(ls):
        return "\n".join(ls)

    for n, ln in enumerate(lines):
        if n < first_line:
            continue
        yield ("line-delete", n, join(lines[:n] + lines[n + 1:]))
        yield ("line-duplicate", n, join(lines[:n + 1] + lines[n:]))
        if n + 1 < len(lines):
            yield ("line-swap", n, join(lines[:n] + [lines[n + 1], ln] + lines[n + 2:]))
            yield ("line-to-end", n, join(lines[:n] + lines[n + 1:] + [ln]))
        yield ("line-join-next", n, join(lines[:n] + [ln + " " + (lines[n + 1] if n + 1 < len(lines) else "")] + lines[n + 2:]))
        for b in BLANK_LINES:
            if b != ln:
                yield ("line-replace:" + b, n, join(lines[:n] + [b] + lines[n + 1:]))
                yield ("line-insert:" + b, n, join(lines[:n] + [b] + lines[n:]))
        toks = [(k, s_) for k, s_ in lex(ln)]
        acc, cuts = "", []
        for k, s_ in toks:
            if k != "ws" and acc.strip():
                cuts.append(acc)
            acc += s_
        for c_ in cuts:
            yield ("line-cut", n, join(lines[:n] + [c_.rstrip()] + lines[n + 1:]))
            yield ("line-cut-ws", n, join(lines[:n] + [c_.rstrip() + " "] + lines[n + 1:]))
            yield ("line-cut-comment", n, join(lines[:n] + [c_.rstrip() + " // c"] + lines[n + 1:]))
        if ln.strip():
            for a in LINE_TOKENS:
                yield ("line-append:" + a, n, join(lines[:n] + [ln + " " + a] + lines[n + 1:]))
    yield ("line-insert-end:#", len(lines), header + "\n#")
    yield ("line-insert-end:# ", len(lines), header + "\n# ")
    yield ("line-insert-end:#//", len(lines), header + "\n#//")
