"""Single-edit neighbourhood of a text, at token granularity (property C13's own quantifier).

lex(text) -> list of (kind, string) pieces whose concatenation is the text; kind "ws" pieces are kept in place.
mutants(text) -> generator of (operator, index, mutant text):
   delete i / duplicate i / swap i with next token / replace i by each token of ALPHABET /
   truncate before token i (and in the middle of it) / flip a bracket token to each other bracket
 and, because a balanced `(..)`, `[..]`, `{..}` group is ONE token for JMC's own tokenizer:
   group-delete / group-duplicate / group-replace by each token of GROUP_ALPHABET
   truncate-close: the prefix before token i, with the brackets still open closed again (three variants:
   closers only, `;` then closers, closers then `;`) - the truncations that survive the tokenizer and reach
   the header-of-statement parsers with a short statement
"""
from __future__ import annotations

import re

LEX = re.compile(r"""
    (?P<ws>\s+)
  | (?P<str>"(?:\\.|[^"\\\n])*"|'(?:\\.|[^'\\\n])*'|`(?:\\.|[^`\\])*`)
  | (?P<comment>//[^\n]*)
  | (?P<word>[A-Za-z0-9_.$@~^\#]+)
  | (?P<op>\?\?=|=>|::|==|!=|<=|>=|&&|\|\||\+=|-=|\*=|/=|%=|\+\+|--|><|<<|>>|:=|\?=)
  | (?P<punct>.)
""", re.X | re.S)

ALPHABET = ["(", ")", "{", "}", "[", "]", ";", ",", ":", "=", "=>", "\"x\"", "\"", "1", "-", "x", "$x", "@s",
            "if", "else", "function", "case", "::", "\\", "#", "//", "execute", "run", "()", "{}", "with", "\n",
            "extends", "stringify", "default", "expand", "@zz", "true", "\"\\x\"", "'\\u12'"]
GROUP_ALPHABET = [";", "()", "{}", "[]", "x", "\"x\"", "1", "( )", "{ }"]
BRACKETS = "()[]{}"
CLOSER = {"(": ")", "[": "]", "{": "}"}


def lex(text: str):
    return [(m.lastgroup, m.group(0)) for m in LEX.finditer(text)]


def mutants(text: str):
    pieces = lex(text)
    idx = [i for i, (k, _) in enumerate(pieces) if k != "ws"]
    strs = [s for _, s in pieces]

    def join(parts):
        return "".join(parts)

    for n, i in enumerate(idx):
        s = strs[i]
        yield ("delete", n, join(strs[:i] + strs[i + 1:]))
        yield ("duplicate", n, join(strs[:i] + [s, " ", s] + strs[i + 1:]))
        if n + 1 < len(idx):
            j = idx[n + 1]
            sw = list(strs)
            sw[i], sw[j] = sw[j], sw[i]
            yield ("swap", n, join(sw))
        for a in ALPHABET:
            if a != s:
                yield ("replace:" + a, n, join(strs[:i] + [a] + strs[i + 1:]))
        yield ("truncate", n, join(strs[:i]))
        if len(s) > 1:
            yield ("truncate-mid", n, join(strs[:i]) + s[:len(s) // 2])
        if s in BRACKETS and len(s) == 1:
            for b in BRACKETS:
                if b != s:
                    yield ("flip:" + b, n, join(strs[:i] + [b] + strs[i + 1:]))

    # ---- bracket groups as single tokens, and truncations that keep the brackets balanced
    stack, groups, open_at = [], [], {}
    for n, i in enumerate(idx):
        open_at[n] = [strs[j] for j in stack]
        t = strs[i]
        if t in CLOSER:
            stack.append(i)
        elif t in CLOSER.values() and stack and CLOSER[strs[stack[-1]]] == t:
            groups.append((stack.pop(), i))
    for g, (a, b) in enumerate(groups):
        yield ("group-delete", g, join(strs[:a] + strs[b + 1:]))
        yield ("group-duplicate", g, join(strs[:b + 1] + [" "] + strs[a:b + 1] + strs[b + 1:]))
        for r in GROUP_ALPHABET:
            yield ("group-replace:" + r, g, join(strs[:a] + [r] + strs[b + 1:]))
    for n, i in enumerate(idx):
        if n == 0:
            continue
        closers = "".join(CLOSER[o] for o in reversed(open_at[n]))
        pre = join(strs[:i])
        yield ("truncate-close", n, pre + " " + closers)
        yield ("truncate-close:;", n, pre + "; " + closers)
        yield ("truncate-close;:", n, pre + " " + closers + ";")
