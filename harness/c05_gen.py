"""c05_gen — strengthening round 4 of property C05: loops nested in / around the constructs Model.Loop left
outside (`switch` in both lowerings, `execute … run { … }` blocks, class methods, `Hardcode.repeat` arrow
functions), statements FOLLOWING a loop in every kind of enclosing block, long overlapping chains in loop bodies.

Program trees are c04_gen's, extended with
  ("switch", var, [(label, body, brk), ...], style)   label = int | "default"; brk = the case is closed by `break;`;
                                                       style bit 0: first statement on the label's line, bit 1: `case n :`
  ("xrun", var, objective, body)                       `execute if score <var> <objective> matches 1.. run { body }`
  ("repeat", n, body)                                  `Hardcode.repeat((idx) => { body }, start=0, stop=n);` (the arrow function's text is
                                                       compiled once per index: the Coq term repeats the body n times)
  ("call", "cls.m")                                    `cls.m();` — a method of class cls (function file cls/m)
The Coq term is a Model.LoopSwitch.xstmts (Run.C05.xcase).  The tree walkers of c04_gen (source printer, source
interpreter, variables, shrinking, statistics) learn the new kinds through `install()`: wrappers put into c04_gen's
module namespace IN THIS PROCESS ONLY (c04.py never imports this module)."""
from __future__ import annotations

import itertools

from lib import coq_str, coq_z
import c04_gen as G
import c03_gen as F3

NEW_KINDS = ("switch", "xrun", "repeat")


# ------------------------------------------------------------------ hooks into c04_gen's tree walkers

def _case_head(lab, style):
    if lab == "default":
        return "default :" if style & 2 else "default:"
    return f"case {lab} :" if style & 2 else f"case {lab}:"


def _stmt_src(s, ind=1):
    k = s[0]
    pad = "    " * ind
    if k == "switch":
        style = s[3] if len(s) > 3 else 0
        out = [f"{pad}switch ({s[1]}) {{"]
        for lab, body, brk in s[2]:
            head = f"{pad}    {_case_head(lab, style)}"
            lines = [G.stmt_src(x, ind + 2) for x in body] + ([f"{pad}        break;"] if brk else [])
            if style & 1 and lines:
                lines[0] = head + " " + lines[0].lstrip(" ")
                out.extend(lines)
            else:
                out.append(head)
                out.extend(lines)
        out.append(f"{pad}}}")
        return "\n".join(out)
    if k == "xrun":
        return f"{pad}execute if score {s[1]} {s[2]} matches 1.. run {G.block(s[3], ind + 1)}"
    if k == "repeat":
        return f"{pad}Hardcode.repeat((idx) => {G.block(s[2], ind + 1)}, start=0, stop={s[1]});"
    return _ORIG["stmt_src"](s, ind)


def _prog_src(body, fname="f"):
    if "." in fname:
        cls, m = fname.split(".", 1)
        return f"class {cls} {{\nfunction {m}() {{\n{G.body_src(body)}\n}}\n}}\n"
    return _ORIG["prog_src"](body, fname)


def _sub_bodies(s):
    """the statement lists directly inside a statement of a new kind"""
    k = s[0]
    if k == "switch":
        return [b for _l, b, _k in s[2]]
    if k == "xrun":
        return [s[3]]
    if k == "repeat":
        return [s[2]]
    return []


def _interp_stmt(self, s):
    k = s[0]
    if k == "switch":
        x = self.sc.get((s[1], self.var))
        v = 0 if x is None else x
        sel = None
        for i, (lab, _b, _k) in enumerate(s[2]):
            if lab == v:
                sel = i                      # a later case of the same label replaces the earlier one
        if sel is None:
            for i, (lab, _b, _k) in enumerate(s[2]):
                if lab == "default":
                    sel = i
        if sel is not None:
            self.block(s[2][sel][1], True)   # every case body is a function of its own
        return
    if k == "xrun":
        x = self.sc.get((s[1], self.var))
        if x is not None and x >= 1:
            self.block(s[3], G.lines_of(s[3]) != 1)
        return
    if k == "repeat":
        for _ in range(s[1]):
            self.run(s[2])
        return
    return _ORIG["interp_stmt"](self, s)


def _prog_vars(body, acc=None):
    acc = acc if acc is not None else []
    for s in body:
        if s[0] in ("switch", "xrun") and s[1] not in acc:
            acc.append(s[1])
        for b in _sub_bodies(s):
            G.prog_vars(b, acc)
        if s[0] not in NEW_KINDS:
            _ORIG["prog_vars"]([s], acc)
    return acc


def _map_bodies(s, f):
    k = s[0]
    if k == "switch":
        return ("switch", s[1], [(l, f(b), brk) for l, b, brk in s[2]]) + tuple(s[3:])
    if k == "xrun":
        return ("xrun", s[1], s[2], f(s[3]))
    if k == "repeat":
        return ("repeat", s[1], f(s[2]))
    raise ValueError(k)


def _flatten_seq(body):
    out = []
    for s in body:
        if s[0] in NEW_KINDS:
            out.append(_map_bodies(s, G.flatten_seq))
        else:
            out.extend(_ORIG["flatten_seq"]([s]))
    return out


def _count_braceless(body):
    return _ORIG["count_braceless"](body) + sum(G.count_braceless(b) for s in body for b in _sub_bodies(s))


def _has_dangling_else(body):
    return _ORIG["has_dangling_else"](body) or any(G.has_dangling_else(b) for s in body for b in _sub_bodies(s))


def _shape_tags(body, tags=None, depth=0):
    tags = tags if tags is not None else {}
    _ORIG["shape_tags"](body, tags, depth)
    for s in body:
        k = s[0]
        if k == "switch":
            labs = [l for l, _b, _k in s[2]]
            tags["switch"] = tags.get("switch", 0) + 1
            for t in (["switch_default"] if "default" in labs else []) + \
                     (["switch_negative_label"] if any(isinstance(l, int) and l < 0 for l in labs) else []) + \
                     [f"switchdepth{depth}"]:
                tags[t] = tags.get(t, 0) + 1
            for lab, b, _k in s[2]:
                for j, x in enumerate(b):
                    if x[0] in ("while", "dowhile", "for"):
                        kind = "default" if lab == "default" else "neg" if lab < 0 else "zero" if lab == 0 else "pos"
                        where = "only" if len(b) == 1 else "first" if j == 0 else "last" if j == len(b) - 1 else "middle"
                        t = f"loop_in_case_{kind}_{where}"
                        tags[t] = tags.get(t, 0) + 1
        elif k in ("xrun", "repeat"):
            tags[k] = tags.get(k, 0) + 1
        for b in _sub_bodies(s):
            G.shape_tags(b, tags, depth + 1)
    return tags


def _lines_of(body):
    n = _ORIG["lines_of"](body)
    for s in body:
        k = s[0]
        if k == "switch":
            n += 4 if any(l == "default" for l, _b, _k in s[2]) else 2
        elif k == "xrun":
            n += 1
        elif k == "repeat":
            n += s[1] * G.lines_of(s[2])
    return n


def _sub_programs(body):
    out = _ORIG["sub_programs"](body)
    for i, s in enumerate(body):
        k = s[0]

        def put(new):
            out.append(body[:i] + [new] + body[i + 1:])
        if k == "switch":
            cases = s[2]
            for _l, b, _k in cases:
                out.append(body[:i] + b + body[i + 1:])            # one case body instead of the switch
            if len(cases) > 1:
                for j in range(len(cases)):
                    rest = cases[:j] + cases[j + 1:]
                    if rest[0][0] != "default":
                        put(("switch", s[1], rest) + tuple(s[3:]))
            for j, (l, b, brk) in enumerate(cases):
                for nb in G.sub_programs(b):
                    put(("switch", s[1], cases[:j] + [(l, nb, brk)] + cases[j + 1:]) + tuple(s[3:]))
        elif k == "xrun":
            out.append(body[:i] + s[3] + body[i + 1:])
            for nb in G.sub_programs(s[3]):
                if nb:
                    put(("xrun", s[1], s[2], nb))
        elif k == "repeat":
            out.append(body[:i] + s[2] + body[i + 1:])
            for nb in G.sub_programs(s[2]):
                if nb:
                    put(("repeat", s[1], nb))
    return out


def _size_of(body):
    return _ORIG["size_of"](body) + sum(1 + G.size_of(b) for s in body for b in _sub_bodies(s))


def _to_tuples(x):
    """JSON round trip: restore the tuple/list structure (new kinds included)"""
    def stmt(s):
        k = s[0]
        if k == "switch":
            return ("switch", s[1], [(l, _to_tuples(b), brk) for l, b, brk in s[2]]) + tuple(s[3:])
        if k == "xrun":
            return ("xrun", s[1], s[2], _to_tuples(s[3]))
        if k == "repeat":
            return ("repeat", s[1], _to_tuples(s[2]))
        if k == "if":
            c = _ORIG["to_tuples"]([["if", [[cc, []] for cc, _b in s[1]], None]])[0]
            return ("if", [(cc, _to_tuples(b)) for (cc, _e), (_c, b) in zip(c[1], s[1])], None if s[2] is None else _to_tuples(s[2]))
        if k in ("while", "expand"):
            c = _ORIG["to_tuples"]([[k, s[1], []]])[0]
            return (k, c[1], _to_tuples(s[2]))
        if k == "dowhile":
            c = _ORIG["to_tuples"]([["dowhile", [], s[2]]])[0]
            return ("dowhile", _to_tuples(s[1]), c[2])
        if k == "for":
            c = _ORIG["to_tuples"]([["for", s[1], s[2], s[3], []]])[0]
            return ("for", c[1], c[2], c[3], _to_tuples(s[4]))
        return _ORIG["to_tuples"]([s])[0]
    return [stmt(s) for s in x]


_ORIG: dict = {}


def install():
    """teach c04_gen's tree walkers the new statement kinds (this process only; idempotent)"""
    if _ORIG:
        return
    for name, new in [("stmt_src", _stmt_src), ("prog_src", _prog_src), ("prog_vars", _prog_vars), ("flatten_seq", _flatten_seq),
                      ("count_braceless", _count_braceless), ("has_dangling_else", _has_dangling_else), ("shape_tags", _shape_tags),
                      ("lines_of", _lines_of), ("sub_programs", _sub_programs), ("size_of", _size_of), ("to_tuples", _to_tuples)]:
        _ORIG[name] = getattr(G, name)
        setattr(G, name, new)
    _ORIG["interp_stmt"] = G.Interp.stmt
    G.Interp.stmt = _interp_stmt


install()


def has_new(body):
    """does the tree contain a statement (or a method call) only Model.LoopSwitch knows?"""
    for s in body:
        k = s[0]
        if k in NEW_KINDS or (k == "call" and "." in s[1]):
            return True
        if k == "if":
            if any(has_new(b) for _c, b in s[1]) or (s[2] is not None and has_new(s[2])):
                return True
        elif k in ("while", "expand") and has_new(s[2]):
            return True
        elif k == "dowhile" and has_new(s[1]):
            return True
        elif k == "for" and has_new(s[4]):
            return True
    return False


def item_is_x(it):
    return bool(it.get("x")) or has_new(it["prog"]) or any("." in n or has_new(b) for n, b in (it.get("more") or {}).items())


# ------------------------------------------------------------------ Coq terms (Model.LoopSwitch.xstmts)

def xcmd_term(s, cert):
    if s[0] == "call":
        return f"CCall {coq_str('TEST:' + s[1].replace('.', '/'))}"
    return G.cmd_term(s, cert)


def label_term(lab):
    return "Switch.LDefault" if lab == "default" else f"(Switch.LNum {coq_z(lab)})"


def xstmt_term(s, cert):
    k = s[0]
    if k in ("say", "set", "add", "sub", "call", "ret"):
        return f"XCmd ({xcmd_term(s, cert)})"
    if k == "if":
        b = "XBNil"
        for c, body in reversed(s[1]):
            b = f"(XBCons {G.cond_term(c, cert)} {xstmts_term(body, cert)} {b})"
        e = "XENone" if s[2] is None else f"(XESome {xstmts_term(s[2], cert)})"
        return f"XIf {b} {e}"
    if k == "while":
        return f"XWhile {G.cond_term(s[1], cert)} {xstmts_term(s[2], cert)}"
    if k == "dowhile":
        return f"XDoWhile {xstmts_term(s[1], cert)} {G.cond_term(s[2], cert)}"
    if k == "for":
        init = "; ".join(xcmd_term(x, cert) for x in s[1])
        step = "; ".join(xcmd_term(x, cert) for x in s[3])
        return f"XFor [{init}] {G.cond_term(s[2], cert, wrapped=False)} [{step}] {xstmts_term(s[4], cert)}"
    if k == "switch":
        cs = "XKNil"
        for lab, body, brk in reversed(s[2]):
            cs = f"(XKCons {label_term(lab)} {xstmts_term(body, cert)} {'true' if brk else 'false'} {cs})"
        return f"XSwitch {G.score_term(s[1], cert)} {cs}"
    if k == "xrun":
        assert s[2] == cert["VAR"], "xrun objective must be the VAR objective of the item's jmc.txt"
        return f"XRun {G.score_term(s[1], cert)} {xstmts_term(s[3], cert)}"
    raise ValueError(k)


def xstmts_term(body, cert):
    flat = []
    for s in body:
        if s[0] == "repeat":                    # the arrow function is compiled once per index
            flat.extend(list(s[2]) * s[1])
        else:
            flat.append(s)
    t = "XNil"
    for s in reversed(flat):
        if s[0] == "repeat":
            raise ValueError("directly nested repeat")
        t = f"(XCons ({xstmt_term(s, cert)}) {t})"
    return t


def cfg_term(it):
    pf = it.get("pack_format")
    return f"(Switch.mkCfg {coq_z(-1 if pf is None else int(pf))} {'true' if it.get('forcebst') else 'false'})"


def fn_file(n):
    return n.replace(".", "/")


def xcase_term(it, cert, res, ns="TEST"):
    funs = G.item_functions(it)
    if not res["ok"]:
        fl = "; ".join(f'({coq_str(n)}, (fun nm => {xstmts_term(b, cert)}), "<error>")' for n, b in funs)
        return f"mkXCase {G.names_term(cert, ns)} {cfg_term(it)} [{fl}] []"
    fns = G.real_functions(res, ns)
    users = {n: fns.pop(fn_file(n), f"<missing function {n}>") for n, _ in funs}
    priv = [(f"{ns}:{k}", v) for k, v in sorted(fns.items()) if k.startswith(cert["PRIVATE"] + "/")]
    other = [k for k in fns if not k.startswith(cert["PRIVATE"] + "/") and k not in (cert["LOAD"], cert["TICK"])]
    if other:
        users["f"] = "<unexpected functions: %s>" % ",".join(other)
    pl = "; ".join(f"({coq_str(k)}, {coq_str(v)})" for k, v in priv)
    fl = "; ".join(f"({coq_str(n)}, (fun nm => {xstmts_term(b, cert)}), {coq_str(users[n])})" for n, b in funs)
    return f"mkXCase {G.names_term(cert, ns)} {cfg_term(it)} [{fl}] [{pl}]"


XCOQ_HEADER = ("From Coq Require Import ZArith String List.\n"
               "From JMCV Require Import MC.Syntax Model.Names Model.Cond Model.PrivAlloc Model.IfElse Model.Loop Model.LoopSwitch Run.C05.\n"
               "From JMCV Require Model.Switch.\n"
               "Import ListNotations.\nOpen Scope string_scope.\n")


# ------------------------------------------------------------------ the real compiler on an item

def job_of(it, src=None):
    j = dict(src=src or G.jmc_src(it), cert=G.cert_text(G.CERTS[it["cert"]]))
    if it.get("pack_format") is not None:
        j["pack_format"] = it["pack_format"]
    if it.get("forcebst"):
        j["header"] = "#forcebst"
    return j


def funcs_of(it):
    """the other user functions for the source interpreter (keyed as they are called)"""
    return it.get("more") or None


def xminimise(it, fail, rounds=10, per_round=80):
    """greedy shrinking of a semantically failing pack, recompiled under the item's own configuration"""
    from lib import compile_batch
    import random
    cert = G.CERTS[it["cert"]]
    best, best_more, best_fail = it["prog"], dict(it.get("more") or {}), fail
    for _ in range(rounds):
        cands = [(c, best_more) for c in G.sub_programs(best) if c]
        for n, b in best_more.items():
            cands += [(best, {**best_more, n: nb}) for nb in G.sub_programs(b) if nb]
        cands.sort(key=lambda cm: G.size_of(cm[0]) + sum(G.size_of(b) for b in cm[1].values()))
        cands = cands[:per_round]
        if not cands:
            break
        res = compile_batch([job_of(dict(it, prog=c, more=m, src=None)) for c, m in cands], chunk=20)
        found = None
        for (c, m), r in zip(cands, res):
            if not r["ok"]:
                continue
            init = {tuple(k.split(" ", 1)): v for k, v in best_fail["init"].items()} if "init" in best_fail else {}
            keep = G.prog_vars(c)
            for b in m.values():
                G.prog_vars(b, keep)
            init = {k: v for k, v in init.items() if k[0] in keep}
            states = [init] + G.states_for(c, cert, cap=32, rng=random.Random(0), more=m, domains=it.get("values"))
            try:
                f, *_ = G.semantic_failure(c, run_fns(r), cert, states, funcs=m or None)
            except KeyError:
                continue
            if f:
                found = (c, m, f)
                break
        if not found:
            break
        best, best_more, best_fail = found
    return best, best_fail, best_more


def run_fns(res, ns="TEST"):
    """the emitted functions for mcvm"""
    return G.real_functions(res, ns)


def switch_vars(body, acc=None):
    """variables some switch statement of the tree switches on"""
    acc = acc if acc is not None else []
    for s in body:
        k = s[0]
        if k == "switch" and s[1] not in acc:
            acc.append(s[1])
        for b in _sub_bodies(s):
            switch_vars(b, acc)
        if k == "if":
            for _c, b in s[1]:
                switch_vars(b, acc)
            if s[2] is not None:
                switch_vars(s[2], acc)
        elif k in ("while", "expand"):
            switch_vars(s[2], acc)
        elif k == "dowhile":
            switch_vars(s[1], acc)
        elif k == "for":
            switch_vars(s[4], acc)
    return acc


def check_xprograms(ck, items, tier, what):
    """like c04_gen.check_programs, for items whose trees need Model.LoopSwitch: compile under the item's pack_format /
    #forcebst, compare every function's text with the model in Coq (Run.C05.xmismatches), run the emitted functions in
    mcvm from every enumerated state against the source meaning, report violations with minimised replays."""
    from lib import compile_batch, eval_strings
    if not items:
        return dict(results=[], bad=set(), sem_fail={}, n_runs=0, n_skipped=0, tags={}, streams={}, iters_hist={}, n_errors=0)
    results = compile_batch([job_of(it) for it in items], chunk=100)
    terms = [xcase_term(it, G.CERTS[it["cert"]], r) for it, r in zip(items, results)]
    bad, errs = G.eval_cases_fast(ck.prop, XCOQ_HEADER, terms, per_file=200, prefix="xcases", clean=False, checker="xmismatches")
    for e in errs:
        ck.violation(dict(kind="correspondence-file-failed", log=e), no_input=True)
    bad = set(bad)
    n_runs = n_skipped = 0
    iters_hist = {}
    sem_fail = {}
    values = (0, 1) if tier == "quick" else (0, 1, None)
    for i, (it, r) in enumerate(zip(items, results)):
        if not r["ok"]:
            continue
        cert = G.CERTS[it["cert"]]
        # a switched variable is never left UNSET: the binary search tree copies it with `scoreboard players operation`, which creates the
        # score (0), the macro dispatch reads it with `scoreboard players get`, which does not — a difference between the two lowerings
        # that is not about loops (a later `$x == 0` sees it); both read an unset score as 0 when selecting the case
        doms = dict(it.get("values") or {})
        sv = switch_vars(it["prog"])
        for b in (it.get("more") or {}).values():
            switch_vars(b, sv)
        for v in sv:
            doms.setdefault(v, tuple(x for x in values if x is not None))
        states = G.states_for(it["prog"], cert, values=values, cap=max(it.get("cap", 0), 48 if tier == "quick" else 128),
                              rng=ck.rng, domains=doms, more=it.get("more"))
        stale = {("__if_else__", cert["VAR"]): 1, ("__logic__0", cert["VAR"]): 1, ("__logic__1", cert["VAR"]): 1,
                 ("__found_case__", cert["VAR"]): 1, ("__switch__0", cert["VAR"]): 1, ("__switch__1", cert["VAR"]): -1}
        states = states + [{**s, **stale} for s in states[::2]]
        f, nr, sk, mi = G.semantic_failure(it["prog"], run_fns(r), cert, states, funcs=funcs_of(it))
        n_runs += nr
        n_skipped += sk
        key = "0" if mi == 0 else "1" if mi == 1 else "2-5" if mi <= 5 else ">5"
        iters_hist[key] = iters_hist.get(key, 0) + 1
        if f:
            sem_fail[i] = f
    reported = 0
    seen_sig = set()
    for i, f in sem_fail.items():
        it = items[i]
        cert = G.CERTS[it["cert"]]
        sig = (f["kind"], it["stream"])
        if reported >= 3 or sig in seen_sig:
            continue
        seen_sig.add(sig)
        reported += 1
        small, sf, smore = xminimise(it, f)
        sit = dict(it, prog=small, more=smore or None)
        ck.violation(dict(kind="semantic-failure", what=what, source=G.jmc_src(sit), jmc_txt=cert, xjob=job_of(sit),
                          program=small, more=smore or None, failure=sf, original_source=G.jmc_src(it), stream=it["stream"],
                          pack_format=it.get("pack_format"), forcebst=bool(it.get("forcebst")),
                          n_failing_cases=len(sem_fail), text_differs_from_model=(i in bad),
                          note="the functions emitted by the real compiler (same pack_format / #forcebst), run in mcvm from `init`, "
                               "against the JavaScript meaning of the source"))
    silent = sorted(i for i in bad if i not in sem_fail)
    if silent and not sem_fail:
        show = silent[:3]
        try:
            model_out = eval_strings(ck.prop, XCOQ_HEADER, [f"xmodel_text ({terms[i]})" for i in show], name="xshow.v")
        except Exception as e:  # noqa
            model_out = [str(e)] * len(show)
        ck.violation(dict(kind="correspondence-differs",
                          theorem=f"the {ck.prop} theorems about loops in / around switch statements and blocks (Model.LoopSwitch) no longer speak "
                                  "about the code: emitted text differs from the model",
                          cases=[dict(source=G.jmc_src(items[i]), job={k: v for k, v in job_of(items[i]).items() if k not in ("src", "cert")},
                                      real=(results[i]["files"] if results[i]["ok"] else results[i]), model=m)
                                 for i, m in zip(show, model_out)],
                          n_differing=len(silent)), no_input=True)
    elif silent:
        ck.cov["x_text_differs_without_semantic_failure"] = len(silent)
    tags = {}
    streams = {}
    for it in items:
        G.shape_tags(it["prog"], tags)
        for b in (it.get("more") or {}).values():
            G.shape_tags(b, tags)
        streams[it["stream"]] = streams.get(it["stream"], 0) + 1
    return dict(results=results, bad=bad, sem_fail=sem_fail, n_runs=n_runs, n_skipped=n_skipped, tags=tags, streams=streams,
                iters_hist=iters_hist, n_errors=sum(1 for r in results if not r["ok"]))


def xreplay(rp, prop):
    """re-run the stored input (source + pack_format / #forcebst) against lib.REPO"""
    from lib import compile_batch, REPO
    cert = rp["jmc_txt"]
    res = compile_batch([rp["xjob"]])[0]
    print(f"replay property={prop} repo={REPO} pack_format={rp.get('pack_format')} forcebst={rp.get('forcebst')}\n--- source\n{rp['source']}")
    if not res["ok"]:
        print("compiler raised:", res["exc"], res["msg"][:300])
        return 1
    init = {tuple(k.split(" ", 1)): v for k, v in rp["failure"].get("init", {}).items()}
    body = G.to_tuples(rp["program"])
    more = {n: G.to_tuples(b) for n, b in (rp.get("more") or {}).items()}
    f, *_ = G.semantic_failure(body, run_fns(res), cert, [init], funcs=more or None)
    it = G.Interp(init, cert["VAR"], funcs=more or None)
    try:
        it.block(body)
        print("--- init", rp["failure"].get("init"), "\n--- expected trace", it.trace)
    except G.Diverge:
        print("source program diverges from this state")
    if f:
        print("--- actual  ", {k: v for k, v in f.items() if k != "init"})
        print("STILL FAILS")
        return 1
    print("--- actual trace equals expected: no longer fails")
    return 0


# ------------------------------------------------------------------ generators

LOWERINGS = [dict(pack_format=None, forcebst=False, mode="bst"),          # JMCTestPack's default pack_format (-1): binary search tree
             dict(pack_format=48, forcebst=False, mode="macro"),          # macro dispatch
             dict(pack_format=48, forcebst=True, mode="bst"),             # #forcebst
             dict(pack_format=15, forcebst=False, mode="bst"),
             dict(pack_format=16, forcebst=False, mode="macro")]

# label profiles: consecutive ones compile under both lowerings, the others need the macro dispatch
CONSEC_LABELS = [[-1], [0], [2], [-2, -1], [-1, 0], [-1, 0, 1], [-3, -2, -1], [0, 1, 2], [1, 2, 3, 4], [-2, -1, 0, 1, 2]]
MACRO_LABELS = [[-1, "default"], [3, -7, 0], [2, 1, -1, -2], [-5, "default", 4], [0, "default"], [-1, 5, "default", -3],
                [10, -10], [-2147483648, 2147483647, "default"], [1, -1, "default"], [-4]]

LOOPS = ["while", "dowhile", "for", "while_or", "for_or", "dowhile_or"]
FOLLOWS = ["say", "set_say", "for", "while", "dowhile", "chain", "none", "switch", "two"]
POSITIONS = ["first", "middle", "last", "only"]


def label_kind(lab):
    return "default" if lab == "default" else "neg" if lab < 0 else "zero" if lab == 0 else "pos"


def mk_loop(kind, nm, tag, bound=2, extra_body=None):
    """-> (statements that must precede the loop, the loop).  Every loop counts on its own `$L` variable; the `_or` kinds
    have a condition with helper lines (`$L < N && ($m == 1 || $n != 1)` style, still bounded by the counter)."""
    lv = nm.loopvar()
    g = (lv, "<", bound)
    if kind.endswith("_or"):
        cond = [("or", [[g, ("$m", "==", 1)], [g, ("$n", "!=", 1)]])]
    else:
        cond = [("atom", g)]
    say = nm.say(tag)
    inc = ("add", lv, 1)
    body = [say] + list(extra_body or [])
    base = kind.split("_")[0]
    if base == "for":
        return [], ("for", [("set", lv, 0)], cond, [inc], body)
    if base == "while":
        return [("set", lv, 0)], ("while", cond, body + [inc])
    return [("set", lv, 0)], ("dowhile", [inc] + body, cond)


def mk_follow(kind, nm, tag):
    """statements written right after a loop, whose effect is visible (say-trace / final scores)"""
    if kind == "none":
        return []
    if kind == "say":
        return [nm.say(tag)]
    if kind == "two":
        return [nm.say(tag), nm.say(tag)]
    if kind == "set_say":
        return [("add", "$r", 1), nm.say(tag)]
    if kind == "chain":
        return [("if", [(G.atomic_cond("$m"), [nm.say(tag), nm.say(tag)]), (G.or_cond("$n", "$m"), [nm.say(tag)])], [nm.say(tag)])]
    if kind == "switch":
        return [("switch", "$m", [(0, [nm.say(tag)], True), (1, [nm.say(tag), nm.say(tag)], False)], 0), nm.say(tag)]
    pre, lp = mk_loop(kind, nm, tag)
    return pre + [lp]


def case_body(loop_kind, pos, follow, nm, tag):
    """a case body with a loop in position pos, followed by `follow`"""
    pre, lp = mk_loop(loop_kind, nm, tag)
    fo = mk_follow(follow, nm, tag + "f")
    if pos == "only":
        # the counter initialiser of a while / do-while is a statement of its own: `only` = nothing but the loop statement(s)
        return pre + [lp]
    if pos == "first":
        # the LOOP statement is the first statement of the case: the initialiser goes in front of the switch
        return ("hoist", pre, [lp] + (fo or [nm.say(tag + "f")]))
    if pos == "middle":
        return [nm.say(tag + "p")] + pre + [lp] + (fo or [nm.say(tag + "f")])
    return [nm.say(tag + "p")] + pre + [lp]           # last


def mk_switch(labels, bodies, var="$x", brks=None, style=0):
    cases = []
    hoisted = []
    for i, (lab, b) in enumerate(zip(labels, bodies)):
        if isinstance(b, tuple) and b and b[0] == "hoist":
            hoisted += b[1]
            b = b[2]
        cases.append((lab, b, bool(brks[i]) if brks else (i % 2 == 0)))
    return hoisted, ("switch", var, cases, style)


def switch_domain(labels):
    nums = [l for l in labels if l != "default"]
    cand = set(nums) | {min(nums) - 1, max(nums) + 1, 0}
    for a, b in zip(sorted(nums), sorted(nums)[1:]):
        if b - a > 1:
            cand.add(a + 1)
    return tuple(sorted(v for v in cand if -2**31 <= v <= 2**31 - 1))


def enclose(kind, stmts, nm, cert, labels_dom=None):
    """put the statements into an enclosing block of the given kind -> (prog, more, order)"""
    VAR = cert["VAR"]
    end = nm.say("end")
    if kind == "function":
        return stmts + [end], None, None
    if kind == "if_branch":
        return [("if", [(G.atomic_cond("$e"), stmts)], [nm.say("X")]), end], None, None
    if kind == "elif_branch":
        return [("if", [(G.atomic_cond("$e"), [nm.say("X"), nm.say("X")]), (G.or_cond("$g", "$e"), stmts)], None), end], None, None
    if kind == "else_branch":
        return [("if", [(G.atomic_cond("$e"), [nm.say("X")])], stmts), end], None, None
    if kind in ("for_body", "while_body", "dowhile_body"):
        o = nm.loopvar()
        c = [("atom", (o, "<", 2))]
        inc = ("add", o, 1)
        if kind == "for_body":
            return [("for", [("set", o, 0)], c, [inc], stmts), end], None, None
        if kind == "while_body":
            return [("set", o, 0), ("while", c, stmts + [inc]), end], None, None
        return [("set", o, 0), ("dowhile", [inc] + stmts, c), end], None, None
    if kind == "method":
        return [("call", "cls.m"), end], {"cls.m": stmts + [nm.say("mend")]}, ["cls.m", "f"] if nm.n_say % 2 else ["f", "cls.m"]
    if kind == "xrun":
        return [("xrun", "$e", VAR, stmts), end], None, None
    if kind == "repeat":
        return [("repeat", 2, stmts), end], None, None
    if kind in ("case_neg", "case_zero", "case_pos", "case_default"):
        labs = {"case_neg": [-2, -1], "case_zero": [-1, 0, 1], "case_pos": [1, 2], "case_default": [-1, "default"]}[kind]
        tgt = {"case_neg": 1, "case_zero": 1, "case_pos": 1, "case_default": 1}[kind]
        bodies = [[nm.say("o")] for _ in labs]
        bodies[tgt] = stmts
        # only statements that do not need their initialiser hoisted come here: the caller passes a body whose first statement is the loop
        _h, sw = mk_switch(labs, bodies, var="$y", brks=[True] * len(labs))
        return [sw, end], None, None
    raise ValueError(kind)


ENCLOSURES = ["function", "if_branch", "elif_branch", "else_branch", "for_body", "while_body", "dowhile_body", "method", "xrun", "repeat",
              "case_neg", "case_zero", "case_pos", "case_default"]


def lowering_for(enc_or_labels, n):
    """a lowering that can compile the labels"""
    if isinstance(enc_or_labels, str):
        if enc_or_labels == "case_default":
            return LOWERINGS[1] if n % 2 else LOWERINGS[4]
        return LOWERINGS[n % len(LOWERINGS)]
    labs = enc_or_labels
    nums = [l for l in labs if l != "default"]
    consec = "default" not in labs and nums == list(range(nums[0], nums[0] + len(nums)))
    return LOWERINGS[n % len(LOWERINGS)] if consec else (LOWERINGS[1] if n % 2 else LOWERINGS[4])


def xitem(prog, n, stream, low, more=None, order=None, values=None, cap=64, flatten=True, **kw):
    return dict(prog=G.flatten_seq(prog) if flatten else prog, more=more, order=order, cert=kw.pop("cert", n % 2), stream=stream, x=True,
                pack_format=low["pack_format"], forcebst=low["forcebst"], values=values or {}, cap=cap, **kw)


def case_loop_items(rng, quick):
    """loops as first / middle / last / only statement of switch cases with negative, zero, positive, unsorted labels and
    `default`, in both lowerings; every case of the switch holds a loop, the kinds / positions / followers rotate"""
    items = []
    n = 0
    profiles = [(l, True) for l in CONSEC_LABELS] + [(l, False) for l in MACRO_LABELS]
    for pi, (labels, consec) in enumerate(profiles):
        lows = LOWERINGS if consec else [LOWERINGS[1], LOWERINGS[4]]
        rounds = range(len(POSITIONS)) if quick else range(len(POSITIONS) * 3)
        for rnd in rounds:
            for li, low in enumerate(lows):
                if quick and (pi + rnd + li) % 2 and len(lows) > 2:
                    continue
                n += 1
                nm = G.Names()
                cert = n % 2
                bodies = []
                for ci, lab in enumerate(labels):
                    lk = LOOPS[(n + ci + rnd) % len(LOOPS)]
                    pos = POSITIONS[(rnd + ci) % len(POSITIONS)]
                    fo = FOLLOWS[(n + 2 * ci + rnd // len(POSITIONS)) % len(FOLLOWS)]
                    bodies.append(case_body(lk, pos, fo, nm, f"c{ci}"))
                brks = [(n + ci) % 3 != 0 for ci in range(len(labels))]
                hoisted, sw = mk_switch(labels, bodies, brks=brks, style=(n // 2) % 4)
                prog = hoisted + [sw, nm.say("end")]
                items.append(xitem(prog, n, "case-loop-matrix", low, values={"$x": switch_domain(labels)}, cert=cert))
    return items


def follow_items(rng, quick):
    """a statement FOLLOWING a loop, in every kind of enclosing block: it must run exactly once after the loop"""
    items = []
    n = 0
    for ei, enc in enumerate(ENCLOSURES):
        for ki, lk in enumerate(LOOPS):
            fsel = FOLLOWS if not quick else [FOLLOWS[(ei + ki + 3 * r) % len(FOLLOWS)] for r in range(3)]
            for fo in dict.fromkeys(fsel):
                if fo == "none":
                    continue
                for first in ((True, False) if not quick else (bool((ei + ki + n) % 2),)):
                    n += 1
                    nm = G.Names()
                    cert = G.CERTS[n % 2]
                    pre, lp = mk_loop(lk, nm, "B")
                    stmts = [lp] + mk_follow(fo, nm, "F")
                    if enc.startswith("case_") or first:
                        outer_pre = pre                      # the loop statement is the FIRST statement of the block
                    else:
                        outer_pre, stmts = [], [nm.say("P")] + pre + stmts
                    prog, more, order = enclose(enc, stmts, nm, cert)
                    prog = outer_pre + prog
                    low = lowering_for(enc, n)
                    vals = {"$y": {"case_neg": (-3, -2, -1, 0), "case_zero": (-2, -1, 0, 1, 2), "case_pos": (0, 1, 2, 3),
                                   "case_default": (-2, -1, 0, 7)}.get(enc, (0, 1))}
                    items.append(xitem(prog, n, "follow-matrix", low, more=more, order=order, values=vals, cert=n % 2,
                                       fm=dict(encl=enc, loop=lk, follow=fo, loop_first=bool(enc.startswith("case_") or first))))
    return items


def switch_in_loop_items(rng, quick):
    """a switch inside a loop body: the loop drives the switched variable through every label (and past both ends); every case
    body holds a loop of its own followed by a statement"""
    items = []
    n = 0
    profiles = [(l, True) for l in CONSEC_LABELS[3:]] + [(l, False) for l in MACRO_LABELS[:7]]
    for pi, (labels, consec) in enumerate(profiles):
        for oi, outer in enumerate(["for", "while", "dowhile"]):
            if quick and (pi + oi) % 3 == 2:
                continue
            n += 1
            nm = G.Names()
            nums = [l for l in labels if l != "default"]
            lo, hi = min(nums) - 1, max(nums) + 1
            if hi - lo > 14:
                lo, hi = -3, 3
            bodies = []
            for ci, lab in enumerate(labels):
                bodies.append(case_body(LOOPS[(n + ci) % len(LOOPS)], ["first", "middle"][(n + ci) % 2], FOLLOWS[(n + ci) % 4], nm, f"c{ci}"))
            hoisted, sw = mk_switch(labels, bodies, var="$w", brks=[(n + ci) % 2 == 0 for ci in range(len(labels))], style=n % 4)
            inner = hoisted + [sw, nm.say("it")]
            c = [("atom", ("$w", "<=", hi))]
            inc = ("add", "$w", 1)
            if outer == "for":
                prog = [("for", [("set", "$w", lo)], c, [inc], inner)]
            elif outer == "while":
                prog = [("set", "$w", lo), ("while", c, inner + [inc])]
            else:
                prog = [("set", "$w", lo), ("dowhile", inner + [inc], c)]
            low = lowering_for(labels, n)
            items.append(xitem(prog + [nm.say("end")], n, "switch-in-loop", low, values={"$w": (0,)}, cert=n % 2))
    return items


def random_xstmt(rng, nm, depth, vars_, mode, VAR):
    """random nests over every statement kind (switch labels fit the lowering `mode`)"""
    r = rng.random()
    if depth <= 0 or r < 0.25:
        k = rng.random()
        if k < 0.6:
            return nm.say()
        if k < 0.8:
            return ("set", rng.choice(vars_), rng.choice([0, 1, 1, 2, -1]))
        return ("add", rng.choice(vars_), rng.choice([1, 1, 2]))
    body = lambda: [random_xstmt(rng, nm, depth - 1, vars_, mode, VAR) for _ in range(rng.choice([1, 2, 2, 3]))]
    if r < 0.45:
        return _random_loop_x(rng, nm, body, vars_)
    if r < 0.65:
        nb = rng.choice([1, 2, 2, 3])
        return ("if", [(G.random_cond(rng, vars_, allow_or=True), body()) for _ in range(nb)], body() if rng.random() < 0.5 else None)
    if r < 0.9:
        if mode == "bst":
            start = rng.choice([-3, -2, -1, -1, 0, 1])
            labels = list(range(start, start + rng.choice([1, 2, 3, 4])))
        else:
            labels = rng.sample([-7, -2, -1, 0, 1, 3, 8], rng.choice([1, 2, 3]))
            if rng.random() < 0.5:
                labels.insert(rng.randrange(1, len(labels) + 1), "default")
        return ("switch", rng.choice(vars_), [(l, body(), rng.random() < 0.6) for l in labels], rng.randrange(4))
    if r < 0.95:
        return ("xrun", rng.choice(vars_), VAR, body())
    return ("repeat", 2, body())


def _random_loop_x(rng, nm, body, vars_):
    lv = nm.loopvar()
    bound = rng.choice([0, 1, 2, 2])
    g = (lv, "<", bound)
    v, w = rng.choice(vars_), rng.choice(vars_)
    cond = rng.choice([[("atom", g)], [("atom", g), ("or", [[(v, "==", 1)], [(w, "!=", 1)]])], [("or", [[g, (v, ">=", 0)], [g, (w, "==", 1)]])]])
    inc = ("add", lv, 1)
    b = body()
    kind = rng.choice(["while", "dowhile", "for"])
    if kind == "for":
        return ("for", [("set", lv, 0)], cond, [inc], b)
    b.insert(rng.randrange(len(b) + 1), inc)
    return ("seq", [("set", lv, 0), ("while", cond, b) if kind == "while" else ("dowhile", b, cond)])


def _has_loop_and_new(p):
    t = G.shape_tags(p)
    return any(k.startswith(("while_", "dowhile_", "for_")) for k in t) and has_new(p)


def random_x_items(rng, quick):
    items = []
    n = 0
    tries = 0
    while n < (90 if quick else 1500) and tries < 100000:
        tries += 1
        low = rng.choice(LOWERINGS)
        cert = rng.randrange(2)
        nm = G.Names()
        vars_ = ["$a", "$b", "$c"][:rng.choice([2, 3])]
        prog = G.flatten_seq([random_xstmt(rng, nm, rng.choice([2, 3, 3]), vars_, low["mode"], G.CERTS[cert]["VAR"])
                              for _ in range(rng.choice([1, 2, 2]))] + [nm.say("end")])
        if not _has_loop_and_new(prog) or G.size_of(prog) > 70 or _nested_repeat(prog):
            continue
        n += 1
        items.append(xitem(prog, n, "random-nested-switch", low, values={v: (-1, 0, 1, 2) for v in vars_}, cert=cert, cap=48))
    return items


def _nested_repeat(body, inside=False):
    for s in body:
        if s[0] == "repeat":
            if inside or _nested_repeat(s[2], True):
                return True
        elif s[0] == "if":
            if any(_nested_repeat(b, inside) for _c, b in s[1]) or (s[2] is not None and _nested_repeat(s[2], inside)):
                return True
        elif s[0] == "while" and _nested_repeat(s[2], inside):
            return True
        elif s[0] == "dowhile" and _nested_repeat(s[1], inside):
            return True
        elif s[0] == "for" and _nested_repeat(s[4], inside):
            return True
        elif s[0] in ("switch", "xrun") and any(_nested_repeat(b, inside) for b in _sub_bodies(s)):
            return True
    return False


# ---- long if/else chains with overlapping conditions inside loop bodies (Model.Loop: the old pipeline) -------------------

def long_chain_items(rng, quick):
    """chains of 5-7 branches whose conditions OVERLAP (several are true at once: only the first may run), inside the body of
    every loop kind, the loop driving the tested variable through every threshold.  Any reordering of two stages, a stage
    run twice or skipped shows in the trace."""
    items = []
    n = 0
    for nb in (5, 6, 7):
        for lk in ("for", "while", "dowhile"):
            for has_else in (True, False):
                for shape in ("thresholds_up", "thresholds_down", "mixed_or", "overlap_vars"):
                    if quick and (nb + n) % 2 and shape != "thresholds_up":
                        n += 1
                        continue
                    n += 1
                    nm = G.Names()
                    k = "$k"
                    brs = []
                    for i in range(nb):
                        if shape == "thresholds_up":        # $k <= i : for k = j the branches j.. are all true
                            c = [("atom", (k, "<=", i))]
                        elif shape == "thresholds_down":    # $k >= nb - i
                            c = [("atom", (k, ">=", nb - i))]
                        elif shape == "mixed_or":           # every other condition needs helper lines
                            c = [("or", [[(k, "==", i)], [(k, "<=", i - 1), ("$a", "==", 1)]])] if i % 2 else [("atom", (k, "<=", i))]
                        else:                               # overlapping tests on several variables
                            c = [("f", G.OR(G.A(k, "==", i), G.AND(G.A("$a", "==", 1), G.A(k, "<=", i + 1))))] if i % 3 == 1 else \
                                [("atom", (k, "<=", i))] if i % 3 == 0 else [("f", G.AND(G.A(k, "<=", i), G.NOT(G.A("$b", "==", 1))))]
                        body = [nm.say(f"B{i}_")] + ([nm.say(f"B{i}_")] if i % 2 else []) + ([("set", "$a", 1 - i % 2)] if i % 3 == 2 else [])
                        brs.append((c, body))
                    els = [nm.say("E"), nm.say("E")] if has_else else None
                    chain = ("if", brs, els)
                    c = [("atom", (k, "<=", nb + 1))]
                    inc = ("add", k, 1)
                    if lk == "for":
                        prog = [("for", [("set", k, -1)], c, [inc], [chain, nm.say("it")])]
                    elif lk == "while":
                        prog = [("set", k, -1), ("while", c, [chain, nm.say("it"), inc])]
                    else:
                        prog = [("set", k, -1), ("dowhile", [chain, nm.say("it"), inc], c)]
                    items.append(dict(prog=prog + [nm.say("end")], cert=n % 2, stream="long-chain-in-loop", values={"$k": (0,)}, cap=16))
    return items


def braceless_in_case_items(rng, quick):
    """`case <label>: if (c) <loop without braces> <follower>` and `… if (c) stmt; else <loop without braces> <follower>`: the label in
    front of a brace-less chain whose body is a loop (the round-3 shapes, now behind a case label), first in the case or after a statement"""
    items = []
    n = 0
    for labels, consec in [([-2, -1], True), ([-1, 0, 1], True), ([1, 2], True), ([-3, "default"], False), ([4, -4, "default"], False)]:
        for form in ("if_loop", "if_else_loop", "elif_loop"):
            for lk in ("for", "while", "for_or"):
                for first in (True, False):
                    if quick and (n % 3 == 2):
                        n += 1
                        continue
                    n += 1
                    nm = G.Names()
                    hoisted = []
                    bodies = []
                    for ci, lab in enumerate(labels):
                        pre, lp = mk_loop(lk if ci % 2 == 0 else "for", nm, f"c{ci}")
                        hoisted += pre
                        c0 = G.atomic_cond("$a") if (n + ci) % 2 else G.or_cond("$a", "$b")
                        if form == "if_loop":
                            ch = ("if", [(c0, G.NB([lp]))], None)
                        elif form == "if_else_loop":
                            ch = ("if", [(c0, G.NB([nm.say(f"c{ci}t")]))], G.NB([lp]))
                        else:
                            ch = ("if", [(c0, [nm.say(f"c{ci}t"), nm.say(f"c{ci}t")]), (G.atomic_cond("$b"), G.NB([lp]))], None)
                        bodies.append(([] if first else [nm.say(f"c{ci}p")]) + [ch] + mk_follow(FOLLOWS[(n + ci) % 3], nm, f"c{ci}f"))
                    _h, sw = mk_switch(labels, bodies, brks=[(n + ci) % 2 == 0 for ci in range(len(labels))], style=n % 4)
                    low = lowering_for(labels, n)
                    items.append(xitem(hoisted + [sw, nm.say("end")], n, "braceless-in-case", low, values={"$x": switch_domain(labels)}, cert=n % 2,
                                       flatten=False))      # flatten_seq would drop the brace-less markers
    return items


def nested_default_items(rng, quick):
    """macro dispatch: a switch with `default` nested in a LABELLED case of a switch with `default` (inside / after a loop): the inner
    dispatcher resets the shared found flag; the outer default must not run after the labelled case"""
    items = []
    n = 0
    for outer_labels in ([1, "default"], [-1, 3, "default"], [0, "default", 2]):
        for inner_in_loop in (False, True):
            for lk in ("for", "while", "dowhile"):
                n += 1
                nm = G.Names()
                inner = ("switch", "$z", [(1, [nm.say("i1")], True), ("default", [nm.say("id")], False)], n % 4)
                pre, lp = mk_loop(lk, nm, "L", extra_body=[inner] if inner_in_loop else None)
                target = pre + [lp] + ([] if inner_in_loop else [inner]) + [nm.say("after")]
                bodies = [target if i == 0 else [nm.say(f"o{i}")] for i in range(len(outer_labels))]
                _h, sw = mk_switch(outer_labels, bodies, var="$x", brks=[True] * len(outer_labels), style=n % 2)
                low = LOWERINGS[1] if n % 2 else LOWERINGS[4]
                items.append(xitem([sw, nm.say("end")], n, "nested-default", low,
                                   values={"$x": switch_domain(outer_labels), "$z": (0, 1, 2)}, cert=n % 2))
    return items


def x_items(rng, tier):
    quick = tier == "quick"
    return case_loop_items(rng, quick) + follow_items(rng, quick) + switch_in_loop_items(rng, quick) + random_x_items(rng, quick) + \
        braceless_in_case_items(rng, quick) + nested_default_items(rng, quick)
