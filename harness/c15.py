"""C15 — output is independent of whitespace, line breaks and // comments.

proof step      : Props/C15.v (tokenizer model Model/Layout.v; theorems about relayout)
tie             : every call of the real Tokenizer.parse and every is_connected decision made while compiling
                  corpus programs and their re-layouts == Model.Layout (Coq, vm_compute)
search / oracle : metamorphic on the real compiler only: each corpus program in 8 re-layouts must give a
                  byte-identical virtual file map; a differing pair is minimised to the layout runs that matter.
"""
from __future__ import annotations

import difflib
import json
import re

import c15_args as AR
import c15_corpus as C
import c15_gaps as GP
import c15_inside as IN
import c15_layout as L
import c15_model as M
import c15_tokcases as TC
import os

from lib import (Check, COMMON_TRUSTED, VERIF, compile_batch, coq_bool, coq_list, eval_cases, known_for, run_py)

PROP = "C15"
RUNNER = VERIF / "harness" / "c15_run.py"


def known_entries(prop=PROP):
    """Entries of known_findings.json for this property (plus, for testing a proposal before the integrator has
    merged it, those of the file named by $VERIF_EXTRA_KNOWN)."""
    out = list(known_for(prop))
    extra = os.environ.get("VERIF_EXTRA_KNOWN")
    if extra and os.path.exists(extra):
        out += [f for f in json.loads(open(extra).read()).get("findings", []) if f.get("property") == prop]
    return out


# --------------------------------------------------------------------------- corpus

def test_suite_inputs():
    try:
        items = run_py(RUNNER, dict(op="corpus"), timeout=600)
    except Exception as e:  # noqa
        return [], f"could not collect the test-suite inputs: {e}"
    out = []
    for it in items:
        out.append(dict(src=it["src"], header=it["header"], cert=C.FULL_CERT, pack_format=it["pack_format"],
                        envs=it["envs"], origin="tests"))
    return out, None


ALL_FIX_PROBES = dict(IN.FIX_PROBES, **AR.FIX_PROBES)
FINDING_OF = dict(IN.FINDING_OF, **AR.FINDING_OF)
SCOPE = dict(IN.SCOPE, **AR.SCOPE)


PINNED_FIXES = ("raw-bracket-text", "scoreboard-argument")


def fix_probes():
    """which fixes of recorded defects does this tree have (canonical inputs, c15_inside.FIX_PROBES)?"""
    names = sorted(ALL_FIX_PROBES)
    res = compile_batch([dict(src=ALL_FIX_PROBES[n][0], cert=C.FULL_CERT) for n in names], chunk=10)
    out = {}
    for n, r in zip(names, res):
        text = "\n".join(v for k, v in sorted(r.get("files", {}).items()) if k.endswith(".mcfunction")) if r["ok"] else ""
        out[n] = bool(r["ok"] and ALL_FIX_PROBES[n][1](text))
    return out


def build_corpus(rng, tier, enabled=()):
    progs, note = test_suite_inputs()
    for s in C.single_statement_programs():
        progs.append(dict(src=s, header=None, cert=C.FULL_CERT, origin="statement"))
    for e in IN.programs(C.PRELUDE, set(enabled)):
        progs.append(dict(src=e["src"], header=None, cert=C.FULL_CERT, origin="inside-brackets", kind=e["kind"], needs=e["needs"],
                          marks=e["marks"], no_comments=e["no_comments"]))
    for e in AR.programs(set(enabled)):
        progs.append(dict(src=e["src"], header=e["header"], cert=C.FULL_CERT, origin="argument-text", kind=e["kind"], usage=e["usage"],
                          needs=e["needs"], marks=e["marks"], no_comments=e["no_comments"], call=e["call"]))
    for _ in range(30 if tier == "quick" else 300):
        progs.append(dict(src=C.gen_program(rng, rng.randint(1, 4)), header=None, cert=C.FULL_CERT, origin="generated"))
    return progs, note


def job_of(p, src=None):
    j = dict(src=p["src"] if src is None else src, cert=p.get("cert") or C.FULL_CERT)
    for k in ("header", "pack_format", "envs"):
        if p.get(k):
            j[k] = p[k]
    return j


# --------------------------------------------------------------------------- minimisation / classification

def apply_runs(segs, new_runs: dict) -> str:
    """segs of the base program; new_runs: {index of lay segment (counting lay segments): text}"""
    out, k = [], 0
    for kind, text in segs:
        if kind == "lay":
            out.append(new_runs.get(k, text))
            k += 1
        else:
            out.append(text)
    return "".join(out)


def lay_runs(src):
    return [t for k, t in L.segments(src) if k == "lay"]


def same_result(a, b):
    if a["ok"] != b["ok"]:
        return False
    if a["ok"]:
        return a["files"] == b["files"]
    return a["exc"] == b["exc"]          # an accepted base never reaches here


def minimise(p, base_res, new_src):
    """Smallest set of re-laid-out runs (found greedily) that still changes the result.  Returns (changed, src, res)."""
    al = L.aligned_segments(p["src"], new_src)
    if al is None:
        return None, new_src, None
    segs, new_segs = al
    old = [t for k, t in segs if k == "lay"]
    new = [t for k, t in new_segs if k == "lay"]
    changed = {i: new[i] for i in range(len(old)) if old[i] != new[i]}
    if not changed:
        return None, new_src, None

    def fails(sub):
        src = apply_runs(segs, sub)
        r = compile_batch([job_of(p, src)], chunk=1)[0]
        return (not same_result(base_res, r)), src, r

    # singles first (one batch)
    idx = sorted(changed)
    singles = compile_batch([job_of(p, apply_runs(segs, {i: changed[i]})) for i in idx], chunk=40)
    for i, r in zip(idx, singles):
        if not same_result(base_res, r):
            return {i: changed[i]}, apply_runs(segs, {i: changed[i]}), r
    cur = dict(changed)
    n = 2
    budget = 60
    while len(cur) > 1 and budget > 0:
        keys = sorted(cur)
        size = max(1, len(keys) // n)
        chunks = [keys[i:i + size] for i in range(0, len(keys), size)]
        reduced = False
        for ch in chunks:
            rest = {k: cur[k] for k in keys if k not in ch}
            budget -= 1
            if rest and fails(rest)[0]:
                cur, n, reduced = rest, max(n - 1, 2), True
                break
        if not reduced:
            if size == 1:
                break
            n = min(len(keys), n * 2)
    ok, src, r = fails(cur)
    return cur, src, r


def strip_comments_run(run: str) -> str:
    """the same run with every // comment removed (newlines kept)"""
    out = re.sub(r"//[^\n]*", "", run)
    return out if out else "\n"


def first_comment_glued(changed) -> bool:
    return any(v.startswith("//") for v in (changed or {}).values())


def inside_call(src: str, pos: int, name: str) -> bool:
    """is offset pos inside the parentheses of a call `name(`…`)` (textually, strings respected)?"""
    for m in re.finditer(re.escape(name) + r"\s*\(", src):
        depth, i, q, esc = 0, m.end() - 1, None, False
        while i < len(src):
            c = src[i]
            if q:
                if esc:
                    esc = False
                elif c == "\\":
                    esc = True
                elif c == q:
                    q = None
            elif c in "'\"`":
                q = c
            elif c == "(":
                depth += 1
            elif c == ")":
                depth -= 1
                if depth == 0:
                    break
            i += 1
        if m.end() <= pos <= i:
            return True
    return False


def in_json_body(src: str, pos: int) -> bool:
    """is offset pos inside a {...} region whose text, comments removed, is a JSON document?"""
    opens = []
    q, esc, i = None, False, 0
    regions = []
    while i < len(src):
        c = src[i]
        if q:
            if esc:
                esc = False
            elif c == "\\":
                esc = True
            elif c == q:
                q = None
        elif c in "'\"`":
            q = c
        elif src.startswith("//", i):
            j = src.find("\n", i)
            i = len(src) if j < 0 else j
            continue
        elif c == "{":
            opens.append(i)
        elif c == "}" and opens:
            regions.append((opens.pop(), i))
        i += 1
    for a, b in sorted(regions, key=lambda r: r[0] - r[1]):   # widest first
        if a < pos < b:
            text = re.sub(r"//[^\n]*", "", src[a:b + 1])
            try:
                json.loads(text, strict=False)
                return True
            except Exception:  # noqa
                continue
    return False


def run_offset(segs, k: int) -> int:
    """offset of the k-th layout run in any text that has these segments before it"""
    off, kk = 0, 0
    for kind, text in segs:
        if kind == "lay":
            if kk == k:
                break
            kk += 1
        off += len(text)
    return off


def in_known_region(src: str, pos: int) -> bool:
    return in_json_body(src, pos) or inside_call(src, pos, "Hardcode.calc")


def known_class(p, base_res, changed, src, res, plain=None):
    """Which known finding explains a minimised failing re-layout (None = it is a violation).  `plain`: the result of
    compiling the same text with the comment of the changed run removed, if the caller already has it."""
    if res is None or res["ok"] or not changed or len(changed) != 1:
        return None
    (k, run), = changed.items()
    if "//" not in run:
        return None
    # the same run without its comment must be harmless
    al = L.aligned_segments(p["src"], src)
    if al is None:
        return None
    segs = al[0]
    if plain is None:
        plain = compile_batch([job_of(p, apply_runs(segs, {k: strip_comments_run(run)}))], chunk=1)[0]
    if not same_result(base_res, plain):
        return None
    pos = run_offset(segs, k) + run.find("//")      # offset of the comment in the re-laid-out text
    for f in known_entries():
        m = f.get("match", {})
        if (m.get("where") == "comment-mentions-hardcode-calc" and "Hardcode.calc" in run and res["exc"] in m.get("exc", [])
                and any(s in res["msg"] for s in m.get("msg_contains", [""]))):
            return f
    for f in known_entries():
        m = f.get("match", {})
        if res["exc"] in m.get("exc", []) and any(s in res["msg"] for s in m.get("msg_contains", [""])):
            if m.get("where") == "json-body" and in_json_body(src, pos):
                return f
            if m.get("where") == "hardcode-calc" and inside_call(src, pos, "Hardcode.calc"):
                return f
    return None


def file_diff(a, b):
    out = {}
    for k in sorted(set(a) | set(b)):
        if a.get(k) != b.get(k):
            out[k] = "\n".join(difflib.unified_diff((a.get(k) or "").split("\n"), (b.get(k) or "").split("\n"),
                                                    "base", "relayout", lineterm="", n=1))[:3000]
    return out


# --------------------------------------------------------------------------- model tie

def directed_cases(rng, tier):
    """Tokenizer.parse called directly on the comment-behind-every-token grammar of c15_tokcases -> (calls, histogram)"""
    jobs, meta = TC.gen(rng, 500 if tier == "quick" else 4000)
    res = []
    for i in range(0, len(jobs), 400):
        res += run_py(RUNNER, dict(op="parse", jobs=jobs[i:i + 400]), timeout=900)
    calls, hist = [], dict(glue={}, behind={}, content={}, continuation={}, nesting={}, glued_behind={})
    for j, r, m in zip(jobs, res, meta):
        c = dict(j, ok=bool(r["ok"]))
        if r["ok"]:
            c["programs"] = r["programs"]
        else:
            c["exc"] = r.get("exc")
        calls.append(c)
        for key, field in (("glue", "glue"), ("behind", "pre"), ("content", "content"), ("continuation", "next"), ("nesting", "wrap")):
            hist[key][m[field]] = hist[key].get(m[field], 0) + 1
        if m["glue"] == "glued":
            hist["glued_behind"][m["pre"]] = hist["glued_behind"].get(m["pre"], 0) + 1
    return calls, hist


def model_tie(ck, progs, rng, tier, check_end, case_fix):
    lay = L.layouts(rng)
    names = list(lay)
    jobs = []
    limit = 150 if tier == "quick" else 700
    sample = [p for p in progs if not p.get("header")]
    rng.shuffle(sample)
    sample = sample[:limit]
    for p in sample:
        jobs.append(job_of(p))
        for n in rng.sample(names, 2):
            jobs.append(job_of(p, lay[n](p["src"])))
    traces = []
    for i in range(0, len(jobs), 60):
        traces += run_py(RUNNER, dict(op="trace", jobs=jobs[i:i + 60]), timeout=900)
    cases, raw, conns, seen, cseen = [], [], [], set(), set()
    skipped_nonascii = 0
    dcalls, dhist = directed_cases(rng, tier)
    n_directed = 0
    for r in [dict(calls=dcalls, conns=[])] + traces:       # the directed cases first: never cut by the cap
        for c in r["calls"]:
            key = json.dumps(c, sort_keys=True)
            if key in seen:
                continue
            seen.add(key)
            if not M.is_ascii(c["string"]) or (c["ok"] and not M.tokens_ascii(c["programs"])):
                skipped_nonascii += 1
                continue
            cases.append(M.case_term(c, check_end, case_fix=case_fix))
            raw.append(c)
            n_directed += r["calls"] is dcalls
        for cur, prev, b in r["conns"]:
            key = json.dumps([cur, prev, b])
            if key in cseen:
                continue
            cseen.add(key)
            if M.is_ascii(cur[3]) and M.is_ascii(prev[3]) and cur[0] in M.TYPES and prev[0] in M.TYPES:
                conns.append((cur, prev, b))
    cap = 6000 if tier == "quick" else 40000
    cases, raw, conns = cases[:cap], raw[:cap], conns[:cap]
    bad, errs = eval_cases(PROP, M.HEADER, cases, per_file=400)
    uns, errs2 = eval_cases(PROP, M.HEADER, cases, per_file=400, checker="unsupported", prefix="uns")
    evs, errs3 = eval_cases(PROP, M.HEADER, cases, per_file=400, checker="ev_cases", prefix="ev")
    cbad, errs4 = eval_cases(PROP, M.HEADER, [M.conn_term(*c) for c in conns], per_file=500,
                             checker="conn_mismatches", prefix="conn")
    info = dict(parse_calls=len(cases), parse_error_cases=sum(1 for c in raw if not c["ok"]),
                parse_mismatches=len(bad), model_declined=len(uns), out_of_scope_event_cases=len(evs),
                skipped_non_ascii=skipped_nonascii, is_connected_decisions=len(conns), is_connected_mismatches=len(cbad),
                programs_traced=len(jobs), directed_comment_cases=n_directed, directed_histogram=dhist)
    problems = []
    for e in errs + errs2 + errs3 + errs4:
        problems.append(dict(kind="correspondence-file-failed", log=e))
    if bad:
        problems.append(dict(kind="tokenizer-correspondence-differs", n=len(bad),
                             cases=[dict(call={k: raw[i][k] for k in ("string", "line", "col", "expect_semicolon", "allow_last", "allow_semicolon")},
                                         real=raw[i].get("programs", raw[i].get("exc"))) for i in bad[:3]]))
    if cbad:
        problems.append(dict(kind="is_connected-correspondence-differs", n=len(cbad),
                             cases=[dict(current=conns[i][0], previous=conns[i][1], real=conns[i][2]) for i in cbad[:5]]))
    return info, problems, sample


def model_pairs(ck, sample, rng, tier, case_fix):
    """(c) the theorem's instance evaluated in the model on concrete (program, re-layout) pairs."""
    lay = L.layouts(rng)
    pairs = []
    for p in sample[: (60 if tier == "quick" else 300)]:
        if not M.is_ascii(p["src"]) or "`" in p["src"]:
            continue
        n = rng.choice(list(lay))
        b = lay[n](p["src"])
        if not M.is_ascii(b):
            continue
        pairs.append((p["src"], b))
    bad, errs = eval_cases(PROP, M.HEADER, [M.pair_term(a, b, 6, case_fix) for a, b in pairs], per_file=60,
                           checker="pair_mismatches", prefix="pairs", timeout=900)
    return len(pairs), [pairs[i] for i in bad], errs


# --------------------------------------------------------------------------- argument texts (round 4)

ARG_HEADER = ("From Coq Require Import ZArith String List Bool Ascii.\n"
              "From JMCV Require Import Model.Layout Model.LayoutArg Run.Common Run.C15 Run.C15Arg.\n"
              "Import ListNotations.\nOpen Scope string_scope.\n")


def call_contents(src: str, stmt_src: str):
    """texts between the parentheses of the calls `name( ... )` that a statement makes at its top level"""
    out = []
    for m in re.finditer(r"[A-Za-z_][A-Za-z0-9_.]*\(", stmt_src):
        depth, i, q, esc = 0, m.end() - 1, None, False
        while i < len(stmt_src):
            c = stmt_src[i]
            if q:
                if esc:
                    esc = False
                elif c == "\\":
                    esc = True
                elif c == q:
                    q = None
            elif c in "'\"`":
                q = c
            elif stmt_src.startswith("//", i):
                j = stmt_src.find("\n", i)
                i = len(stmt_src) if j < 0 else j
                continue
            elif c == "(":
                depth += 1
            elif c == ")":
                depth -= 1
                if depth == 0:
                    out.append(stmt_src[m.end():i])
                    break
            i += 1
    return out


def argument_tie(ck, progs, rng, tier, case_fix, fixes):
    """(d) clean_up_paren_token and (e) the texts a @lazy call substitutes for its parameters, observed while compiling
    corpus programs and re-layouts of them, against Model.LayoutArg; (f) the theorem's instance on (call, re-layout) pairs."""
    lay = L.layouts(rng)
    names = [n for n in lay if n not in ("nasty_comments",)]
    arg_progs = [p for p in progs if p.get("origin") == "argument-text" and not p.get("header")]
    others = [p for p in progs if p.get("origin") in ("inside-brackets", "statement") and not p.get("header")]
    rng.shuffle(others)
    others = others[: (60 if tier == "quick" else 400)]
    jobs = []
    for p in arg_progs + others:
        jobs.append(job_of(p))
        for n in rng.sample(names, 2 if tier == "quick" else 4):
            try:
                jobs.append(job_of(p, lay[n](p["src"])))
            except AssertionError:
                pass
    res = []
    for i in range(0, len(jobs), 60):
        res += run_py(RUNNER, dict(op="args", jobs=jobs[i:i + 60]), timeout=900)
    cleans, cseen, args, aseen, arrows, wseen = [], set(), [], set(), [], set()
    skipped = dict(non_ascii=0, backtick=0)
    forms = {}
    lazy_calls = sum(r.get("lazy_calls", 0) for r in res)
    lazy_observed = sum(r.get("lazy_observed", 0) for r in res)
    for r in res:
        for c in r.get("cleans", []):
            key = json.dumps(c, sort_keys=True)
            if key in cseen:
                continue
            cseen.add(key)
            if not M.is_ascii(c["tok"][3]) or c["tok"][0] not in M.TYPES or (c["ok"] and not M.is_ascii(c["text"])):
                skipped["non_ascii"] += 1
                continue
            cleans.append(c)
        for b in r.get("bound", []):
            key = json.dumps(b, sort_keys=True)
            if key in aseen:
                continue
            aseen.add(key)
            toks = b["tokens"]
            if not toks:
                continue
            if not all(M.is_ascii(t[3]) and t[0] in M.TYPES for t in toks) or not M.is_ascii(b["text"]):
                skipped["non_ascii"] += 1
                continue
            if any(t[6] == "`" for t in toks):
                skipped["backtick"] += 1
                continue
            forms[b["form"]] = forms.get(b["form"], 0) + 1
            if toks[0][0] == "FUNC":
                if not fixes.get("arrow-argument-in-string") and len(toks) == 1 and (toks[0][7] is None or M.is_ascii(toks[0][7])):
                    arrows.append(b)
            else:
                args.append(b)
    cap = 3000 if tier == "quick" else 20000
    cleans, args = cleans[:cap], args[:cap]
    cterms = [f"(mkClean {coq_bool(case_fix)} {coq_bool(c['nbt'])} {M.rtok_term(c['tok'])} "
              f"{'(Some ' + M.coq_string(c['text']) + ')' if c['ok'] else 'None'})" for c in cleans]
    aterms = [f"(mkArg {coq_bool(case_fix)} {coq_list(M.rtok_term(t[:6]) for t in b['tokens'])} {M.coq_string(b['text'])})" for b in args]
    wterms = [f"(mkArrow {'None' if b['tokens'][0][7] is None else '(Some ' + M.coq_string(b['tokens'][0][7]) + ')'} "
              f"{M.coq_string(b['tokens'][0][3])} {M.coq_string(b['text'])})" for b in arrows]
    cbad, e1 = eval_cases(PROP, ARG_HEADER, cterms, per_file=400, checker="clean_mismatches", prefix="clean")
    cdec, e2 = eval_cases(PROP, ARG_HEADER, cterms, per_file=400, checker="clean_declined", prefix="cleand")
    abad, e3 = eval_cases(PROP, ARG_HEADER, aterms, per_file=400, checker="arg_mismatches", prefix="arg")
    adec, e4 = eval_cases(PROP, ARG_HEADER, aterms, per_file=400, checker="arg_declined", prefix="argd")
    wbad, e5 = eval_cases(PROP, ARG_HEADER, wterms, per_file=400, checker="arrow_mismatches", prefix="arrow") if wterms else ([], [])
    # (f) model-level pairs: the contents of the calls of the argument-text entries, base and re-laid-out
    pairs = []
    for p in arg_progs:
        stmt = p.get("call", "").replace(AR.MARK, " ")
        for content in call_contents(p["src"], stmt):
            if not M.is_ascii(content) or "`" in content:
                continue
            for n in rng.sample(names, 2):
                try:
                    new = lay[n]("(" + content + ")")
                except AssertionError:
                    continue
                if M.is_ascii(new) and new.startswith("(") and new.endswith(")"):
                    pairs.append((content, new[1:-1]))
    pairs = pairs[: (150 if tier == "quick" else 600)]
    pterms = [f"(mkArgPair {coq_bool(case_fix)} {M.coq_string(a)} {M.coq_string(b)})" for a, b in pairs]
    pbad, e6 = eval_cases(PROP, ARG_HEADER, pterms, per_file=50, checker="argpair_mismatches", prefix="argpair", timeout=900)
    ptriv, e7 = eval_cases(PROP, ARG_HEADER, pterms, per_file=50, checker="argpair_trivial", prefix="argpairt", timeout=900)
    info = dict(programs_traced=len(jobs), clean_up_calls=len(cleans), clean_up_error_cases=sum(1 for c in cleans if not c["ok"]),
                clean_up_mismatches=len(cbad), clean_up_declined=len(cdec), clean_up_nbt_mode=sum(1 for c in cleans if c["nbt"]),
                clean_up_by_bracket={k: sum(1 for c in cleans if c["tok"][0] == k) for k in ("PAREN_CURLY", "PAREN_SQUARE", "PAREN_ROUND")},
                lazy_calls=lazy_calls, lazy_calls_observed=lazy_observed, lazy_arguments=len(args), lazy_argument_mismatches=len(abad),
                lazy_arguments_declined=len(adec), lazy_arguments_with_bracket=sum(1 for b in args if any(t[0].startswith("PAREN") for t in b["tokens"])),
                lazy_arguments_multi_token=sum(1 for b in args if len(b["tokens"]) > 1), lazy_argument_forms=forms,
                arrow_arguments=len(arrows), arrow_mismatches=len(wbad), skipped=skipped,
                model_pairs=len(pairs), model_pairs_nontrivial=len(pairs) - len(ptriv), model_pair_mismatches=len(pbad))
    problems = []
    for e in e1 + e2 + e3 + e4 + e5 + e6 + e7:
        problems.append(dict(kind="correspondence-file-failed", log=e))
    if cbad:
        problems.append(dict(kind="clean_up_paren_token-correspondence-differs", n=len(cbad),
                             cases=[dict(token=cleans[i]["tok"], is_nbt=cleans[i]["nbt"], real=cleans[i].get("text", cleans[i].get("exc"))) for i in cbad[:3]]))
    if abad:
        problems.append(dict(kind="lazy-argument-text-correspondence-differs", n=len(abad),
                             cases=[dict(tokens=args[i]["tokens"], real=args[i]["text"]) for i in abad[:3]]))
    if wbad:
        problems.append(dict(kind="lazy-arrow-argument-text-correspondence-differs", n=len(wbad),
                             cases=[dict(tokens=arrows[i]["tokens"], real=arrows[i]["text"]) for i in wbad[:3]]))
    if pbad:
        problems.append(dict(kind="model-argument-pair-differs", note="Model.LayoutArg.argument_text differs on a (call arguments, re-layout) pair",
                             pairs=[dict(a=pairs[i][0], b=pairs[i][1]) for i in pbad[:3]]))
    if lazy_calls and (lazy_observed == 0 or not args):
        problems.append(dict(kind="lazy-argument-text-not-observable",
                             note="@lazy calls were compiled but no substitution table was seen at substitute_params: the tie of "
                                  "Model.LayoutArg.argument_text to handle_lazy cannot be checked on this tree"))
    return info, problems


# --------------------------------------------------------------------------- main

# --------------------------------------------------------------------------- gap families (round 5)

GAP_HEADER = ("From Coq Require Import ZArith String List Bool Ascii.\n"
              "From JMCV Require Import Model.Layout Run.Common Run.C15 Run.C15Gap.\n"
              "Import ListNotations.\nOpen Scope string_scope.\n")


def _ascii_text(s: str) -> str:
    return "".join(c if M.is_ascii(c) else "?" for c in s)


def gap_families(ck, tier):
    """String literals whose repr() is longer than their source text (raw TAB / NBSP / soft hyphen / control, zero-width,
    private-use characters) followed on the same line by a bracket / keyword / number / string k = 0..8 columns (and
    more) behind the closing quote: (g) all layouts with a non-empty gap must give the output of the layout with a line
    break there; (h) per layout the literal's recorded end, the position of the next token and the is_connected decision
    (model and real) are tied in Coq (Run/C15Gap.v: glued iff k = 0).  -> (info, violations as replay dicts, tie problems)"""
    fams = GP.families()
    jobs, meta = [], []
    for fi, f in enumerate(fams):
        for g, v in f["variants"].items():
            jobs.append(dict(src=v["src"], cert=C.FULL_CERT))
            meta.append((fi, g))
    res = []
    for i in range(0, len(jobs), 120):
        res += run_py(RUNNER, dict(op="trace", jobs=jobs[i:i + 120]), timeout=900)
    by = {}
    for (fi, g), r in zip(meta, res):
        by[(fi, g)] = r
    viols, cases, cmeta, accepted, no_tokens, real_decisions = [], [], [], 0, 0, 0
    sigs = set()
    for fi, f in enumerate(fams):
        ref = by[(fi, GP.REFERENCE)]
        accepted += bool(ref["ok"])
        for g, v in f["variants"].items():
            r = by[(fi, g)]
            if g != "k0" and g != GP.REFERENCE and not same_result(ref, r) and not (not ref["ok"] and not r["ok"]):
                sig = (f["follower"], f["excess"], r["ok"])
                if sig not in sigs:
                    sigs.add(sig)
                    a, b = (f["variants"][GP.REFERENCE]["src"], v["src"]) if ref["ok"] else (v["src"], f["variants"][GP.REFERENCE]["src"])
                    ra, rb = (ref, r) if ref["ok"] else (r, ref)
                    viols.append(dict(
                        kind="layout-changes-output", origin="string-gap-family", family=f["name"], layout=g,
                        base=dict(src=a, cert=C.FULL_CERT), relayout=dict(src=b, cert=C.FULL_CERT),
                        changed_runs={"gap behind the literal": repr(v["src"][v["end_col"] - 1:][:v["k"] or 1])},
                        repr_excess_columns=f["excess"], expected="identical virtual file map",
                        actual=(dict(error=rb["exc"], msg=rb.get("msg", "")[:600]) if not rb["ok"]
                                else dict(differing_files=file_diff(ra["files"], rb["files"])))))
            if v["k"] is None:
                continue
            # the two tokens as the top-level Tokenizer.parse call handed them over
            top = next((c for c in r["calls"] if c["ok"] and c["string"] == v["src"]), None)
            pair = None
            if top:
                for st in top["programs"]:
                    for n, t in enumerate(st[:-1]):
                        if t[0] == "STRING" and t[1] == v["line"] and t[2] == v["col"]:
                            pair = (st[n + 1], t)
            if pair is None:
                no_tokens += 1
                continue
            cur, prev = pair
            real = next((b for c, p_, b in r["conns"] if c[:3] == cur[:3] and p_[:3] == prev[:3]), None)
            real_decisions += real is not None
            cur = cur[:3] + [_ascii_text(cur[3])] + cur[4:]
            prev = prev[:3] + [_ascii_text(prev[3])] + prev[4:]
            if cur[0] not in M.TYPES:
                no_tokens += 1
                continue
            rb = "None" if real is None else f"(Some {coq_bool(real)})"
            cases.append(f"(mkGap {M.rtok_term(cur)} {M.rtok_term(prev)} {rb} ({v['line']}, {v['end_col']}) {v['k']})")
            cmeta.append((fi, g))
    bad, errs = eval_cases(PROP, GAP_HEADER, cases, per_file=500, checker="gap_mismatches", prefix="gap")
    problems = [dict(kind="correspondence-file-failed", log=e) for e in errs]
    if bad:
        ex = []
        for i in bad[:4]:
            fi, g = cmeta[i]
            ex.append(dict(family=fams[fi]["name"], gap=g, src=fams[fi]["variants"][g]["src"], case=cases[i][:400]))
        problems.append(dict(kind="string-literal-end-correspondence-differs", n=len(bad), cases=ex,
                             expected="_macro_end of the literal = position right after its closing quote; is_connected = (gap is empty)"))
    if accepted < len(fams) // 2 or len(cases) < len(fams):
        problems.append(dict(kind="gap-families-not-exercised", accepted=accepted, families=len(fams), tie_cases=len(cases)))
    info = dict(families=len(fams), accepted_families=accepted, layouts_per_family=len(GP.GAPS), compiles=len(jobs),
                differing=len(sigs), tie_cases=len(cases), tie_mismatches=len(bad), real_is_connected_decisions=real_decisions,
                no_token_pair=no_tokens, literals=len(GP.literals()), followers=[n for n, _ in GP.FOLLOWERS],
                excess_columns=sorted({f["excess"] for f in fams}))
    return info, viols, problems


SYMMETRIC_LAYOUTS = ("single_line", "token_per_line", "wide")


def metamorphic(ck, progs, rng, tier, stats):
    lay = L.layouts(rng, stats)
    base = compile_batch([job_of(p) for p in progs], chunk=40)
    accepted = [i for i, r in enumerate(base) if r["ok"]]
    jobs, meta = [], []
    for i in accepted:
        for name, f in lay.items():
            if progs[i].get("no_comments") and name in IN.COMMENT_LAYOUTS:
                continue          # a recorded defect about comments at this place; the fix is not in this tree
            try:
                src = f(progs[i]["src"])
            except AssertionError:
                continue
            jobs.append(job_of(progs[i], src))
            meta.append((i, name, src))
    # relayout is symmetric: a program that is REJECTED as written must stay rejected in its canonical layouts
    # (otherwise the accepted layout is a base whose re-layout - the text as written - is rejected)
    rejected = [i for i, r in enumerate(base) if not r["ok"] and r.get("exc") != "Timeout"]
    rjobs, rmeta = [], []
    for i in rejected:
        for name in SYMMETRIC_LAYOUTS:
            try:
                src = lay[name](progs[i]["src"])
            except AssertionError:
                continue
            if L.aligned_segments(src, progs[i]["src"]) is None:
                continue
            rjobs.append(job_of(progs[i], src))
            rmeta.append((i, name, src))
    res = compile_batch(jobs + rjobs, chunk=60)
    rres = res[len(jobs):]
    res = res[:len(jobs)]
    failing = [(i, name, src, r) for (i, name, src), r in zip(meta, res) if not same_result(base[i], r)]
    done = set()
    for (i, name, src), r in zip(rmeta, rres):
        if r["ok"] and i not in done:
            done.add(i)
            progs.append(dict(progs[i], src=src, origin=str(progs[i].get("origin")) + "/accepted-only-as-" + name))
            base.append(r)
            failing.append((len(progs) - 1, "as_written", progs[i]["src"], base[i]))
    return base, accepted, len(jobs), failing, list(lay), dict(rejected_bases=len(rejected), rejected_relayouts=len(rjobs),
                                                               accepted_after_relayout=len(done))


def inside_cov(progs, accepted):
    """per bracket kind: statements in the corpus, accepted, and layout-run places inside brackets (x layouts each)"""
    acc = set(accepted)
    out = {}
    for i, p in enumerate(progs):
        if p.get("origin") == "inside-brackets":
            d = out.setdefault(p["kind"], dict(statements=0, accepted=0, places_inside_brackets=0))
            d["statements"] += 1
            if i in acc:
                d["accepted"] += 1
                d["places_inside_brackets"] += p.get("marks", 0)
    return out


def args_cov(progs, accepted):
    """per (call family, usage of the parameter): entries in the corpus, accepted, marked places inside the arguments"""
    acc = set(accepted)
    out = {}
    for i, p in enumerate(progs):
        if p.get("origin") == "argument-text":
            d = out.setdefault(p["kind"].split("/")[0] + ":" + p["usage"], dict(entries=0, accepted=0, places=0))
            d["entries"] += 1
            if i in acc:
                d["accepted"] += 1
                d["places"] += p.get("marks", 0)
    return out


def main(tier: str) -> int:
    ck = Check(PROP, tier)
    ck.cov["trusted_base"] = COMMON_TRUSTED + [
        "Model/Layout.v: hand-written port of Tokenizer.parse (character state machine, object-like macro application), "
        "Token.end / is_connected and CustomOrder.__lt__; tied to /repo on every run by exact equality of token streams "
        "(type, line, col, text, _macro_length, _macro_end) for every Tokenizer.parse call, and of every is_connected decision, "
        "made while compiling the corpus and its re-layouts",
        "the definition of `relayout` (Model/Layout.v) and the Python re-layouter harness/c15_layout.py that generates instances of it; "
        "re-layouts with a comment GLUED to the preceding token are instances of relayout composed with C15_glued_comment (glued = "
        "after one blank, for every tokenizer run); a leading comment line and a comment ended by the end of the file are covered by "
        "the metamorphic runs and the tokenizer correspondence only",
        "harness/c15_inside.py: the inventory of statement kinds x bracket kinds (hand-written from lexer_func_content.py, "
        "command/nbt_operation.py, command/condition.py, command/_flow_control.py, command/utils.py) that puts a layout run inside every bracket",
        "Model/LayoutArg.v: hand-written port of utils.clean_up_paren_token (default keyword callback; repr()/json.dumps on ASCII text), "
        "Tokenizer.merge_tokens([t], use_full_string=True) and PreFunction.__argument_text (plain argument; arrow-function argument = raw "
        "texts); tied on every run by exact equality with every clean_up_paren_token call and with the text every @lazy call hands to "
        "substitute_params for each parameter (observed at handle_lazy / substitute_params), made while compiling corpus programs and "
        "re-layouts; `key=+value` / backtick-string arguments and programs with #define macros are outside this tie",
        "harness/c15_args.py: the inventory of calls whose argument text is substituted into a body (@lazy, Hardcode.*, built-ins, #define) "
        "x bracket kinds x use of the parameter (code, '..', \"..\", `..`, Hardcode.calc)",
        "harness/c15_gaps.py: the inventory of string literals whose repr() is longer than their source text (raw TAB, NBSP, soft hyphen, "
        "DEL, control / zero-width / private-use characters, at start / middle / end, combinations) x following token kind x gap width "
        "k = 0..8, 12, tab, line break; the generator states where the literal ends (it wrote the source) - Run/C15Gap.v compares",
        "outside the model: what the lexer and the commands do with tokens (they may read positions only through is_connected "
        "and CustomOrder, and bracket text only by re-tokenising it - checked by the metamorphic runs, not proved)",
    ]
    import time
    t0 = time.time()
    phases = {}

    def lap(name):
        nonlocal t0
        phases[name] = round(time.time() - t0, 1)
        t0 = time.time()

    pr = ck.proof(extra_targets=["Run/C15.vo", "Run/C15Arg.vo", "Run/C15Gap.vo"])
    lap("proof")

    probed_fixes = fix_probes()
    # repairs that are part of /repo (fix: commits): their inventory entries are ALWAYS in the corpus and never explained
    # by a finding, so that a tree that loses a repair is reported again; the probes are kept in the evidence only
    fixes = dict(probed_fixes, **{n: True for n in PINNED_FIXES})
    known_ids = {f.get("id") for f in known_entries()}
    demand = os.environ.get("VERIF_C15_DEMAND") == "1"
    enabled = {n for n in fixes if fixes[n] or demand or FINDING_OF[n] in known_ids}
    progs, note = build_corpus(ck.rng, tier, enabled)
    lstats = {}
    if "C15-hardcode-calc-mention-in-comment" in known_ids or demand:
        # a comment that MENTIONS `Hardcode.calc(` with other text, inside a Hardcode.* / @lazy body (recorded defect)
        L.NASTY_COMMENTS["code_like"] = L.NASTY_COMMENTS["code_like"] + ["see Hardcode.calc(x)"]
    lap("corpus")
    base, accepted, npairs, failing, layout_names, sym = metamorphic(ck, progs, ck.rng, tier, lstats)
    lap("metamorphic")

    # ---- classify differing pairs
    reported, known_n, viol_n = set(), 0, 0
    per_layout = {}
    for i, name, src, r in failing:
        per_layout[name] = per_layout.get(name, 0) + 1
    prio = {n: k for k, n in enumerate(["as_written", "token_per_line", "newline_in_brackets", "single_line", "tabs", "wide",
                                        "random_runs", "glued_some", "glued_comments", "trailing_comments",
                                        "mixed_comments", "nasty_comments"])}
    failing.sort(key=lambda f: (prio.get(f[1], 99), len(progs[f[0]]["src"])))
    # every differing pair is minimised and classified (known finding / violation); at most MAX_CLASSIFY pairs, most
    # diverse first; violation *lines* are capped, nothing is silently dropped: unclassified pairs make a violation too.
    MAX_CLASSIFY = 40 if tier == "quick" else 200
    seen_sig, order = {}, []
    for f in failing:
        sig0 = (f[3]["exc"] if not f[3]["ok"] else "diff", f[1])
        seen_sig[sig0] = seen_sig.get(sig0, 0) + 1
        order.append((seen_sig[sig0], f))
    order.sort(key=lambda x: x[0])
    unclassified = 0
    # Phase A (two batches for ALL differing pairs): the known findings are about ONE comment inside a JSON body /
    # inside Hardcode.calc( ): try exactly those single runs first; a pair explained by one of them (that run alone
    # changes the result, the same run without its comment does not, diagnostic and place match a known entry) is done.
    cand = []          # (index in order, k, run, msrc)
    for oi, (rank, (i, name, src, r)) in enumerate(order):
        al = L.aligned_segments(progs[i]["src"], src)
        if al is None or r["ok"]:
            continue
        segs, new_segs = al
        old = [t for k, t in segs if k == "lay"]
        new = [t for k, t in new_segs if k == "lay"]
        n_c = 0
        for k in range(len(old)):
            if old[k] != new[k] and "//" in new[k] and n_c < 8:
                msrc = apply_runs(segs, {k: new[k]})
                if in_known_region(msrc, run_offset(segs, k) + new[k].find("//")):
                    cand.append((oi, k, new[k], msrc, apply_runs(segs, {k: strip_comments_run(new[k])})))
                    n_c += 1
    cres = compile_batch([job_of(progs[order[c[0]][1][0]], c[3]) for c in cand] +
                         [job_of(progs[order[c[0]][1][0]], c[4]) for c in cand], chunk=40)
    pre_known = {}
    for n, (oi, k, run, msrc, _) in enumerate(cand):
        if oi in pre_known:
            continue
        i = order[oi][1][0]
        single, plain = cres[n], cres[len(cand) + n]
        if not same_result(base[i], single):
            kf = known_class(progs[i], base[i], {k: run}, msrc, single, plain=plain)
            if kf:
                pre_known[oi] = kf
    # inventory statements that are in the corpus only because their recorded defect is LISTED (fix missing): a pair is
    # explained by the finding if the defect is about everything in that bracket, or (comments only) if the same
    # re-layout with all its comments removed gives the base output.  One batch.
    gated = []
    for oi, (rank, (i, name, src, r)) in enumerate(order):
        p = progs[i]
        if oi in pre_known or not p.get("needs") or fixes.get(p["needs"]) or FINDING_OF[p["needs"]] not in known_ids:
            continue
        al = L.aligned_segments(p["src"], src)
        if al is None:
            continue
        new = [t for k, t in al[1] if k == "lay"]
        scope = SCOPE[p["needs"]]
        if isinstance(scope, tuple):
            # ("call", name): the defect is about the layout INSIDE the parentheses of the calls of `name`: the same
            # re-layout with those runs as in the base must give the base output
            gated.append((oi, apply_runs(al[0], {k: t for k, t in enumerate(new)
                                                 if not inside_call(p["src"], run_offset(al[0], k), scope[1])})))
        else:
            gated.append((oi, apply_runs(al[0], {k: strip_comments_run(t) for k, t in enumerate(new)})))
    gres = compile_batch([job_of(progs[order[oi][1][0]], text) for oi, text in gated], chunk=40)
    for (oi, _), g in zip(gated, gres):
        p = progs[order[oi][1][0]]
        if SCOPE[p["needs"]] == "all" or same_result(base[order[oi][1][0]], g):
            pre_known[oi] = next(f for f in known_entries() if f.get("id") == FINDING_OF[p["needs"]])
    for oi, (rank, (i, name, src, r)) in enumerate(order):
        p = progs[i]
        if oi in pre_known:
            ck.known(pre_known[oi]["id"], pre_known[oi]["what"])
            known_n += 1
            continue
        if known_n - len(pre_known) + viol_n >= MAX_CLASSIFY:
            unclassified += 1
            continue
        changed, msrc, mres = minimise(p, base[i], src)
        if mres is None:
            changed, msrc, mres = None, src, r
        kf = known_class(p, base[i], changed, msrc, mres)
        if kf is None and p.get("needs") and not fixes.get(p["needs"]):
            # an inventory statement that is in the corpus only because its recorded defect is LISTED
            want = FINDING_OF[p["needs"]]
            scope = SCOPE[p["needs"]]
            al0 = L.aligned_segments(p["src"], msrc)
            if (scope == "all" or (scope == "comments" and any("//" in v for v in (changed or {}).values())) or
                    (isinstance(scope, tuple) and changed and al0 is not None and
                     all(inside_call(p["src"], run_offset(al0[0], k), scope[1]) for k in changed))):
                kf = next((f for f in known_entries() if f.get("id") == want), None)
        if kf:
            ck.known(kf["id"], kf["what"])
            known_n += 1
            continue
        viol_n += 1
        sig = (mres["exc"] if not mres["ok"] else "diff", json.dumps(sorted((changed or {}).values()))[:40])
        if sig in reported or len(reported) >= 8:
            continue
        reported.add(sig)
        ck.violation(dict(
            kind="layout-changes-output", origin=p.get("origin"), layout=name,
            base=job_of(p), relayout=job_of(p, msrc),
            changed_runs={str(k): v for k, v in (changed or {}).items()},
            expected="identical virtual file map",
            actual=(dict(error=mres["exc"], msg=mres["msg"][:600]) if not mres["ok"]
                    else dict(differing_files=file_diff(base[i]["files"], mres["files"]))),
        ))
    if unclassified and not viol_n:
        i, name, src, r = order[-1][1]
        ck.violation(dict(kind="layout-changes-output", note=f"{unclassified} differing pairs beyond the classification budget",
                          layout=name, base=job_of(progs[i]), relayout=job_of(progs[i], src), expected="identical virtual file map"))

    # ---- gap families behind string literals with a long repr() (round 5): before the ties, so that their notes can
    # point to a concrete failing input
    lap("classification")
    ginfo, gviols, gproblems = gap_families(ck, tier)
    gseen, gfirst, grest = set(), [], []
    for v in gviols:            # one of every (diagnostic / differing output, following token kind) first
        gk = ("error" in v["actual"], v["family"].split("/")[1])
        (grest if gk in gseen else gfirst).append(v)
        gseen.add(gk)
    gviols = gfirst + grest
    for v in gviols[:6]:
        viol_n += 1
        ck.violation(v)
    lap("gap_families")
    # ---- model tie
    probe = run_py(RUNNER, dict(op="probe"), timeout=60)
    info_probe = dict(probe)
    # Token._macro_end / Token.end (fix: adjacency), the end of string literals (fix 81307c5) and the switch-label fix of
    # statement termination are part of /repo: the model is always the REPAIRED one - the variants are no longer selected
    # by probing the tree (a tree that loses a repair is reported by the tie); the probe is kept in the evidence only
    probe["has_end"] = True
    probe["case_fix"] = True
    info, problems, sample = model_tie(ck, progs, ck.rng, tier, bool(probe["has_end"]), bool(probe["case_fix"]))
    info["tree_variants"] = info_probe
    for pb in problems:
        pb["note"] = ("the Coq model (of the repaired tokenizer / is_connected) no longer describes the code; "
                      "see the layout-changes-output replays of this run for failing inputs" if viol_n else
                      "the Coq model no longer describes the code and the metamorphic search found no failing input")
        ck.violation(pb, no_input=True)
    for pb in gproblems:
        pb["note"] = ("the recorded end of a string literal / the adjacency of the token behind it is not what Model.Layout + "
                      "Proofs.LayoutGap say; " + ("see the layout-changes-output replays of this run for failing inputs" if viol_n
                                                  else "the gap families found no failing input"))
        ck.violation(pb, no_input=True)
    lap("tokenizer_tie")
    ainfo, aproblems = argument_tie(ck, progs, ck.rng, tier, bool(probe["case_fix"]), fixes)
    lap("argument_text_tie")
    for pb in aproblems:
        pb["note"] = pb.get("note") or ("Model.LayoutArg (clean_up_paren_token / the text a @lazy call substitutes for a parameter) no longer "
                                        "describes the code; " + ("see the layout-changes-output replays of this run for failing inputs" if viol_n
                                                                  else "the metamorphic search found no failing input"))
        ck.violation(pb, no_input=True)
    n_pairs_model, bad_pairs, perr = model_pairs(ck, sample, ck.rng, tier, bool(probe["case_fix"]))
    if bad_pairs or perr:
        ck.violation(dict(kind="model-pair-differs", note="Model.Layout.shape_parse differs on a (program, re-layout) pair",
                          pairs=[dict(a=a, b=b) for a, b in bad_pairs[:3]], log=perr[:1]), no_input=True)

    lap("model_pairs")
    origins = {}
    for i in accepted:
        o = progs[i].get("origin")
        origins[o] = origins.get(o, 0) + 1
    ck.cov.update(dict(
        evaluations=npairs + info["parse_calls"] + info["is_connected_decisions"],
        distinct_nontrivial=len({progs[i]["src"] for i in accepted}) * len(layout_names),
        rule="metamorphic: every accepted corpus program (test-suite inputs, README example, one program per statement kind, "
             "adversarial shapes, random nested programs) x 11 re-layouts (single line, one token per line, random runs, tabs, "
             "trailing // comments, newline inside brackets, wide, mixed comments; round 1: a comment GLUED to every token, "
             "glued comments on a quarter of the runs, nasty comment content glued or spaced + leading comment line + "
             "comment ended by end of file; round 4: calls whose bracket arguments are substituted as TEXT into a body, the parameter used "
             "as code / inside '..', \"..\", `..` strings / inside Hardcode.calc) -> byte-identical file maps; rejected programs must stay rejected in the "
             "canonical layouts (relayout is symmetric); distinct = accepted programs x layouts; tie: each distinct "
             "Tokenizer.parse call / is_connected decision is one case (compiles of the corpus + the directed "
             "comment-behind-every-token grammar)",
        programs=len(progs), accepted_programs=len(accepted), accepted_by_origin=origins, relayout_pairs=npairs,
        layouts=layout_names, comments_glued_behind=lstats.get("glued_after"), comment_content_classes=lstats.get("content"),
        file_frames=lstats.get("frames"), symmetric_check=sym, differing_pairs=len(failing),
        inside_brackets=inside_cov(progs, accepted), fixes_present=probed_fixes, fixes_pinned=list(PINNED_FIXES), gated_entries_enabled=sorted(enabled), differing_by_layout=per_layout, known_pairs=known_n,
        disagreements_checked=len(failing), corpus_note=note, phase_seconds=phases, model_tie=info, argument_text_tie=ainfo, string_gap_families=ginfo,
        argument_text_entries=args_cov(progs, accepted), model_pairs_evaluated=n_pairs_model,
        samples=[dict(base=progs[i]["src"][:200]) for i in accepted[:2]],
    ))
    return ck.finish()


def replay(path: str) -> int:
    rp = json.loads(open(path).read())
    if "base" not in rp:
        print("replay file has no input (correspondence/proof breakage): ", rp.get("kind"))
        print(json.dumps(rp, indent=1)[:3000])
        return 1
    a, b = compile_batch([rp["base"], rp["relayout"]], chunk=1)
    print("expected: identical outputs for\n--- base\n%s\n--- relayout\n%s" % (rp["base"]["src"], rp["relayout"]["src"]))
    if same_result(a, b):
        print("actual: identical (property holds on this input)")
        return 0
    if not b["ok"]:
        print("actual: relayout fails with", b["exc"], b["msg"][:500])
    else:
        for k, d in file_diff(a["files"], b["files"]).items():
            print("actual: differs in", k, "\n", d)
    return 1
