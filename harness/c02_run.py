"""C02 runner: jmc_run.py under an address-space limit, so that a constant power the compiler folds
(`7 ** 7 ** 7 ** 7`) ends in MemoryError inside the job instead of the kernel killing the batch."""
import os
import resource
import sys

sys.path.insert(0, os.path.dirname(os.path.abspath(__file__)))
import jmc_run  # noqa: E402

if __name__ == "__main__":
    lim = 3 * 1024 ** 3
    resource.setrlimit(resource.RLIMIT_AS, (lim, lim))
    jmc_run.main()
