"""C18 translator: regenerates the folder-name tables of JMC from the source (Python `ast`, fail-closed).

Reads (under lib.REPO/src/jmc):
  compile/pack_version.py        PackVersionFeature thresholds
  terminal/configuration.py      PACK_VERSION (Minecraft version -> pack format) table
  compile/datapack.py            add_private_json (strip rule), add_json, is_function_in_copy (lookup path)
  compile/compiling.py           build: function_folder and the paths built from it
  every *.py                     call sites of add_private_json( / add_json(  -> first-argument expression
  command/builtin_function/jmc_command.py   the `ADVANCEMENT = … if … else …` lookup keys
  every *.py                     `….require(PackVersionFeature.X, …)` gates

`translate()` returns a dict (used by c18.py) and `coq_text(t)` the text of coq/Gen/C18/JsonSites.v.
An expression or statement shape that is not recognised raises Untranslatable (never skipped).
"""
from __future__ import annotations

import ast
import re
from pathlib import Path


class Untranslatable(Exception):
    pass


# ----------------------------------------------------------------------------- small helpers

def scaled(num_text: str) -> int:
    """'48' -> 480, '107.1' -> 1071, '-1' -> -10; more than one decimal is an error."""
    m = re.fullmatch(r"(-?)(\d+)(?:\.(\d))?", num_text.strip())
    if not m:
        raise Untranslatable(f"pack format {num_text!r} is not a number with at most one decimal")
    v = int(m.group(2)) * 10 + int(m.group(3) or 0)
    return -v if m.group(1) else v


def const_num_text(node: ast.AST) -> str:
    if isinstance(node, ast.Constant) and isinstance(node.value, (int, float)) and not isinstance(node.value, bool):
        return repr(node.value)
    if isinstance(node, ast.UnaryOp) and isinstance(node.op, ast.USub):
        return "-" + const_num_text(node.operand)
    raise Untranslatable(f"not a numeric literal: {ast.dump(node)}")


def is_version_expr(node: ast.AST) -> bool:
    """self.version / self.datapack.version / datapack.version / self.lexer.datapack.version"""
    return isinstance(node, ast.Attribute) and node.attr == "version"


def feature_name(node: ast.AST) -> str | None:
    if isinstance(node, ast.Attribute) and isinstance(node.value, ast.Name) and node.value.id == "PackVersionFeature":
        return node.attr
    return None


OPS = {ast.Lt: "OLt", ast.LtE: "OLe", ast.Gt: "OGt", ast.GtE: "OGe"}


class Ctx:
    def __init__(self, features: dict[str, int]):
        self.features = features

    def version_test(self, test: ast.AST) -> tuple[str, int, str]:
        """`<x>.version <op> PackVersionFeature.F` -> (op, threshold*10, F)"""
        if not (isinstance(test, ast.Compare) and len(test.ops) == 1 and len(test.comparators) == 1):
            raise Untranslatable(f"not a single comparison: {ast.dump(test)}")
        op = OPS.get(type(test.ops[0]))
        f = feature_name(test.comparators[0])
        if op is None or f is None or not is_version_expr(test.left):
            raise Untranslatable(f"not `version <op> PackVersionFeature.X`: {ast.unparse(test)}")
        if f not in self.features:
            raise Untranslatable(f"unknown PackVersionFeature.{f}")
        return op, self.features[f], f

    def sexpr(self, node: ast.AST, env: dict) -> tuple:
        """Python string expression -> ('lit', s) | ('cat', a, b) | ('if', op, thr, a, b)"""
        if isinstance(node, ast.Constant) and isinstance(node.value, str):
            return ("lit", node.value)
        if isinstance(node, ast.JoinedStr):
            parts = []
            for v in node.values:
                if isinstance(v, ast.Constant) and isinstance(v.value, str):
                    parts.append(("lit", v.value))
                elif isinstance(v, ast.FormattedValue) and v.conversion == -1 and v.format_spec is None:
                    parts.append(self.sexpr(v.value, env))
                else:
                    raise Untranslatable(f"f-string part: {ast.dump(v)}")
            return cat(parts)
        if isinstance(node, ast.BinOp) and isinstance(node.op, ast.Add):
            return ("cat", self.sexpr(node.left, env), self.sexpr(node.right, env))
        if isinstance(node, ast.IfExp):
            op, thr, _ = self.version_test(node.test)
            return ("if", op, thr, self.sexpr(node.body, env), self.sexpr(node.orelse, env))
        if isinstance(node, ast.Name) and node.id in env:
            return env[node.id]
        raise Untranslatable(f"folder expression not understood: {ast.unparse(node)}")

    def local_env(self, fn: ast.FunctionDef) -> dict:
        """string-valued locals assigned once by `x = <sexpr>` or by `if version…: x = a else: x = b`"""
        env: dict = {}
        for st in ast.walk(fn):
            if isinstance(st, ast.Assign) and len(st.targets) == 1 and isinstance(st.targets[0], ast.Name):
                try:
                    e = self.sexpr(st.value, env)
                except Untranslatable:
                    continue
                env.setdefault(st.targets[0].id, e)
            if isinstance(st, ast.If) and len(st.body) == 1 and len(st.orelse) == 1:
                a, b = st.body[0], st.orelse[0]
                if (isinstance(a, ast.Assign) and isinstance(b, ast.Assign) and len(a.targets) == 1 and len(b.targets) == 1
                        and isinstance(a.targets[0], ast.Name) and isinstance(b.targets[0], ast.Name)
                        and a.targets[0].id == b.targets[0].id):
                    try:
                        op, thr, _ = self.version_test(st.test)
                        env[a.targets[0].id] = ("if", op, thr, self.sexpr(a.value, {}), self.sexpr(b.value, {}))
                    except Untranslatable:
                        pass
        return env


def cat(parts: list) -> tuple:
    if not parts:
        return ("lit", "")
    e = parts[-1]
    for p in reversed(parts[:-1]):
        e = ("cat", p, e)
    return e


def eval_sexpr(e: tuple, pf: int) -> str:
    if e[0] == "lit":
        return e[1]
    if e[0] == "cat":
        return eval_sexpr(e[1], pf) + eval_sexpr(e[2], pf)
    _, op, thr, a, b = e
    t = {"OLt": pf < thr, "OLe": pf <= thr, "OGt": pf > thr, "OGe": pf >= thr}[op]
    return eval_sexpr(a if t else b, pf)


KINDS = {
    "function": "KFunction", "advancement": "KAdvancement", "recipe": "KRecipe", "predicate": "KPredicate",
    "loot_table": "KLootTable", "item_modifier": "KItemModifier", "structure": "KStructure",
    "tags/function": "KTagFunction", "tags/block": "KTagBlock", "tags/item": "KTagItem",
    "tags/entity_type": "KTagEntityType", "tags/fluid": "KTagFluid", "tags/game_event": "KTagGameEvent",
}


def kind_of(e: tuple) -> str:
    """resource kind a folder expression is about: its value for a modern format, without a trailing '/' or 's'"""
    s = eval_sexpr(e, 10 ** 6).rstrip("/")
    for cand in (s, s[:-1] if s.endswith("s") else None):
        if cand in KINDS:
            return KINDS[cand]
    raise Untranslatable(f"folder {s!r} is not a known resource kind")


def qualnames(tree: ast.AST):
    """yield (qualname, FunctionDef) for every function, methods as Class.func"""
    def rec(node, prefix):
        for ch in ast.iter_child_nodes(node):
            if isinstance(ch, ast.ClassDef):
                yield from rec(ch, prefix + ch.name + ".")
            elif isinstance(ch, (ast.FunctionDef, ast.AsyncFunctionDef)):
                yield prefix + ch.name, ch
                yield from rec(ch, prefix + ch.name + ".")
    yield from rec(tree, "")


def body_no_doc(fn: ast.FunctionDef) -> list:
    b = fn.body
    if b and isinstance(b[0], ast.Expr) and isinstance(b[0].value, ast.Constant) and isinstance(b[0].value.value, str):
        b = b[1:]
    return b


def find_fn(tree, qual):
    for q, fn in qualnames(tree):
        if q == qual:
            return fn
    raise Untranslatable(f"function {qual} not found")


# ----------------------------------------------------------------------------- the individual tables

def read_features(src: Path) -> dict[str, int]:
    tree = ast.parse((src / "compile/pack_version.py").read_text())
    cls = next((n for n in tree.body if isinstance(n, ast.ClassDef) and n.name == "PackVersionFeature"), None)
    if cls is None:
        raise Untranslatable("class PackVersionFeature not found")
    out = {}
    for st in cls.body:
        if isinstance(st, ast.Expr) and isinstance(st.value, ast.Constant) and isinstance(st.value.value, str):
            continue
        if isinstance(st, ast.FunctionDef) and st.name == "__new__":
            continue
        if (isinstance(st, ast.Assign) and len(st.targets) == 1 and isinstance(st.targets[0], ast.Name)
                and isinstance(st.value, ast.Call) and isinstance(st.value.func, ast.Name)
                and st.value.func.id == "PackVersion" and len(st.value.args) == 1 and not st.value.keywords):
            out[st.targets[0].id] = scaled(const_num_text(st.value.args[0]))
            continue
        raise Untranslatable(f"PackVersionFeature: statement not understood: {ast.unparse(st)[:80]}")
    return out


def read_formats(src: Path) -> list[tuple[str, int]]:
    tree = ast.parse((src / "terminal/configuration.py").read_text())
    for st in tree.body:
        if isinstance(st, ast.Assign) and len(st.targets) == 1 and isinstance(st.targets[0], ast.Name) \
                and st.targets[0].id == "PACK_VERSION":
            if not isinstance(st.value, ast.Dict):
                raise Untranslatable("PACK_VERSION is not a dict literal")
            out = []
            for k, v in zip(st.value.keys, st.value.values):
                if not (isinstance(k, ast.Call) and isinstance(k.func, ast.Name) and k.func.id == "MinecraftVersion"):
                    raise Untranslatable(f"PACK_VERSION key: {ast.unparse(k)}")
                if not (isinstance(v, ast.Constant) and isinstance(v.value, str)):
                    raise Untranslatable(f"PACK_VERSION value: {ast.unparse(v)}")
                mc = ".".join(const_num_text(a) for a in k.args)
                out.append((mc, v.value, scaled(v.value)))
            return out
    raise Untranslatable("PACK_VERSION not found")


def read_private_rule(ctx: Ctx, src: Path) -> dict:
    """add_private_json / add_json of DataPack: exact statement shapes."""
    tree = ast.parse((src / "compile/datapack.py").read_text())
    fn = find_fn(tree, "DataPack.add_private_json")
    params = [a.arg for a in fn.args.args]
    if params != ["self", "json_type", "name", "json"]:
        raise Untranslatable(f"add_private_json parameters {params}")
    body = body_no_doc(fn)
    if len(body) != 2 or not isinstance(body[0], ast.If) or body[0].orelse:
        raise Untranslatable("add_private_json: expected `if …: json_type = json_type[:-1]` then one assignment")
    test = body[0].test
    if not (isinstance(test, ast.BoolOp) and isinstance(test.op, ast.And) and len(test.values) == 2):
        raise Untranslatable("add_private_json: condition is not `A and B`")
    vt, ew = test.values
    if ast.unparse(ew) != "json_type.endswith('s')":
        vt, ew = ew, vt
    if ast.unparse(ew) != "json_type.endswith('s')":
        raise Untranslatable("add_private_json: no `json_type.endswith('s')` conjunct")
    op, thr, fname = ctx.version_test(vt)
    if [ast.unparse(s) for s in body[0].body] != ["json_type = json_type[:-1]"]:
        raise Untranslatable("add_private_json: body of the if is not `json_type = json_type[:-1]`")
    store = store_shapes(tree)
    if ast.unparse(body[1]) not in store("f'{json_type}/{self.private_name}/{name}'"):
        raise Untranslatable(f"add_private_json: key assignment is {ast.unparse(body[1])}")
    fn2 = find_fn(tree, "DataPack.add_json")
    if [a.arg for a in fn2.args.args] != ["self", "json_type", "name", "json"]:
        raise Untranslatable("add_json parameters")
    b2 = body_no_doc(fn2)
    if len(b2) != 1 or ast.unparse(b2[0]) not in store("f'{json_type}/{name}'"):
        raise Untranslatable(f"add_json body is {[ast.unparse(s) for s in b2]}")
    return {"op": op, "thr": thr, "feature": fname}


def store_shapes(tree):
    """accepted spellings of `store <json> under key <k>`: the direct dict store, or a private helper
    `__add_json(self, json_path, json)` whose body is `if …: raise …` statements followed by `self.jsons[json_path] = json`"""
    helper_ok = False
    try:
        h = find_fn(tree, "DataPack.__add_json")
        hb = body_no_doc(h)
        if [a.arg for a in h.args.args] == ["self", "json_path", "json"] and hb and ast.unparse(hb[-1]) == "self.jsons[json_path] = json" \
                and all(isinstance(st, ast.If) and not st.orelse and all(isinstance(x, ast.Raise) for x in st.body) for st in hb[:-1]):
            helper_ok = True
    except Untranslatable:
        pass

    def shapes(key_expr: str) -> list[str]:
        out = [f"self.jsons[{key_expr}] = json"]
        if helper_ok:
            out.append(f"self.__add_json({key_expr}, json)")
        return out
    return shapes


def first_arg(call: ast.Call) -> ast.AST:
    if call.args:
        return call.args[0]
    for kw in call.keywords:
        if kw.arg == "json_type":
            return kw.value
    raise Untranslatable(f"no json_type argument in {ast.unparse(call)[:80]}")


def second_arg_text(call: ast.Call) -> str:
    if len(call.args) > 1:
        return ast.unparse(call.args[1])
    for kw in call.keywords:
        if kw.arg == "name":
            return ast.unparse(kw.value)
    return ""


def read_json_sites(ctx: Ctx, src: Path) -> list[dict]:
    sites = []
    for path in sorted(src.rglob("*.py")):
        rel = path.relative_to(src).as_posix()
        text = path.read_text()
        if "add_private_json" not in text and "add_json" not in text:
            continue
        tree = ast.parse(text)
        covered = set()
        for q, fn in qualnames(tree):
            env = None
            n = 0
            for node in ast.walk(fn):
                if isinstance(node, ast.Call) and isinstance(node.func, ast.Attribute) \
                        and node.func.attr in ("add_private_json", "add_json") and id(node) not in covered:
                    covered.add(id(node))
                    if env is None:
                        env = ctx.local_env(fn)
                    e = ctx.sexpr(first_arg(node), env)
                    sites.append(dict(label=f"{rel}:{q}#{n}", api="ApiPrivate" if node.func.attr == "add_private_json" else "ApiPlain",
                                      expr=e, kind=kind_of(e), line=node.lineno, name_expr=second_arg_text(node),
                                      cls=q.split(".")[0], group="json"))
                    n += 1
        # any other use of these names (aliasing, getattr…) would escape the table
        for node in ast.walk(tree):
            if isinstance(node, ast.Attribute) and node.attr in ("add_private_json", "add_json"):
                pass
            if isinstance(node, ast.Name) and node.id in ("add_private_json", "add_json"):
                raise Untranslatable(f"{rel}: bare name {node.id} (aliased call?)")
        n_attr = sum(1 for node in ast.walk(tree) if isinstance(node, ast.Attribute) and node.attr in ("add_private_json", "add_json"))
        n_here = sum(1 for s in sites if s["label"].startswith(rel + ":"))
        if n_attr != n_here:
            raise Untranslatable(f"{rel}: {n_attr} mentions of add_(private_)json but {n_here} translated calls")
    return sites


def div_chain(node: ast.AST) -> list[ast.AST]:
    if isinstance(node, ast.BinOp) and isinstance(node.op, ast.Div):
        return div_chain(node.left) + [node.right]
    return [node]


def read_build(ctx: Ctx, src: Path) -> list[dict]:
    tree = ast.parse((src / "compile/compiling.py").read_text())
    fn = find_fn(tree, "build")
    env = ctx.local_env(fn)
    if "function_folder" not in env:
        raise Untranslatable("build: `function_folder` is not assigned by an if/else on the version")
    ff = env["function_folder"]
    shapes = set()
    for node in ast.walk(fn):
        if isinstance(node, ast.BinOp) and isinstance(node.op, ast.Div):
            ch = div_chain(node)
            if any(isinstance(c, ast.Name) and c.id == "function_folder" for c in ch):
                shapes.add(tuple(ast.unparse(c) for c in ch))
    # keep only maximal chains
    maximal = {s for s in shapes if not any(t != s and t[:len(s)] == s for t in shapes)}
    expected = {
        ("output_folder", "'data'", "'minecraft'", "'tags'", "function_folder"): "tags",
        ("namespace_folder", "function_folder", "func_path + '.mcfunction'"): "fn",
        ("output_folder", "'data'", "namespace", "function_folder", "func_path[len(namespace) + 1:] + '.mcfunction'"): "fn_override",
    }
    if maximal != set(expected):
        raise Untranslatable(f"build: paths using function_folder are {sorted(maximal)}")
    # the tag files: one folder, assigned once, load.json / tick.json directly inside it, read and written at that same path
    assigns = {}
    for node in ast.walk(fn):
        if isinstance(node, (ast.Assign, ast.AnnAssign, ast.AugAssign)):
            for tg in (node.targets if isinstance(node, ast.Assign) else [node.target]):
                for nm in ([tg] if isinstance(tg, ast.Name) else tg.elts if isinstance(tg, (ast.Tuple, ast.List)) else []):
                    if isinstance(nm, ast.Name) and nm.id in ("function_folder", "functions_tags_folder", "load_tag", "tick_tag"):
                        assigns.setdefault(nm.id, []).append(ast.unparse(node.value) if node.value is not None else "")
        if isinstance(node, (ast.For, ast.With, ast.NamedExpr)):
            for nm in ast.walk(node.target if isinstance(node, (ast.For, ast.NamedExpr)) else ast.Module(body=[], type_ignores=[])):
                if isinstance(nm, ast.Name) and nm.id in ("function_folder", "functions_tags_folder", "load_tag", "tick_tag"):
                    raise Untranslatable(f"build: {nm.id} is rebound by a loop / walrus")
    want = {"function_folder": sorted(["'function'", "'functions'"]),
            "functions_tags_folder": ["output_folder / 'data' / 'minecraft' / 'tags' / function_folder"],
            "load_tag": ["functions_tags_folder / 'load.json'"], "tick_tag": ["functions_tags_folder / 'tick.json'"]}
    got = {k: sorted(v) for k, v in assigns.items()}
    if got != want:
        raise Untranslatable(f"build: tag-file paths are assigned as {got}")
    n_lit = sum(1 for node in ast.walk(fn) if isinstance(node, ast.Constant) and node.value in ("function", "functions"))
    if n_lit != 2:
        raise Untranslatable(f"build: {n_lit} literals 'function'/'functions' (expected the two of the if/else)")
    rft = find_fn(tree, "read_func_tag")
    for node in ast.walk(rft):
        if (isinstance(node, ast.BinOp) and isinstance(node.op, ast.Div)) or \
                (isinstance(node, ast.Constant) and node.value in ("function", "functions", "tags", "load.json", "tick.json", "minecraft")):
            raise Untranslatable("read_func_tag builds a path of its own")
    # any other spelling of the function folder in build would bypass function_folder (docstrings are prose, not paths)
    docstrings = {id(st.value) for node in ast.walk(fn) if isinstance(node, (ast.FunctionDef, ast.AsyncFunctionDef, ast.ClassDef))
                  for st in node.body[:1] if isinstance(st, ast.Expr) and isinstance(st.value, ast.Constant) and isinstance(st.value.value, str)}
    for node in ast.walk(fn):
        if isinstance(node, ast.Constant) and isinstance(node.value, str) and re.search(r"\bfunctions?\b", node.value) \
                and node.value not in ("function", "functions") and id(node) not in docstrings:
            raise Untranslatable(f"build: literal {node.value!r} spells a function folder")
    return [
        dict(label="compile/compiling.py:build#functions", api="ApiPath", expr=ff, kind=kind_of(ff), cls="build", group="build",
             line=fn.lineno, name_expr="func_path"),
        dict(label="compile/compiling.py:build#tags", api="ApiPath", expr=("cat", ("lit", "tags/"), ff),
             kind=kind_of(("cat", ("lit", "tags/"), ff)), cls="build", group="build", line=fn.lineno, name_expr="load|tick"),
    ]


def read_lookups(ctx: Ctx, src: Path) -> list[dict]:
    out = []
    # Advancement.grant / Advancement.revoke: `ADVANCEMENT = … if version >= … else …`, used as f"{ADVANCEMENT}/{advancement}" in jsons
    rel = "compile/command/builtin_function/jmc_command.py"
    tree = ast.parse((src / rel).read_text())
    for q, fn in qualnames(tree):
        for node in ast.walk(fn):
            if isinstance(node, ast.Assign) and len(node.targets) == 1 and isinstance(node.targets[0], ast.Name) \
                    and node.targets[0].id == "ADVANCEMENT":
                e = ctx.sexpr(node.value, {})
                out.append(dict(label=f"{rel}:{q}#ADVANCEMENT", api="ApiPlain", expr=e, kind=kind_of(e), cls=q.split(".")[0],
                                group="lookup", line=node.lineno, name_expr="advancement"))
    if len(out) != 2:
        raise Untranslatable(f"{rel}: expected the ADVANCEMENT key in Advancement.grant and Advancement.revoke, found {len(out)}")
    # DataPack.is_function_in_copy: f"data/{ns}/<folder>/{name}.mcfunction"
    rel = "compile/datapack.py"
    tree = ast.parse((src / rel).read_text())
    fn = find_fn(tree, "DataPack.is_function_in_copy")
    found = []
    for node in ast.walk(fn):
        if isinstance(node, ast.Assign) and len(node.targets) == 1 and isinstance(node.targets[0], ast.Name) \
                and node.targets[0].id == "function_called_relative_path":
            found.append(node)
    if len(found) != 1 or not isinstance(found[0].value, ast.JoinedStr):
        raise Untranslatable("is_function_in_copy: function_called_relative_path is not one f-string")
    vals = found[0].value.values
    # data/ {ns} /<folder…>/ {name} .mcfunction
    if not (len(vals) >= 5 and isinstance(vals[0], ast.Constant) and vals[0].value == "data/"
            and isinstance(vals[1], ast.FormattedValue) and isinstance(vals[-1], ast.Constant) and vals[-1].value == ".mcfunction"
            and isinstance(vals[-2], ast.FormattedValue)):
        raise Untranslatable(f"is_function_in_copy: path shape {ast.unparse(found[0].value)}")
    mid = vals[2:-2]
    parts = []
    for v in mid:
        if isinstance(v, ast.Constant) and isinstance(v.value, str):
            parts.append(("lit", v.value))
        elif isinstance(v, ast.FormattedValue) and v.conversion == -1 and v.format_spec is None:
            parts.append(ctx.sexpr(v.value, {}))
        else:
            raise Untranslatable("is_function_in_copy: path part")
    e = cat(parts)
    # must be "/" + folder + "/": strip the leading slash of the first literal
    s_new = eval_sexpr(e, 10 ** 6)
    if not (s_new.startswith("/") and s_new.endswith("/")):
        raise Untranslatable(f"is_function_in_copy: folder part {s_new!r} is not /…/")
    if not (parts and parts[0][0] == "lit" and parts[0][1].startswith("/")):
        raise Untranslatable("is_function_in_copy: folder part does not start with a literal '/'")
    parts[0] = ("lit", parts[0][1][1:])
    e = cat(parts)
    out.append(dict(label=f"{rel}:DataPack.is_function_in_copy#path", api="ApiPath", expr=e, kind=kind_of(e), cls="DataPack",
                    group="lookup", line=found[0].lineno, name_expr="__function_called"))
    return out


# which JMC feature (Model/PackFmt.v `feature`) a `require` call in a given function guards (n-th call of that function)
GATE_FEATURE = {
    ("compile/lexer_func_content.py", "FuncContent.__handle_with_anon", 0): "FWith",
    ("compile/lexer_func_content.py", "FuncContent.__handle_with", 0): "FWith",
    ("compile/command/_flow_control.py", "switch", 0): "FSwitchSparse",
    ("compile/command/_flow_control.py", "switch", 1): "FSwitchDefault",
    ("compile/command/builtin_function/load_only.py", "ItemCreateSign.call", 0): "FSignSides",
    ("compile/command/builtin_function/load_only.py", "ItemCreateSign.call", 1): "FSignSides",
    ("compile/command/jmc_function_mixin.py", "ItemMixin.create_item", 0): "FItemComponent",
    ("compile/command/jmc_function_mixin.py", "ItemMixin.create_item", 1): "FItemNbt",
    ("compile/command/builtin_function/load_only.py", "JMCRequire.call", 0): "FReturnRun",
}


# ---- under which conditions a `require(...)` call is reached (strengthening round 3) --------------------------------------
# A gate protects a feature only on the paths that reach it.  For every gate the translator derives the list of conditions
# between the entry of its function and the call: tests of the enclosing `if`s (with polarity), enclosing loops, and earlier
# statements that leave the function silently (`return` / `continue` / `break`; a `raise` is a diagnostic, not a silent path).
# Inside a built-in's `call` (or a mixin method it calls) every condition must be expressible over the ARGUMENTS of the call
# (`self.check_bool("x")`, `self.args["x"]`, and / or / not) so that the probes can evaluate it for each argument combination;
# elsewhere the list must be the reviewed one of GATE_REACH.  Anything else is Untranslatable (fail closed).

def _contains(node: ast.AST, target: ast.AST) -> bool:
    return any(n is target for n in ast.walk(node))


def _walk_no_defs(node: ast.AST):
    yield node
    for ch in ast.iter_child_nodes(node):
        if isinstance(ch, (ast.FunctionDef, ast.AsyncFunctionDef, ast.Lambda, ast.ClassDef)):
            continue
        yield from _walk_no_defs(ch)


def _silent_exit(st: ast.AST) -> bool:
    """does executing `st` possibly leave the enclosing block silently (return; continue / break of an ENCLOSING loop)?"""
    def rec(node, in_loop):
        if isinstance(node, ast.Return):
            return True
        if isinstance(node, (ast.Continue, ast.Break)) and not in_loop:
            return True
        for ch in ast.iter_child_nodes(node):
            if isinstance(ch, (ast.FunctionDef, ast.AsyncFunctionDef, ast.Lambda, ast.ClassDef)):
                continue
            if rec(ch, in_loop or isinstance(node, (ast.For, ast.While))):
                return True
        return False
    return rec(st, False)


def _always_leaves(body: list) -> bool:
    return bool(body) and isinstance(body[-1], (ast.Return, ast.Raise, ast.Continue, ast.Break))


def reach_conditions(fn: ast.FunctionDef, call: ast.Call, where: str) -> list[tuple]:
    """[(polarity, test node) | ("loop", text) | ("opaque", text)] in program order"""
    out: list[tuple] = []

    def simple_stmt_ok(st):
        # the call must be evaluated whenever the statement is: not under a lambda / comprehension / conditional expression / and-or
        def rec(node):
            if node is call:
                return True
            for ch in ast.iter_child_nodes(node):
                if _contains(ch, call):
                    if isinstance(node, (ast.Lambda, ast.ListComp, ast.SetComp, ast.DictComp, ast.GeneratorExp, ast.IfExp, ast.BoolOp)):
                        raise Untranslatable(f"{where}: the gate is evaluated conditionally inside an expression ({type(node).__name__})")
                    return rec(ch)
            return False
        rec(st)

    def walk(stmts):
        for st in stmts:
            if not _contains(st, call):
                if isinstance(st, (ast.FunctionDef, ast.AsyncFunctionDef, ast.ClassDef)):
                    continue
                if isinstance(st, ast.Return):
                    raise Untranslatable(f"{where}: the gate follows an unconditional return")
                if _silent_exit(st):
                    if isinstance(st, ast.If) and _always_leaves(st.body) and not any(_silent_exit(x) for x in st.orelse):
                        out.append((False, st.test))
                    elif isinstance(st, ast.If) and st.orelse and _always_leaves(st.orelse) and not any(_silent_exit(x) for x in st.body):
                        out.append((True, st.test))
                    else:
                        out.append(("opaque", "after a statement that may return: " + ast.unparse(st).split("\n")[0][:100]))
                continue
            if isinstance(st, ast.If):
                if _contains(st.test, call):
                    raise Untranslatable(f"{where}: the gate is part of an `if` test")
                if any(_contains(x, call) for x in st.body):
                    out.append((True, st.test))
                    return walk(st.body)
                out.append((False, st.test))
                return walk(st.orelse)
            if isinstance(st, (ast.For, ast.While)):
                head = f"for {ast.unparse(st.target)} in {ast.unparse(st.iter)}" if isinstance(st, ast.For) else f"while {ast.unparse(st.test)}"
                if any(_contains(x, call) for x in st.body):
                    out.append(("loop", head))
                    return walk(st.body)
                raise Untranslatable(f"{where}: the gate is in the head / else of a loop")
            if isinstance(st, ast.With):
                return walk(st.body)
            if isinstance(st, ast.Try):
                if any(_contains(x, call) for x in st.body):
                    return walk(st.body)
                if any(_contains(x, call) for x in st.finalbody):
                    return walk(st.finalbody)
                raise Untranslatable(f"{where}: the gate is inside an exception handler")
            if isinstance(st, (ast.Expr, ast.Assign, ast.AnnAssign, ast.AugAssign, ast.Return)):
                simple_stmt_ok(st)
                return
            raise Untranslatable(f"{where}: the gate is nested in a {type(st).__name__} statement")
        raise Untranslatable(f"{where}: gate not found in its function")
    walk(body_no_doc(fn))
    return out


def cond_atom(test: ast.AST, fn: ast.FunctionDef, binding: dict) -> tuple:
    """condition over the arguments of a built-in call: ("bool", arg) | ("given", arg) | ("not", c) | ("and"|"or", [c…]) | ("opaque", text)"""
    if isinstance(test, ast.UnaryOp) and isinstance(test.op, ast.Not):
        return ("not", cond_atom(test.operand, fn, binding))
    if isinstance(test, ast.BoolOp):
        return ("and" if isinstance(test.op, ast.And) else "or", [cond_atom(v, fn, binding) for v in test.values])
    if isinstance(test, ast.Call) and ast.unparse(test.func) == "self.check_bool" and len(test.args) == 1 and not test.keywords \
            and isinstance(test.args[0], ast.Constant) and isinstance(test.args[0].value, str):
        return ("bool", test.args[0].value)
    if isinstance(test, ast.Subscript) and ast.unparse(test.value) == "self.args":
        k = test.slice
        if isinstance(k, ast.Constant) and isinstance(k.value, str):
            return ("given", k.value)
        if isinstance(k, ast.Name) and k.id in binding:
            return ("given", binding[k.id])
    if isinstance(test, ast.Name):
        # a local assigned exactly once, from one of the shapes above
        assigns = [n for n in _walk_no_defs(fn) if isinstance(n, (ast.Assign, ast.AnnAssign, ast.AugAssign, ast.NamedExpr, ast.For))
                   and any(isinstance(t, ast.Name) and t.id == test.id for tg in
                           (n.targets if isinstance(n, ast.Assign) else [n.target]) for t in ast.walk(tg))]
        if len(assigns) == 1 and isinstance(assigns[0], ast.Assign) and len(assigns[0].targets) == 1 \
                and isinstance(assigns[0].targets[0], ast.Name) and not isinstance(assigns[0].value, ast.Name):
            return cond_atom(assigns[0].value, fn, binding)
    return ("opaque", ast.unparse(test))


def cond_text(c: tuple) -> str:
    if c[0] == "bool":
        return f"{c[1]}=true"
    if c[0] == "given":
        return f"{c[1]} given"
    if c[0] == "not":
        return "not (" + cond_text(c[1]) + ")"
    if c[0] in ("and", "or"):
        return "(" + f" {c[0]} ".join(cond_text(x) for x in c[1]) + ")"
    return f"<{c[1]}>"


def cond_opaque(c: tuple) -> bool:
    if c[0] == "opaque":
        return True
    if c[0] == "not":
        return cond_opaque(c[1])
    if c[0] in ("and", "or"):
        return any(cond_opaque(x) for x in c[1])
    return False


def cond_eval(c: tuple, args: dict) -> bool:
    """args: effective argument values of the call (defaults filled in)"""
    if c[0] == "bool":
        return args.get(c[1]) == "true"
    if c[0] == "given":
        return bool(args.get(c[1]))
    if c[0] == "not":
        return not cond_eval(c[1], args)
    if c[0] == "and":
        return all(cond_eval(x, args) for x in c[1])
    if c[0] == "or":
        return any(cond_eval(x, args) for x in c[1])
    raise Untranslatable(f"condition {c} cannot be evaluated")


# reviewed reach conditions of the gates that are not inside a built-in (exact texts; a change is Untranslatable)
GATE_REACH = {     # key -> reviewed alternatives (the original tree and the current one)
    ("compile/lexer_func_content.py", "FuncContent.__handle_with_anon", 0): [["not (not self.was_anonym_func)"]],
    ("compile/lexer_func_content.py", "FuncContent.__handle_with", 0): [[]],
    ("compile/command/_flow_control.py", "switch", 0): [[
        "loop for tokens in list_of_tokens", "tokens[0].string == 'case' and tokens[0].token_type == TokenType.KEYWORD", "count != expected_case"]],
    ("compile/command/_flow_control.py", "switch", 1): [
        ["loop for tokens in list_of_tokens", "tokens and tokens[0].string == 'default' and (tokens[0].token_type == TokenType.KEYWORD)"],
        ["loop for tokens in list_of_tokens", "tokens[0].string == 'default' and tokens[0].token_type == TokenType.KEYWORD"]],
}


def builtin_classes(tree: ast.AST) -> dict:
    """class name -> dict(call_string, args [(name, ArgType)], defaults) from the @func_property decorator"""
    out = {}
    for node in ast.walk(tree):
        if not isinstance(node, ast.ClassDef):
            continue
        for dec in node.decorator_list:
            if isinstance(dec, ast.Call) and isinstance(dec.func, ast.Name) and dec.func.id == "func_property":
                kw = {k.arg: k.value for k in dec.keywords}
                cs, at, df = kw.get("call_string"), kw.get("arg_type"), kw.get("defaults")
                if not (isinstance(cs, ast.Constant) and isinstance(cs.value, str) and isinstance(at, ast.Dict)):
                    raise Untranslatable(f"func_property of {node.name}: call_string / arg_type not literal")
                args = []
                for k, v in zip(at.keys, at.values):
                    if not (isinstance(k, ast.Constant) and isinstance(v, ast.Attribute)):
                        raise Untranslatable(f"func_property of {node.name}: arg_type entry {ast.unparse(k) if k else k}")
                    args.append((k.value, v.attr))
                defaults = {}
                if df is not None:
                    if not isinstance(df, ast.Dict):
                        raise Untranslatable(f"func_property of {node.name}: defaults not a dict literal")
                    for k, v in zip(df.keys, df.values):
                        if not (isinstance(k, ast.Constant) and isinstance(v, ast.Constant) and isinstance(v.value, str)):
                            raise Untranslatable(f"func_property of {node.name}: defaults entry")
                        defaults[k.value] = v.value
                out[node.name] = dict(call_string=cs.value, args=args, defaults=defaults, cls=node.name, node=node)
    return out


def read_gated_builtins(src: Path, gates: list[dict], errors: list[str]) -> list[dict]:
    """For every gate inside a built-in's `call`, or inside a method (mixin) that built-ins call as `self.<method>(…)`: the
    built-ins that reach it and the gate's reach condition over THEIR arguments."""
    trees = {}
    for path in sorted(src.rglob("*.py")):
        text = path.read_text()
        if "func_property" in text or any(g["rel"] == path.relative_to(src).as_posix() for g in gates):
            trees[path.relative_to(src).as_posix()] = ast.parse(text)
    classes = {}
    for rel, tree in trees.items():
        for name, info in builtin_classes(tree).items():
            info["rel"] = rel
            classes[name] = info
    out = {}

    def add(info, gate, conds):
        e = out.setdefault(info["call_string"], dict(call_string=info["call_string"], cls=info["cls"], rel=info["rel"], args=info["args"],
                                                     defaults=info["defaults"], gates=[]))
        e["gates"].append(dict(label=gate["label"], feature=gate["feature"], conds=conds, conds_text=[cond_text(c) for c in conds]))

    for g in gates:
        if "." not in g["qual"]:
            continue
        cls, meth = g["qual"].split(".", 1)
        if "." in meth:
            continue
        if cls in classes and meth == "call":
            conds = [c if p else ("not", c) for p, c in ((p, cond_atom(t, g["fn"], {})) for p, t in g["reach_nodes"])]
            if g["reach_other"] or any(cond_opaque(c) for c in conds):
                errors.append(f"{g['label']}: reached under a condition that is not a function of the call's arguments: "
                              f"{g['reach_other'] + [cond_text(c) for c in conds if cond_opaque(c)]}")
                conds = []          # judged as if it applied to every argument combination: the probes show where it does not
            add(classes[cls], g, conds)
            continue
        if cls in classes:
            continue            # a gate in another method of a built-in: judged through GATE_REACH below
        # a method of a mixin / base class: every built-in that calls self.<meth>(…)
        fn = g["fn"]
        params = {a.arg: d.value for a, d in zip(fn.args.args[len(fn.args.args) - len(fn.args.defaults):], fn.args.defaults)
                  if isinstance(d, ast.Constant) and isinstance(d.value, str)}
        callers = 0
        for name, info in classes.items():
            calls = [n for n in ast.walk(info["node"]) if isinstance(n, ast.Call) and ast.unparse(n.func) == f"self.{meth}"]
            if not calls:
                continue
            if not any(isinstance(b, (ast.Name, ast.Attribute)) and ast.unparse(b).split(".")[-1] == cls for b in info["node"].bases):
                raise Untranslatable(f"{info['cls']} calls self.{meth} but does not list {cls} as a base")
            bindings = set()
            for c in calls:
                if c.args:
                    raise Untranslatable(f"{info['cls']}: positional arguments to self.{meth}")
                b = dict(params)
                for kw in c.keywords:
                    if kw.arg in params:
                        if not (isinstance(kw.value, ast.Constant) and isinstance(kw.value.value, str)):
                            raise Untranslatable(f"{info['cls']}: self.{meth}({kw.arg}=…) is not a literal")
                        b[kw.arg] = kw.value.value
                bindings.add(tuple(sorted(b.items())))
            if len(bindings) != 1:
                raise Untranslatable(f"{info['cls']}: self.{meth} is called with different parameter names")
            binding = dict(next(iter(bindings)))
            conds = [c if p else ("not", c) for p, c in ((p, cond_atom(t, fn, binding)) for p, t in g["reach_nodes"])]
            if g["reach_other"] or any(cond_opaque(c) for c in conds):
                msg = (f"{g['label']}: reached under a condition that is not a function of the call's arguments: "
                       f"{g['reach_other'] + [cond_text(c) for c in conds if cond_opaque(c)]}")
                if msg not in errors:
                    errors.append(msg)
                conds = []
            add(info, g, conds)
            callers += 1
        # no built-in caller: the gate is judged through GATE_REACH (check_reach)
    return sorted(out.values(), key=lambda e: e["call_string"])


def read_gates(ctx: Ctx, src: Path) -> tuple[list[dict], list[str]]:
    gates, unmapped = [], []
    for path in sorted(src.rglob("*.py")):
        rel = path.relative_to(src).as_posix()
        text = path.read_text()
        if ".require(" not in text:
            continue
        tree = ast.parse(text)
        seen = set()
        for q, fn in qualnames(tree):
            n = 0
            calls = [node for node in ast.walk(fn) if isinstance(node, ast.Call) and isinstance(node.func, ast.Attribute)
                     and node.func.attr == "require" and id(node) not in seen]
            calls.sort(key=lambda c: (c.lineno, c.col_offset))
            for node in calls:
                seen.add(id(node))
                f = feature_name(node.args[0]) if node.args else None
                if f is None:
                    continue        # JMCFunction.require forwards its parameter; PackVersion.require's own docstring
                if f not in ctx.features:
                    raise Untranslatable(f"{rel}:{q}: unknown PackVersionFeature.{f}")
                lower = False
                for kw in node.keywords:
                    if kw.arg == "is_lower":
                        if not isinstance(kw.value, ast.Constant) or not isinstance(kw.value.value, bool):
                            raise Untranslatable(f"{rel}:{q}: is_lower is not a literal")
                        lower = kw.value.value
                if len(node.args) > 4:
                    raise Untranslatable(f"{rel}:{q}: positional is_lower")
                key = (rel, q, n)
                g = dict(label=f"{rel}:{q}#{n}", feature_const=f, thr=ctx.features[f], lower=lower, line=node.lineno,
                         feature=GATE_FEATURE.get(key), rel=rel, qual=q, key=key, fn=fn)
                reach = reach_conditions(fn, node, g["label"])
                g["reach_nodes"] = [(r[0], r[1]) for r in reach if isinstance(r[0], bool)]
                g["reach_other"] = [f"{r[0]} {r[1]}" for r in reach if not isinstance(r[0], bool)]
                g["reach"] = [(f"{r[0]} {r[1]}" if not isinstance(r[0], bool) else
                               (ast.unparse(r[1]) if r[0] else "not (" + ast.unparse(r[1]) + ")")) for r in reach]
                (gates if g["feature"] else unmapped).append(g)
                n += 1
    return gates, [g["label"] for g in unmapped]


def check_reach(gates: list[dict], builtins: list[dict], errors: list[str]) -> None:
    """every mapped gate is either judged per argument combination of the built-ins that reach it, or its reach conditions are the reviewed ones"""
    via = {gg["label"] for b in builtins for gg in b["gates"]}
    for g in gates:
        if g["label"] in via:
            continue
        want = GATE_REACH.get(g["key"])
        if want is None:
            errors.append(f"{g['label']}: no reviewed reach condition for this gate (reached when: {g['reach']})")
        elif g["reach"] not in want:
            errors.append(f"{g['label']}: the gate is now reached only when {g['reach']} (reviewed: {want}) — "
                          "programs using the feature on another path would no longer be checked")


def read_strategy(ctx: Ctx, src: Path) -> list[dict]:
    """`is_macro_switch(datapack)`: `return version >= X and not Header().force_bst`; in `switch`, the n-th
    `if not is_macro_switch(datapack): raise …` guards sparse labels (0) / default (1).  Absent in older trees."""
    rel = "compile/command/_flow_control.py"
    tree = ast.parse((src / rel).read_text())
    try:
        fn = find_fn(tree, "is_macro_switch")
    except Untranslatable:
        return []
    b = body_no_doc(fn)
    if not (len(b) == 1 and isinstance(b[0], ast.Return) and isinstance(b[0].value, ast.BoolOp) and isinstance(b[0].value.op, ast.And)
            and len(b[0].value.values) == 2 and ast.unparse(b[0].value.values[1]) == "not Header().force_bst"):
        raise Untranslatable(f"is_macro_switch: {ast.unparse(b[0]) if b else ''}")
    op, thr, fname = ctx.version_test(b[0].value.values[0])
    sw = find_fn(tree, "switch")
    guards = [n for n in ast.walk(sw) if isinstance(n, ast.If) and ast.unparse(n.test) == "not is_macro_switch(datapack)"
              and all(isinstance(x, ast.Raise) for x in n.body) and not n.orelse]
    guards.sort(key=lambda n: n.lineno)
    uses = [n for n in ast.walk(sw) if isinstance(n, ast.Call) and isinstance(n.func, ast.Name) and n.func.id == "is_macro_switch"]
    if len(guards) != 2 or len(uses) != 2:
        raise Untranslatable(f"switch: {len(guards)} `if not is_macro_switch(datapack): raise` guards, {len(uses)} uses (expected 2, 2)")
    return [dict(label=f"{rel}:switch#strategy{i}", feature=f, op=op, thr=thr, line=g.lineno)
            for i, (g, f) in enumerate(zip(guards, ("FSwitchSparse", "FSwitchDefault")))]


def translate(repo: Path) -> dict:
    src = Path(repo) / "src" / "jmc"
    features = read_features(src)
    ctx = Ctx(features)
    formats = read_formats(src)
    rule = read_private_rule(ctx, src)
    sites = read_json_sites(ctx, src) + read_build(ctx, src) + read_lookups(ctx, src)
    gates, unmapped = read_gates(ctx, src)
    # reach conditions that cannot be analysed do not stop the translation: the tables are still needed to SEARCH for a failing input;
    # they are reported by c18.py as a fail-closed translator error
    reach_errors: list[str] = []
    builtins = read_gated_builtins(src, gates, reach_errors)
    check_reach(gates, builtins, reach_errors)
    for g in gates:
        g.pop("fn", None), g.pop("reach_nodes", None)
    for b in builtins:
        b.pop("node", None)
    return dict(features=features, formats=formats, rule=rule, sites=sites, gates=gates, unmapped_gates=unmapped,
                sgates=read_strategy(ctx, src), gated_builtins=builtins, reach_errors=reach_errors)


# ----------------------------------------------------------------------------- Coq output

def cstr(s: str) -> str:
    return '"' + s.replace('"', '""') + '"'


def cz(n: int) -> str:
    return f"({n})" if n < 0 else str(n)


def coq_sexpr(e: tuple) -> str:
    if e[0] == "lit":
        return f"(SLit {cstr(e[1])})"
    if e[0] == "cat":
        return f"(SCat {coq_sexpr(e[1])} {coq_sexpr(e[2])})"
    return f"(SIf {e[1]} {cz(e[2])} {coq_sexpr(e[3])} {coq_sexpr(e[4])})"


def all_formats(t: dict) -> list[int]:
    return sorted({f[2] for f in t["formats"]}) + [-10]


def coq_text(t: dict) -> str:
    L = ["(* REGENERATED on every run by harness/translate_sites.py from the jmc source — do not edit. *)",
         "From Coq Require Import ZArith String List Bool.",
         "From JMCV Require Import Model.PackFmt.",
         "Import ListNotations.", "Open Scope Z_scope.", "Open Scope string_scope.", ""]
    L.append(f"Definition R : rules := mkRules {t['rule']['op']} {cz(t['rule']['thr'])}.")
    L.append("Definition formats : list Z := [" + "; ".join(cz(x) for x in all_formats(t)) + "].")
    L.append("Definition thresholds : list (string * Z) := [" +
             "; ".join(f"({cstr(k)}, {cz(v)})" for k, v in t["features"].items()) + "].")
    L.append("Definition sites : list site := [")
    L.append(";\n".join(f"  mkSite {cstr(s['label'])} {s['api']} {coq_sexpr(s['expr'])} {s['kind']}" for s in t["sites"]))
    L.append("].")
    L.append("Definition gates : list gate := [")
    L.append(";\n".join(f"  mkGate {cstr(g['label'])} {g['feature']} {cz(g['thr'])} {'true' if g['lower'] else 'false'}"
                        for g in t["gates"]))
    L.append("].")
    L.append("Definition sgates : list sgate := [")
    L.append(";\n".join(f"  mkSGate {cstr(g['label'])} {g['feature']} {g['op']} {cz(g['thr'])}" for g in t["sgates"]))
    L.append("].")
    return "\n".join(L) + "\n"


if __name__ == "__main__":
    import json
    import sys
    tt = translate(Path(sys.argv[1] if len(sys.argv) > 1 else "/repo"))
    print(coq_text(tt))
    print(json.dumps(dict(unmapped=tt["unmapped_gates"], reach_errors=tt["reach_errors"], reach={g["label"]: g["reach"] for g in tt["gates"]},
                          gated_builtins=[dict(call=b["call_string"], args=b["args"], defaults=b["defaults"],
                                               gates=[(g["label"], g["conds_text"]) for g in b["gates"]]) for b in tt["gated_builtins"]]), indent=1))
