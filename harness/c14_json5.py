"""C14 strengthening round 5: JSON syntax errors (exception.JMCDecodeJSONError).

Plants: a JSON text with ONE syntax error, on every line of a multi-line body (also one-line bodies), handed to jmc as the
body of `new <type>(<name>) {...}` or as a JSON-typed argument of a built-in function, with the opening brace in column 1
(Allman), indented on its own line, or behind other tokens of its line.  The expected citation is computed independently
of jmc: the offset at which the harness's own json.loads stops, mapped into the FILE (offset of the text + that offset)."""
from __future__ import annotations

import json

ITEMS = [('"a"', "1"), ('"b"', "[1, 2]"), ('"c"', '{"d": true}'), ('"e"', '"s"'), ('"f"', "null")]

# (name, function (key, value, is_last) -> text of the item with the error)
ERRORS = [
    ("bad-literal", lambda k, v, last: f"{k}: tru"),
    ("missing-value", lambda k, v, last: f"{k}: "),
    ("missing-colon", lambda k, v, last: f"{k} {v}"),
    ("missing-quote", lambda k, v, last: f'{k[:-1]}: 1"'),
    ("single-quote", lambda k, v, last: f"'{k[1:-1]}': {v}"),
    ("doubled-comma", lambda k, v, last: f"{k}: {v},"),
    ("bare-key", lambda k, v, last: f"{k[1:-1]}: {v}"),
    ("extra-bracket", lambda k, v, last: f"{k}: {v}]"),
]
INNER = ["first", "open", "one", "first-tabs", "first-crlf", "close-own-line"]

NEW_CARRIERS = [
    ("new/same-line", "new advancements(x) ", ""),
    ("new/allman-col1", "new advancements(x)\n", ""),
    ("new/allman-indented", "new advancements(x)\n      ", ""),
    ("new/behind-statement", "$a = 1; $b = 2; new item_modifiers(y.z) ", ""),
    ("new/indented-later-line", "$a = 1;\n\n    new loot_tables(q) ", "\n$c = 3;"),
    ("new/glued", "new predicates(p){", None),
    ("new/in-class", "class k {\n    new recipes(r) ", "\n}"),
]
ARG_CARRIERS = [
    ("arg/Predicate.locations", 'Predicate.locations(name="p", predicate=', ", xMin=0, xMax=0, yMin=0, yMax=0, zMin=0, zMax=0);"),
    ("arg/Predicate.locations-broken", 'Predicate.locations(\n    name="p",\n    predicate=', ",\n    xMin=0, xMax=0, yMin=0, yMax=0, zMin=0, zMax=0\n);"),
    ("arg/Recipe.table", "$a = 1; Recipe.table(", ", baseItem=stone, onCraft=()=>{say \"x\";});"),
    ("arg/Recipe.table-allman", "Recipe.table(\n", ",\nbaseItem=stone);"),
]


def render_doc(items, inner):
    nl = "\r\n" if inner == "first-crlf" else "\n"
    ind = "\t" if inner == "first-tabs" else "  "
    if inner == "one":
        return "{" + ", ".join(items) + "}"
    if inner == "open":
        return "{" + nl + ("," + nl).join(ind + i for i in items) + nl + "}"
    if inner == "close-own-line":
        return "{" + items[0] + "," + nl + ("," + nl).join(ind + i for i in items[1:]) + nl + ind + "}"
    return "{" + items[0] + "," + nl + ("," + nl).join(ind + i for i in items[1:]) + "}"


def json_stop(doc):
    try:
        json.loads(doc, strict=False)
    except json.JSONDecodeError as e:
        return e.pos
    return None


def pos_of(fs, off):
    pre = fs[:off]
    return pre.count("\n") + 1, off - (pre.rfind("\n") + 1) + 1


def json_plants(rng, tier):
    """list of dict(src, line, col, carrier, inner, error, item, err_line (1-based line of the error inside the text), brace_col, n_lines)"""
    out = []
    carriers = NEW_CARRIERS + ARG_CARRIERS
    for ci, (cname, pre, post) in enumerate(carriers):
        for inner in INNER:
            for ei, (ename, mk) in enumerate(ERRORS):
                n = rng.choice([3, 4, 5])
                ks = list(range(n)) if tier != "quick" else sorted({0, rng.randrange(1, n), n - 1} if (ci + ei) % 2 else {0, rng.randrange(1, n)})
                for k in ks:
                    items = [f"{a}: {b}" for a, b in ITEMS[:n]]
                    items[k] = mk(ITEMS[k][0], ITEMS[k][1], k == n - 1)
                    doc = render_doc(items, inner)
                    stop = json_stop(doc)
                    if stop is None:
                        continue
                    if cname == "new/glued":
                        src = pre[:-1] + doc
                    else:
                        src = pre + doc + post
                    if src.count(doc) != 1:
                        continue
                    o = src.index(doc)
                    line, col = pos_of(src, o + stop)
                    bl, bc = pos_of(src, o)
                    out.append(dict(src=src, line=line, col=col, carrier=cname, inner=inner, error=ename, item=k,
                                    err_line=line - bl + 1, brace_col=bc, n_lines=doc.count("\n") + 1))
    return out
