"""C03: locating the lowered condition in the real output, and the search for failing inputs
(source-level meaning of a formula vs the real emitted text run in mcvm)."""
from __future__ import annotations

import re

from lib import INT_MAX, INT_MIN
from mcvm import VM, Invalid, OutOfFuel
from c03_gen import COP, atoms_of, score_of

B1, B2 = "say B1", "say B2"


# ------------------------------------------------------------------ segments

def _lines(text):
    return [l for l in text.split("\n") if l != ""]


def _callee(line, fns):
    m = re.search(r" run function [^:\s]+:(\S+)$", line) or re.match(r"^function [^:\s]+:(\S+)$", line)
    if not m or m.group(1) not in fns:
        raise ValueError(f"no function call found in {line!r}")
    return _lines(fns[m.group(1)])


def _after_body(lines, extra=0):
    if lines[:2] != [B1, B2]:
        raise ValueError("loop body not found where expected")
    return lines[2 + extra:]


def extract_segments(position, fns, cert):
    """-> ([segment text per evaluation site], tail of the guarded line).  A segment is the precommand lines
    followed by the `execute <conditions> run <tail>` line."""
    f = _lines(fns["f"])
    if position.startswith("mif"):          # `$if`: which lines are macro lines is checked separately (macro_line_failure)
        f = _lines(strip_macro(fns["f"]))
    ifelse = f"execute if score __if_else__ {cert['VAR']} matches 0 run "
    if position in ("if", "mif", "mif1"):
        segs = [f]
    elif position == "ifelse":
        if f[0] != f"scoreboard players set __if_else__ {cert['VAR']} 0" or not f[-1].startswith(ifelse):
            raise ValueError("if/else frame not found")
        segs = [f[1:-1]]
    elif position in ("elif", "elif_mid", "elif2"):
        if not f[-1].startswith(ifelse):
            raise ValueError("else-branch dispatch line not found")
        g = _callee(f[-1], fns)
        if not g[-1].startswith(ifelse):
            raise ValueError("else-branch dispatch line not found in the else-if stage")
        segs = [g[:-1]]
    elif position == "while":
        segs = [f, _after_body(_callee(f[-1], fns))]
    elif position == "dowhile":
        if len(f) != 1:
            raise ValueError("do-while entry is not a single call")
        segs = [_after_body(_callee(f[0], fns))]
    elif position in ("for", "forp"):
        init = f"scoreboard players set $i_ {cert['VAR']} 0"
        step = f"scoreboard players add $i_ {cert['VAR']} 1"
        if f[0] != init:
            raise ValueError("for initialiser not found")
        g = _callee(f[-1], fns)
        if g[2:3] != [step]:
            raise ValueError("for step not found")
        segs = [f[1:], _after_body(g, 1)]
    elif position in ("expand", "mif_expand"):
        # one segment per command of the batch: precommand lines + the command under the guard
        cut = [i for i, l in enumerate(f) if l.endswith(" run " + B1)]
        if len(cut) != 1 or not f[-1].endswith(" run " + B2):
            raise ValueError("the two guarded commands of the expand batch not found")
        second = f[cut[0] + 1:]
        second[-1] = second[-1][:-len(B2)] + B1          # same tail, so that the sites can be compared
        segs = [f[:cut[0] + 1], second]
    elif position in ("async_while", "async_for", "async_forp"):
        loop = "while_loop" if position == "async_while" else "for_loop"
        delay = "1t" if position == "async_while" else "2t"
        pre = [] if position == "async_while" else [f"scoreboard players set $i_ {cert['VAR']} 0"]
        step = [] if position == "async_while" else [f"scoreboard players add $i_ {cert['VAR']} 1"]
        if f[:-1] != pre:
            raise ValueError("async loop entry not found")
        test = _callee(f[-1], fns)
        body = _callee(test[-1], fns)
        m = re.match(r"^function ([^:\s]+:\S+)$", f[-1])
        if body != [B1, B2] + step + [f"schedule function {m.group(1)} {delay}"] or f"/{loop}/" not in test[-1]:
            raise ValueError("async loop body / re-schedule line not found")
        segs = [test]
    else:
        raise ValueError(position)
    for s in segs:
        if not s or " run " not in s[-1] or not s[-1].startswith("execute "):
            raise ValueError("guarded line not found")
    tail = segs[0][-1].rsplit(" run ", 1)[1]
    return ["\n".join(s) for s in segs], tail


# ------------------------------------------------------------------ source-level meaning

def atom_true(a, st, cert):
    x = st.get(score_of(a["lhs"], cert))
    if a["kind"] == "truthy":
        return x is not None and x >= 1
    if a["kind"] == "matches":
        return x is not None and a["a"] <= x <= a["b"]
    r = a["rhs"]
    y = r[1] if r[0] == "lit" else st.get(score_of(r[1], cert))
    op = COP[a["sp"]]
    if x is None or y is None:
        return op == "ne"
    return {"eq": x == y, "ne": x != y, "lt": x < y, "le": x <= y, "gt": x > y, "ge": x >= y}[op]


def eval_formula(f, st, cert):
    if f["op"] == "atom":
        return atom_true(f["atom"], st, cert)
    if f["op"] == "not":
        return not eval_formula(f["arg"], st, cert)
    vals = [eval_formula(x, st, cert) for x in f["args"]]
    return all(vals) if f["op"] == "and" else any(vals)


# ------------------------------------------------------------------ states

def _clip(vals):
    return [v for v in dict.fromkeys(vals) if v is None or INT_MIN <= v <= INT_MAX]


def candidates(a, cert):
    """{score: candidate values} making the atom true and false in several ways"""
    s = score_of(a["lhs"], cert)
    if a["kind"] == "truthy":
        return {s: _clip([None, 0, 1, -1, 2])}
    if a["kind"] == "matches":
        return {s: _clip([None, a["a"] - 1, a["a"], a["b"], a["b"] + 1])}
    r = a["rhs"]
    if r[0] == "lit":
        return {s: _clip([None, r[1] - 1, r[1], r[1] + 1])}
    s2 = score_of(r[1], cert)
    if s2 == s:
        return {s: [None, 0, 1]}
    return {s: [None, 0, 1, -7], s2: [None, 0, 1, INT_MAX]}


def states_for(f, cert, rng, max_states):
    cand = {}
    for a in atoms_of(f):
        for s, vs in candidates(a, cert).items():
            cand.setdefault(s, [])
            for v in vs:
                if v not in cand[s]:
                    cand[s].append(v)
    scores = list(cand)
    total = 1
    for s in scores:
        total *= len(cand[s])
    out = []
    if total <= max_states:
        def rec(i, cur):
            if i == len(scores):
                out.append(dict(cur))
                return
            for v in cand[scores[i]]:
                if v is not None:
                    cur[scores[i]] = v
                rec(i + 1, cur)
                cur.pop(scores[i], None)
        rec(0, {})
        return out
    # every truth assignment of the atoms when they are few and independent, then random fill
    atoms = atoms_of(f)
    seen = set()

    def add(st):
        k = tuple(sorted(st.items()))
        if k not in seen:
            seen.add(k)
            out.append(st)
    add({})

    def assignment(wants):
        st = {}
        for a, want in zip(atoms, wants):
            c = candidates(a, cert)
            keys = list(c)
            opts = []
            for combo in _prod([c[k] for k in keys]):
                trial = dict(st)
                for k, v in zip(keys, combo):
                    if v is None:
                        trial.pop(k, None)
                    else:
                        trial[k] = v
                if atom_true(a, trial, cert) == want:
                    opts.append(trial)
            if opts:
                st = rng.choice(opts)
        return st
    # all true / all false / exactly one atom flipped (reaches failures of wide and deep formulas)
    n = len(atoms)
    if n <= 40:
        for base in (True, False):
            add(assignment([base] * n))
            for i in range(n):
                add(assignment([base] * i + [not base] + [base] * (n - i - 1)))
    max_states = max(max_states, len(out) + 8)
    if len(atoms) <= 5:
        for bits in range(2 ** len(atoms)):
            st = {}
            for i, a in enumerate(atoms):
                want = bool(bits >> i & 1)
                opts = []
                c = candidates(a, cert)
                keys = list(c)
                for combo in _prod([c[k] for k in keys]):
                    trial = dict(st)
                    for k, v in zip(keys, combo):
                        if v is None:
                            trial.pop(k, None)
                        else:
                            trial[k] = v
                    if atom_true(a, trial, cert) == want:
                        opts.append(trial)
                if opts:
                    st = rng.choice(opts)
            add(st)
    while len(out) < max_states:
        st = {}
        for s in scores:
            v = rng.choice(cand[s])
            if v is not None:
                st[s] = v
        add(st)
        if len(seen) >= total:
            break
    return out[:max(max_states, 1)]


def _prod(lists):
    if not lists:
        yield ()
        return
    for x in lists[0]:
        for r in _prod(lists[1:]):
            yield (x,) + r


# ------------------------------------------------------------------ running the real text

_INT = r"-?\d+"


def _int_ok(txt):
    return re.fullmatch(_INT, txt) is not None and INT_MIN <= int(txt) <= INT_MAX


def _range_ok(r):
    if ".." not in r:
        return _int_ok(r)
    a, b = r.split("..", 1)
    if (a and not _int_ok(a)) or (b and not _int_ok(b)) or (not a and not b):
        return False
    return not (a and b) or int(a) <= int(b)


def invalid_line(line):
    """None if the line is a valid command of the shapes a lowered condition consists of (checked in full,
    whether or not a guard would short-circuit at run time); else a description."""
    t = line.split(" ")
    if t[:3] == ["scoreboard", "players", "set"]:
        return None if len(t) == 6 and _int_ok(t[5]) else "bad scoreboard players set"
    if t[0] != "execute":
        return None
    i = 1
    while i < len(t) and t[i] != "run":
        if t[i] not in ("if", "unless") or t[i + 1:i + 2] != ["score"] or len(t) < i + 6:
            return f"unexpected execute clause at word {i}"
        if t[i + 4] == "matches":
            if not _range_ok(t[i + 5]):
                return f"invalid range {t[i + 5]!r}"
            i += 6
        elif t[i + 4] in ("=", "<", "<=", ">", ">="):
            if len(t) < i + 7:
                return "truncated score comparison"
            i += 7
        else:
            return f"invalid comparison operator {t[i + 4]!r}"
    if i >= len(t) - 1:
        return "no command after run"
    return invalid_line(" ".join(t[i + 1:]))


def macro_line_failure(seg):
    """`$if`: a line is a macro line (starts with `$`) iff it mentions a macro variable `$(...)`.  A macro line without a
    variable does not load ("Macro without variables"); a variable on a plain line is never substituted."""
    for ln in seg.split("\n"):
        if ln.startswith("$") != ("$(" in ln):
            why = "macro line without a macro variable" if ln.startswith("$") else "macro variable on a line that is not a macro line"
            return dict(kind="invalid-command", detail=f"{why}: {ln}", init=dict(scores={}, stale_flags=False))
    return None


def strip_macro(seg):
    return "\n".join(ln[1:] if ln.startswith("$") else ln for ln in seg.split("\n"))


def is_flag(k, cert):
    return k[0].startswith("__logic__") and k[1] == cert["VAR"]


def semantic_failure(f, cert, seg, states, stale_modes=(False, True)):
    """Run the real segment (precommands + guarded line, body replaced by a marker) from each state; the marker
    must be said exactly once iff the formula is true at entry, every line must be a valid command, and no score
    other than the __logic__ flags may change."""
    lines = seg.split("\n")
    lines[-1] = lines[-1].rsplit(" run ", 1)[0] + " run say BODY"
    text = "\n".join(lines)
    for ln in lines:
        why = invalid_line(ln)
        if why:
            return dict(kind="invalid-command", detail=f"{why}: {ln}", init=dict(scores={}, stale_flags=False))
    for st in states:
        exp = eval_formula(f, st, cert)
        for stale in stale_modes:
            vm = VM({}, max_steps=5000)
            vm.s.update(st)
            vm.s[("$bystander", cert["VAR"])] = 12345
            if stale:
                for k in range(12):
                    vm.s[(f"__logic__{k}", cert["VAR"])] = 1
            before = dict(vm.s)
            init = dict(scores={f"{k[0]} {k[1]}": v for k, v in st.items()}, stale_flags=stale)
            try:
                vm.run_lines(text)
            except Invalid as e:
                return dict(kind="invalid-command", detail=str(e), init=init)
            except OutOfFuel:
                return dict(kind="no-termination", init=init)
            ran = vm.trace.count("BODY")
            if vm.trace not in ([], ["BODY"]) or (ran == 1) != exp:
                return dict(kind="wrong-guard", expected="body runs once" if exp else "body does not run",
                            actual=f"trace {vm.trace}", init=init)
            for k in set(before) | set(vm.s):
                if is_flag(k, cert):
                    continue
                if before.get(k) != vm.s.get(k):
                    return dict(kind="user-score-changed", score=list(k), before=before.get(k), after=vm.s.get(k), init=init)
    return None
