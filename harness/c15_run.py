"""Runner (executed with the repo's interpreter, PYTHONPATH=<repo>/src) for C15/C16.

stdin: JSON {"op": ..., ...}; stdout: JSON.

op = "corpus" : run the repo's integration tests with JMCTestPack.build wrapped, and return every
                (jmc_file, header_file, cert, pack_format, envs) that a test compiles (the test-suite inputs).
op = "parse"  : jobs = [{string, line, col, expect_semicolon, allow_semicolon, allow_last, header?}] ->
                for each, the result of the real `Tokenizer.parse` (list of statements of tokens) or the diagnostic class.
op = "trace"  : jobs = [{src, header?, ...}] -> compile each (JMCTestPack) with `Tokenizer.parse` wrapped; returns for
                each job the list of distinct parse calls made during that compile (arguments and resulting tokens)
                and every `is_connected` decision (tokens involved, result).
"""
import json
import os
import signal
import sys

FULL_CERT = "LOAD=__load__\nTICK=__tick__\nPRIVATE=__private__\nVAR=__variable__\nINT=__int__\nSTORAGE=__storage__"


class _Timeout(BaseException):
    pass


def _alarm(signum, frame):
    raise _Timeout()


def tok_json(t):
    end = getattr(t, "_macro_end", None)
    return [t.token_type.name, t.line, t.col, t.string, t._macro_length, list(end) if end is not None else None]


def has_macro_end():
    from jmc.compile.tokenizer import Token
    return "_macro_end" in getattr(Token, "__dataclass_fields__", {})


def op_probe(req):
    """Which optional variants does this tree have?  has_end: Token._macro_end exists (C15/C16 adjacency fix);
    case_fix: statement termination skips a leading `case <n>:` label (C06 fix)."""
    from jmc.compile.tokenizer import Tokenizer
    _setup_header(None)
    t = Tokenizer.__new__(Tokenizer)
    t.macro_factory = None
    t.allow_semicolon = False
    t.raw_string = t.file_string = "case 1: while ($x) { a; } b;"
    t.file_path = "main.jmc"
    progs = t.parse(t.raw_string, line=1, col=1, expect_semicolon=True)
    from jmc.compile.utils import is_decorator
    return {"has_end": has_macro_end(), "case_fix": len(progs) == 2,
            # fixes/C16-selector-argument-of-macro.patch: a selector with arguments merged into one token is no decorator
            "selector_arg_fix": not is_decorator("@e[type=pig]")}


def op_corpus(req):
    import importlib
    import unittest
    from jmc.compile import test_compile
    JMCTestPack = test_compile.JMCTestPack
    seen, out = set(), []
    orig = JMCTestPack.build

    def build(self):
        item = dict(src=self.jmc_file, header=self.header_file, cert=self.cert,
                    pack_format=self.config.pack_format, envs=list(self.envs), namespace=self.config.namespace)
        key = json.dumps(item, sort_keys=True)
        if key not in seen:
            seen.add(key)
            out.append(item)
        return orig(self)

    JMCTestPack.build = build
    repo = os.environ["PYTHONPATH"].split(os.pathsep)[0]
    os.chdir(os.path.dirname(repo))
    sys.path.insert(0, repo)
    names = sorted(f[:-3] for f in os.listdir(os.path.join(repo, "tests", "integration"))
                   if f.startswith("test_") and f.endswith(".py"))
    suite = unittest.TestSuite()
    for n in names:
        try:
            mod = importlib.import_module("tests.integration." + n)
        except Exception:  # noqa
            continue
        suite.addTests(unittest.defaultTestLoader.loadTestsFromModule(mod))
    with open(os.devnull, "w") as dn:
        unittest.TextTestRunner(stream=dn, verbosity=0).run(suite)
    JMCTestPack.build = orig
    return out


def _setup_header(header_text, envs=None):
    from jmc.compile.header import Header
    from jmc.compile.test_compile import JMCTestPack
    from jmc.compile.compiling import read_header
    Header.clear()
    Header().envs = list(envs or [])
    if header_text is not None:
        p = JMCTestPack()
        read_header(p.config, _test_file=header_text)


def op_parse(req):
    from jmc.compile.tokenizer import Tokenizer
    from jmc.compile import exception as E
    res = []
    for j in req["jobs"]:
        signal.alarm(10)
        try:
            _setup_header(j.get("header"), j.get("envs"))
            t = Tokenizer.__new__(Tokenizer)
            t.macro_factory = None
            t.allow_semicolon = bool(j.get("allow_semicolon", False))
            t.raw_string = j["string"]
            t.file_string = j["string"]
            t.file_path = "main.jmc"
            progs = t.parse(j["string"], line=j.get("line", 1), col=j.get("col", 1),
                            expect_semicolon=bool(j.get("expect_semicolon", True)),
                            allow_last_missing_semicolon=bool(j.get("allow_last", False)))
            from jmc.compile.header import Header
            res.append({"ok": True, "programs": [[tok_json(x) for x in st] for st in progs],
                        "num": dict(Header().number_macros)})
        except _Timeout:
            res.append({"ok": False, "exc": "Timeout", "msg": ""})
        except BaseException as e:  # noqa
            signal.alarm(0)
            res.append({"ok": False, "exc": type(e).__name__, "msg": str(e)[:300].split("\n")[1] if "\n" in str(e) else str(e)[:300]})
        finally:
            signal.alarm(0)
    return res


def op_trace(req):
    from jmc.compile import tokenizer as T
    from jmc.compile import utils as U
    from jmc.compile.test_compile import JMCTestPack
    import jmc.compile.lexer_func_content as LFC
    import jmc.compile.header_parse as HP
    res = []
    orig_parse = T.Tokenizer.parse
    orig_conn = U.is_connected
    for j in req["jobs"]:
        calls, conns, seen = [], [], set()

        def parse(self, string, line, col, expect_semicolon, allow_last_missing_semicolon=False):
            allow_sc = bool(self.allow_semicolon)
            try:
                out = orig_parse(self, string, line, col, expect_semicolon, allow_last_missing_semicolon)
            except BaseException as e:  # noqa
                key = (string, line, col, expect_semicolon, allow_last_missing_semicolon, allow_sc)
                if key not in seen and not isinstance(e, _Timeout):
                    seen.add(key)
                    calls.append(dict(string=string, line=line, col=col, expect_semicolon=bool(expect_semicolon),
                                      allow_last=bool(allow_last_missing_semicolon), allow_semicolon=allow_sc,
                                      ok=False, exc=type(e).__name__))
                raise
            key = (string, line, col, expect_semicolon, allow_last_missing_semicolon, allow_sc)
            if key not in seen:
                seen.add(key)
                calls.append(dict(string=string, line=line, col=col, expect_semicolon=bool(expect_semicolon),
                                  allow_last=bool(allow_last_missing_semicolon), allow_semicolon=allow_sc,
                                  ok=True, programs=[[tok_json(x) for x in st] for st in out]))
            return out

        def is_connected(cur, prev):
            r = orig_conn(cur, prev)
            conns.append([tok_json(cur), tok_json(prev), bool(r)])
            return r

        T.Tokenizer.parse = parse
        for m in (U, T, LFC, HP):
            if hasattr(m, "is_connected"):
                m.is_connected = is_connected
        signal.alarm(int(j.get("timeout", 20)))
        try:
            p = JMCTestPack(namespace=j.get("namespace", "TEST"))
            p.set_jmc_file(j["src"])
            if j.get("header") is not None:
                p.set_header_file(j["header"])
            p.set_cert(j.get("cert") or FULL_CERT)
            if j.get("pack_format") is not None:
                p.set_pack_format(j["pack_format"])
            if j.get("envs"):
                p.set_envs(j["envs"])
            built = p.build().built
            r = {"ok": True, "files": built}
        except _Timeout:
            r = {"ok": False, "exc": "Timeout", "msg": ""}
        except BaseException as e:  # noqa
            signal.alarm(0)
            r = {"ok": False, "exc": type(e).__name__, "msg": str(e)[:500]}
        finally:
            signal.alarm(0)
            T.Tokenizer.parse = orig_parse
            for m in (U, T, LFC, HP):
                if hasattr(m, "is_connected"):
                    m.is_connected = orig_conn
        r["calls"] = calls
        r["conns"] = conns
        res.append(r)
    return res


def tok_full(t):
    """tok_json + quote character of a string token + (FUNC token) the text of the parameter bracket or None"""
    emb = getattr(t, "_embeded_data", None)
    return tok_json(t) + [getattr(t, "quote", "") or "", getattr(emb, "string", None) if emb is not None else None]


def op_args(req):
    """jobs = [{src, header?, ...}] -> compile each with
         * `clean_up_paren_token` wrapped in every module that uses it: each call with the DEFAULT keyword callback gives
           (token, is_nbt, resulting text | diagnostic class);
         * `PreFunction.handle_lazy` and `substitute_params` wrapped: each @lazy call gives, per parameter, the tokens of
           the argument bound to it (positional or keyword) and the TEXT that is substituted for `$param` in the body.
       Observed at interfaces only (handle_lazy's arguments, the replacement table handed to substitute_params), so that
       a refactoring of the private helper that computes the text does not blind the tie."""
    import inspect
    import jmc.compile.utils as U
    import jmc.compile.datapack as DP
    from jmc.compile.header import Header
    from jmc.compile.test_compile import JMCTestPack
    import importlib
    mods = []
    for name in ("jmc.compile.utils", "jmc.compile.tokenizer", "jmc.compile.header_parse", "jmc.compile.lexer_func_content",
                 "jmc.compile.command.nbt_operation", "jmc.compile.command._flow_control", "jmc.compile.command.utils",
                 "jmc.compile.datapack", "jmc.compile.command.condition", "jmc.compile.lexer",
                 "jmc.compile.command.builtin_function.execute_excluded"):
        try:
            mods.append(importlib.import_module(name))
        except Exception:  # noqa
            pass
    orig_clean = U.clean_up_paren_token
    default_cb = inspect.signature(orig_clean).parameters["keyword_token_callback"].default
    orig_subst = U.substitute_params
    orig_lazy = DP.PreFunction.handle_lazy
    res = []
    for j in req["jobs"]:
        cleans, lazies, seen = [], [], set()
        stack = []

        def clean(token, tokenizer, is_nbt=True, keyword_token_callback=default_cb):
            plain = keyword_token_callback is default_cb and not Header().macros
            try:
                out = orig_clean(token, tokenizer, is_nbt, keyword_token_callback)
            except _Timeout:
                raise
            except BaseException as e:  # noqa
                if plain:
                    key = json.dumps([tok_json(token), bool(is_nbt)])
                    if key not in seen:
                        seen.add(key)
                        cleans.append(dict(tok=tok_json(token), nbt=bool(is_nbt), ok=False, exc=type(e).__name__))
                raise
            if plain:
                key = json.dumps([tok_json(token), bool(is_nbt)])
                if key not in seen:
                    seen.add(key)
                    cleans.append(dict(tok=tok_json(token), nbt=bool(is_nbt), ok=True, text=out))
            return out

        def subst(string, replacements):
            if stack and stack[-1]["table"] is None:
                stack[-1]["table"] = dict(replacements)
            return orig_subst(string, replacements)

        def handle_lazy(self, args, kwargs, *a, **k):
            rec = dict(args=[[tok_full(t) for t in arg] for arg in args],
                       kwargs={key: [tok_full(t) for t in v] for key, v in kwargs.items()},
                       params=None, table=None, macros=bool(Header().macros))
            try:
                rec["params"] = list(self.tokenizer.parse_param(self.params))
            except BaseException:  # noqa
                pass
            stack.append(rec)
            try:
                return orig_lazy(self, args, kwargs, *a, **k)
            finally:
                stack.pop()
                lazies.append(rec)

        for m in mods:
            if getattr(m, "clean_up_paren_token", None) is orig_clean:
                m.clean_up_paren_token = clean
            if getattr(m, "substitute_params", None) is orig_subst:
                m.substitute_params = subst
        DP.PreFunction.handle_lazy = handle_lazy
        signal.alarm(int(j.get("timeout", 20)))
        try:
            p = JMCTestPack(namespace=j.get("namespace", "TEST"))
            p.set_jmc_file(j["src"])
            if j.get("header") is not None:
                p.set_header_file(j["header"])
            p.set_cert(j.get("cert") or FULL_CERT)
            if j.get("pack_format") is not None:
                p.set_pack_format(j["pack_format"])
            if j.get("envs"):
                p.set_envs(j["envs"])
            p.build()
            r = {"ok": True}
        except _Timeout:
            r = {"ok": False, "exc": "Timeout"}
        except BaseException as e:  # noqa
            signal.alarm(0)
            r = {"ok": False, "exc": type(e).__name__}
        finally:
            signal.alarm(0)
            for m in mods:
                if getattr(m, "clean_up_paren_token", None) is clean:
                    m.clean_up_paren_token = orig_clean
                if getattr(m, "substitute_params", None) is subst:
                    m.substitute_params = orig_subst
            DP.PreFunction.handle_lazy = orig_lazy
        # per parameter: the argument's tokens and the substituted text
        bound = []
        for rec in lazies:
            if rec["params"] is None or rec["table"] is None or rec["macros"]:
                continue
            for index, param in enumerate(rec["params"]):
                toks = rec["kwargs"].get(param)
                form = "keyword"
                if toks is None:
                    if index >= len(rec["args"]):
                        continue
                    toks, form = rec["args"][index], "positional"
                if "$" + param in rec["table"]:
                    bound.append(dict(tokens=toks, text=rec["table"]["$" + param], form=form))
        r["cleans"] = cleans
        r["lazy_calls"] = len(lazies)
        r["lazy_observed"] = sum(1 for rec in lazies if rec["table"] is not None)
        r["bound"] = bound
        res.append(r)
    return res


def op_calc(req):
    """jobs = [{num: [[name, value], ...] (insertion order), expr: text between the parentheses}] -> what
    hardcode_parse_calc hands to the evaluator for `Hardcode.calc(<expr>)` ({"ok": True, "text": ...}) or the diagnostic."""
    from jmc.compile.header import Header
    from jmc.compile.tokenizer import Tokenizer, Token, TokenType
    import jmc.compile.command.utils as CU
    seen = []
    orig = CU.eval_expr

    def capture(expr):
        seen.append(expr)
        return "0"

    CU.eval_expr = capture
    res = []
    try:
        for j in req["jobs"]:
            Header.clear()
            Header().number_macros = {k: v for k, v in j["num"]}
            t = Tokenizer.__new__(Tokenizer)
            t.macro_factory = None
            t.allow_semicolon = False
            t.raw_string = t.file_string = "Hardcode.calc(" + j["expr"] + ")"
            t.file_path = "main.jmc"
            tok = Token(TokenType.KEYWORD, 1, 1, "Hardcode.calc")
            del seen[:]
            try:
                CU.hardcode_parse_calc(0, t.raw_string, tok, t)
                res.append({"ok": True, "text": seen[0] if seen else None})
            except BaseException as e:  # noqa
                res.append({"ok": False, "exc": type(e).__name__, "msg": str(e)[:200]})
    finally:
        CU.eval_expr = orig
        Header.clear()
    return res


def op_order(req):
    from jmc.compile.expression_eval import CustomOrder
    out = []
    for a, b in req["pairs"]:
        try:
            out.append(bool(CustomOrder(a[0], a[1], a[2], is_left_precedence=bool(a[3])) <
                            CustomOrder(b[0], b[1], b[2], is_left_precedence=bool(b[3]))))
        except BaseException as e:  # noqa
            out.append(None)
    return out


def main():
    import logging
    logging.disable(logging.CRITICAL)
    signal.signal(signal.SIGALRM, _alarm)
    req = json.load(sys.stdin)
    real_stdout = sys.stdout
    sys.stdout = open(os.devnull, "w")
    out = {"corpus": op_corpus, "parse": op_parse, "trace": op_trace,
           "has_end": lambda r: has_macro_end(), "order": op_order, "probe": op_probe, "calc": op_calc, "args": op_args}[req["op"]](req)
    sys.stdout = real_stdout
    json.dump(out, sys.stdout)


if __name__ == "__main__":
    main()
