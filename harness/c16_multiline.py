"""C16 strengthening round 5: uses of a `#define` WITH PARAMETERS whose argument list is spread over several lines,
followed by a token that is glued to / separated from the closing `)`.

Tokenizer.__end_macro gives the last token of the expansion the END of the replaced argument bracket (Token.end =
the true (line, col) after `)`); adjacency with the following token (utils.is_connected) is decided from it.  For a
bracket that contains a newline that end is NOT (line, col + length).  The pairs below put every kind of following
token (`.word`, `[..]`, `{..}`, keyword, number, `;`, `)` of an enclosing bracket, another macro use) directly after /
one blank after / on the line after a multi-line `)`, over several layouts of the argument list.

oracle: metamorphic (program with the macro + header == the hand expansion, with the same glue after it) and, for the
token tie, the independent statement "the expansion's last token ends where the bracket's text ends" computed from
the use-site text only (`text_end`)."""
from __future__ import annotations

PRE = 'function foo() { say "foo"; }\n'

# (id, header, [args], expansion text, kind)  kind: which statement templates fit
MACROS = [
    ("store2", "#define STORE(a, b) a:b", ["my", "root"], "my:root", "path"),
    ("store1", "#define ST(a) my:a", ["root"], "my:root", "path"),
    ("sel", "#define WHO(t) t[type=pig]", ["@e"], "@e[type=pig]", "sel"),
    ("block", "#define BLK(n) minecraft:n", ["chest"], "minecraft:chest", "block"),
    ("obj", "#define OBJ(a, b) a b", ["@s", "kills"], "@s kills", "score"),
    ("num", "#define NUM(a) a", ["5"], "5", "num"),
    ("item", "#define IT(a, b) a b", ["@s", "stone"], "@s stone", "item"),
]

# layouts of the argument list: function(args) -> text between the macro name and what follows (starts with `(`)
LAYOUTS = {
    "each_line": lambda a: "(\n    " + ",\n    ".join(a) + "\n)",
    "close_same": lambda a: "(\n    " + ",\n    ".join(a) + ")",
    "open_same": lambda a: "(" + ",\n        ".join(a) + "\n  )",
    "crlf_blank": lambda a: "(\n\n " + " ,\n\n ".join(a) + "\n\n      )",
    "long_first": lambda a: "(  " + ",  ".join(a) + "            \n)",
    "one_line": lambda a: "(" + ", ".join(a) + ")",
}

# statement templates by kind; {M} = macro use or hand expansion, {G} = glue (``, ` `, newline+indent)
SITES = {
    "path": [
        ("path_dot", "data get storage {M}{G}.sub.field;"),
        ("path_index", "data get storage {M}{G}[0].a;"),
        ("path_nbt", "data get storage {M}{G}{{a:1}}.b;"),
        ("path_word", "data get storage {M}{G}sub;"),
        ("path_num", "data get storage {M}{G}1;"),
    ],
    "sel": [
        ("sel_dot", "data get entity {M}{G}.Pos;"),
        ("sel_word", "tp {M}{G}~ ~ ~;"),
        ("sel_semicolon", "kill {M}{G};"),
    ],
    "selbare": [
        ("selb_bracket", "kill {M}{G}[type=pig];"),
        ("selb_dot", "data get entity {M}{G}[limit=1].Pos;"),
        ("selb_word", "tag {M}{G}add x;"),
    ],
    "block": [
        ("block_state", "setblock ~ ~ ~ {M}{G}[facing=north];"),
        ("block_nbt", "setblock ~ ~ ~ {M}{G}{{Lock:\"a\"}};"),
        ("block_keyword", "setblock ~ ~ ~ {M}{G}replace;"),
    ],
    "score": [
        ("score_number", "scoreboard players set {M}{G}7;"),
    ],
    "num": [
        ("num_nested", "scoreboard players set @s kills {M}{G}0;"),
    ],
    "item": [
        ("item_nbt", "give {M}{G}{{a:1}} 2;"),
        ("item_count", "give {M}{G}3;"),
        ("item_bracket", "give {M}{G}[custom_data={{a:1}}];"),
    ],
}
GLUES = [("glued", ""), ("blank", " "), ("next_line", "\n      ")]


def text_end(text: str, line: int, col: int):
    """(line, col) right after `text` that starts at (line, col) - the end of the replaced bracket"""
    nl = text.count("\n")
    if nl == 0:
        return (line, col + len(text))
    return (line + nl, len(text) - text.rfind("\n"))


def cases():
    """-> list of dict(id, header, use, exp, site, layout, glue, stmt_a, stmt_b)"""
    out = []
    for mid, header, args, exp, kind in MACROS:
        key = header.split()[1].split("(")[0]
        for lid, lay in LAYOUTS.items():
            use = key + lay(args)
            for sid, tmpl in SITES[kind]:
                for gid, g in GLUES:
                    if lid == "one_line" and gid != "glued":
                        continue
                    out.append(dict(id=mid, header=header, use=use, exp=exp, site=sid, layout=lid, glue=gid,
                                    stmt_a=tmpl.format(M=use, G=g), stmt_b=tmpl.format(M=exp, G=g)))
    # nested uses: the multi-line bracket of an outer macro contains a multi-line use of an inner one
    hdr = "#define STORE(a, b) a:b\n#define ID(x) x"
    for gid, g in GLUES:
        for lid in ("each_line", "close_same", "crlf_blank"):
            inner = "ID" + LAYOUTS[lid](["root"])
            use = "STORE" + LAYOUTS[lid](["my", inner])
            out.append(dict(id="nested", header=hdr, use=use, exp="my:root", site="path_dot", layout=lid, glue=gid,
                            stmt_a="data get storage %s%s.sub.field;" % (use, g),
                            stmt_b="data get storage my:root%s.sub.field;" % g))
            use2 = "ID" + LAYOUTS[lid](["my:root"])
            out.append(dict(id="two_uses", header=hdr, use=use2, exp="my:root", site="path_then_macro", layout=lid, glue=gid,
                            stmt_a="data modify storage %s%s.a set from storage %s%s.b;" % (use2, g, use2, g),
                            stmt_b="data modify storage my:root%s.a set from storage my:root%s.b;" % (g, g)))
    return out


def pairs(stats: dict):
    ps = []
    for c in cases():
        a = PRE + "function t() {\n  %s\n}\n" % c["stmt_a"]
        b = PRE + "function t() {\n  %s\n}\n" % c["stmt_b"]
        stats["layout:" + c["layout"]] = stats.get("layout:" + c["layout"], 0) + 1
        stats["after:" + c["glue"]] = stats.get("after:" + c["glue"], 0) + 1
        ps.append(dict(macro="multiline-arguments", use=c["site"], l=-1, r=-1, header=c["header"], envs=[], a=a, b=b,
                       layout=c["layout"], glue=c["glue"]))
    return ps


def end_jobs(rng):
    """token-level tie: `KEY(<multi-line args>)` tokenised by the real tokenizer at (line, col); the last token of the
    expansion must carry _macro_end == text_end(use) - checked in Python against the text only."""
    jobs, want = [], []
    seen = set()
    for c in cases():
        if c["id"] in ("nested", "two_uses") or (c["id"], c["layout"]) in seen:
            continue
        seen.add((c["id"], c["layout"]))
        line, col = rng.choice([1, 3, 7]), rng.choice([1, 5, 12])
        jobs.append(dict(string=c["use"], line=line, col=col, expect_semicolon=False, allow_last=False, header=c["header"]))
        want.append(text_end(c["use"], line, col))
    return jobs, want
