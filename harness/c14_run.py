"""Runs the real JMC compiler with `Tokenizer.parse` wrapped, recording every (re-)tokenisation.

Executed with /venv/bin/python and PYTHONPATH=<repo>/src (harness/lib.py: run_py).
stdin : JSON list of jobs {src, header?, cert?, pack_format?, trace?: bool (default true), timeout?}
stdout: JSON list of
   {"ok": bool, "exc", "jmc", "msg", "frame",           -- outcome of the whole compile (as jmc_run.py)
    "cited": [line, col] | [line, null] | null,          -- position cited by the diagnostic text
    "file_strings": [str, ...],
    "calls": [ {"fs": index into file_strings, "string", "line", "col", "es", "alms", "allow_semi",
                "macros": bool (header macros defined -> outside the Tok model),
                "out": {"kind": "ok", "programs": [[[type, line, col, string, quote], ...], ...]}
                     | {"kind": "exc", "exc": class name, "jmc": bool, "tl": tokenizer.line, "tc": tokenizer.col,
                        "cited": [line, col|null] | null} } ...] }
    "derived": [ {"fn": entry point, "fs": index, "macros": bool, "inner": index into calls of the first
                  Tokenizer.parse call made by this entry point (or null), "in": [token...], "out": [token...]} ...] }
    "raw_handovers": [ {"api": "PreFunction"|"parse_class_content", "fs", "content", "line", "col", "macros"} ...]
    "error_msgs": [ {"token": token | null, "tl", "tc" (tokenizer.line / col), "cl" (col_length), "dcl", "el" (entire_line),
                     "head": first line of the text error_msg returned (`In <file>:<line>[:<col>]`),
                     "tail": what follows the message on its line (` at line L col C.`), "message", "fs", "macros"} ...]
      -- strengthening round 3: every call of exception.error_msg
      -- strengthening round 4: each error_msg record also holds "site": [file, line, function] of the frame that built the
         exception (the raise site), "tend": Token.end, "tlen": Token.length, "trec": the end position the tokenizer recorded
         for a string literal (Token._macro_end; null on a tree without fixes/C14-string-literal-end.patch);
         each Tokenizer.parse record holds "ends": [[line, col, end_line, end_col, length], ...] of its STRING tokens;
         each "derived" record of parse_func_args / parse_list / parse_js_obj / parse_component / parse_param holds "res"
         (the structure returned) or "err" {"message", "token"} (the JMC diagnostic it raised)
      -- strengthening round 2: bodies handed over as raw source text by construction (functions, methods, decorated and
         @lazy functions, classes): content must sit at (line, col) of file_string
      -- strengthening round 1: every OTHER tokenizer entry point that builds tokens from tokens
         (parse_func_args, parse_list, parse_js_obj, parse_component, merge_tokens, split_keyword_token,
         merge_vanilla_macro); token = [type, line, col, string, quote]
Nothing of jmc is edited: the wrapper is installed from this process (no hooks in /repo).
"""
import json
import os
import re
import signal
import sys
import traceback

CITED = re.compile(r" at line (\d+)(?: col (\d+))?\.")


class _Timeout(BaseException):
    pass


def _alarm(signum, frame):
    raise _Timeout()


def innermost_jmc_frame(tb):
    frames = traceback.extract_tb(tb)
    for fr in reversed(frames):
        if "/jmc/" in fr.filename:
            return [os.path.basename(fr.filename), fr.name, fr.lineno]
    return None


def cited_of(msg: str):
    m = CITED.search(msg or "")
    if not m:
        return None
    return [int(m.group(1)), int(m.group(2)) if m.group(2) else None]


def main():
    import logging
    logging.disable(logging.CRITICAL)
    from jmc.compile.test_compile import JMCTestPack
    from jmc.compile import tokenizer as T
    from jmc.compile.exception import EXCEPTIONS
    from jmc.compile.header import Header

    state = {"calls": None, "fs": None, "fs_idx": None, "derived": None, "raw": None, "errs": None}
    orig_parse = T.Tokenizer.parse

    def tok_list(programs):
        return [[[t.token_type.name, t.line, t.col, t.string, t.quote] for t in stmt] for stmt in programs]

    def parse(self, string, line, col, expect_semicolon, allow_last_missing_semicolon=False):
        if state["calls"] is None:
            return orig_parse(self, string, line, col, expect_semicolon, allow_last_missing_semicolon)
        fs = getattr(self, "file_string", None)
        if fs is None:
            fs = string
        if fs not in state["fs_idx"]:
            state["fs_idx"][fs] = len(state["fs"])
            state["fs"].append(fs)
        rec = {"fs": state["fs_idx"][fs], "string": string, "line": line, "col": col,
               "es": bool(expect_semicolon), "alms": bool(allow_last_missing_semicolon),
               "allow_semi": bool(self.allow_semicolon), "macros": bool(Header().macros)}
        state["calls"].append(rec)
        try:
            res = orig_parse(self, string, line, col, expect_semicolon, allow_last_missing_semicolon)
        except _Timeout:
            raise
        except BaseException as e:  # noqa
            rec["out"] = {"kind": "exc", "exc": type(e).__name__, "jmc": isinstance(e, EXCEPTIONS),
                          "tl": self.line, "tc": self.col, "cited": cited_of(str(e))}
            raise
        rec["out"] = {"kind": "ok", "programs": tok_list(res)}
        try:
            rec["ends"] = [[t.line, t.col] + list(t.end) + [t.length] + [getattr(t, "_macro_end", None) is not None]
                           for stmt in res for t in stmt if t.token_type.name == "STRING"]
        except Exception:  # noqa
            rec["ends"] = None
        return res

    T.Tokenizer.parse = parse

    # ---- the other entry points: tokens built from tokens
    def tk(t):
        return [t.token_type.name, t.line, t.col, t.string, t.quote]

    def fs_index(self):
        fs = getattr(self, "file_string", None)
        if fs is None:
            return None
        if fs not in state["fs_idx"]:
            state["fs_idx"][fs] = len(state["fs"])
            state["fs"].append(fs)
        return state["fs_idx"][fs]

    def flat(x):
        """every Token inside a result (token | list | tuple | dict of those), in order"""
        if isinstance(x, T.Token):
            return [x]
        if isinstance(x, dict):
            return [t for v in x.values() for t in flat(v)]
        if isinstance(x, (list, tuple)):
            return [t for v in x for t in flat(v)]
        return []

    def wrap(name, ins, outs):
        orig = getattr(T.Tokenizer, name)

        def wrapper(self, *a, **kw):
            if state["derived"] is None or len(state["derived"]) > 20000:
                return orig(self, *a, **kw)
            n0 = len(state["calls"]) if state["calls"] is not None else None
            try:
                in_toks = [tk(t) for t in ins(a, kw)]
            except Exception:  # noqa
                return orig(self, *a, **kw)
            try:
                res = orig(self, *a, **kw)
            except EXCEPTIONS as e:
                try:
                    tok = getattr(e, "token", None)
                    rec = {"fn": name, "fs": fs_index(self), "macros": bool(Header().macros),
                           "inner": n0 if n0 is not None and len(state["calls"]) > n0 else None,
                           "in": in_toks, "out": [],
                           "err": {"message": str(getattr(e, "message", ""))[:200], "token": None if tok is None else tk(tok),
                                   "has_token": hasattr(e, "token")}}
                    if rec["fs"] is not None:
                        state["derived"].append(rec)
                except Exception:  # noqa
                    pass
                raise
            try:
                rec = {"fn": name, "fs": fs_index(self), "macros": bool(Header().macros),
                       "inner": n0 if n0 is not None and len(state["calls"]) > n0 else None,
                       "in": in_toks, "out": [tk(t) for t in outs(a, kw, res)]}
                if name == "parse_func_args":
                    rec["kwargs"] = {k: [tk(t) for t in v] for k, v in res[1].items()}
                    rec["res"] = {"args": [[tk(t) for t in g] for g in res[0]], "kwargs": [[k, [tk(t) for t in v]] for k, v in res[1].items()]}
                elif name == "parse_list":
                    rec["res"] = {"list": [tk(t) for t in res]}
                elif name in ("parse_js_obj", "parse_component"):
                    rec["res"] = {"dict": [[k, tk(v)] for k, v in res.items()]}
                elif name == "parse_param":
                    rec["res"] = {"params": list(res)}
                if rec["fs"] is not None:
                    state["derived"].append(rec)
            except Exception:  # noqa
                pass
            return res
        setattr(T.Tokenizer, name, wrapper)

    def first_arg(a, kw, key):
        return a[0] if a else kw[key]

    for nm in ("parse_func_args", "parse_list", "parse_js_obj", "parse_component", "parse_param"):
        if hasattr(T.Tokenizer, nm):
            wrap(nm, lambda a, kw: [first_arg(a, kw, "token")], lambda a, kw, res: flat(res))
    if hasattr(T.Tokenizer, "merge_tokens"):
        wrap("merge_tokens", lambda a, kw: list(first_arg(a, kw, "tokens")), lambda a, kw, res: flat(res))
    if hasattr(T.Tokenizer, "split_keyword_token"):
        wrap("split_keyword_token", lambda a, kw: [first_arg(a, kw, "token")], lambda a, kw, res: flat(res))
    if hasattr(T.Tokenizer, "merge_vanilla_macro"):
        def mvm_in(a, kw):
            toks = first_arg(a, kw, "tokens")
            k = a[1] if len(a) > 1 else kw["key_pos"]
            return list(toks[k:k + 3])

        def mvm_out(a, kw, res):
            toks = first_arg(a, kw, "tokens")
            k = a[1] if len(a) > 1 else kw["key_pos"]
            return [toks[k]]
        wrap("merge_vanilla_macro", mvm_in, mvm_out)
    # ---- strengthening round 2: the hand-overs that are RAW SOURCE TEXT by construction (body of a function / method /
    # decorated / @lazy function: PreFunction.__init__; body of a class: Lexer.parse_class_content): content, line, col, file_string
    def record_raw(api, content, line, col, fs):
        if state["raw"] is None or not isinstance(content, str) or not isinstance(fs, str):
            return
        if fs not in state["fs_idx"]:
            state["fs_idx"][fs] = len(state["fs"])
            state["fs"].append(fs)
        state["raw"].append({"api": api, "fs": state["fs_idx"][fs], "content": content, "line": line, "col": col,
                             "macros": bool(Header().macros)})

    def bind_args(orig, a, kw):
        import inspect
        try:
            return inspect.signature(orig).bind(*a, **kw).arguments
        except TypeError:
            return {}

    try:
        from jmc.compile import datapack as D
        orig_pf_init = D.PreFunction.__init__

        def pf_init(self, *a, **kw):
            orig_pf_init(self, *a, **kw)
            try:
                record_raw("PreFunction", self.func_content, self.line, self.col, self.file_string)
            except Exception:  # noqa
                pass
        D.PreFunction.__init__ = pf_init
    except Exception:  # noqa
        pass
    try:
        from jmc.compile import lexer as L
        orig_pcc = L.Lexer.parse_class_content

        def pcc(self, *a, **kw):
            b = bind_args(orig_pcc, (self,) + a, kw)
            if b:
                record_raw("parse_class_content", b.get("class_content"), b.get("line"), b.get("col"), b.get("file_string"))
            return orig_pcc(self, *a, **kw)
        L.Lexer.parse_class_content = pcc
    except Exception:  # noqa
        pass
    # ---- strengthening round 3: every call of exception.error_msg (the function that writes the header `In file:L:C` and the
    # sentence `<message> at line L col C.` of every diagnostic): the token it is given, its flags and the first two lines it wrote
    try:
        from jmc.compile import exception as X
        orig_em = X.error_msg

        def em(message, token, tokenizer, col_length, display_col_length, entire_line, *a, **kw):
            msg = orig_em(message, token, tokenizer, col_length, display_col_length, entire_line, *a, **kw)
            try:
                if state["errs"] is not None and len(state["errs"]) < 50:
                    fs = getattr(tokenizer, "file_string", None)
                    if isinstance(fs, str) and fs not in state["fs_idx"]:
                        state["fs_idx"][fs] = len(state["fs"])
                        state["fs"].append(fs)
                    head = msg.split("\n", 1)[0]                 # `In <file>:<line>[:<col>]`
                    rest = msg[len(head) + 1:]
                    tail = rest[len(message):].split("\n", 1)[0] if isinstance(message, str) and rest.startswith(message) else None
                    site = None
                    try:
                        fr = sys._getframe(1)
                        while fr is not None and os.path.basename(fr.f_code.co_filename) == "exception.py":
                            fr = fr.f_back
                        if fr is not None:
                            fn_ = fr.f_code.co_filename
                            k_ = fn_.rfind("/jmc/")
                            site = [fn_[k_ + 5:] if k_ >= 0 else os.path.basename(fn_), fr.f_lineno, fr.f_code.co_name]
                    except Exception:  # noqa
                        site = None
                    tend = tlen = trec = None
                    if token is not None:
                        try:
                            tend, tlen = list(token.end), token.length
                            trec = getattr(token, "_macro_end", None)
                            trec = list(trec) if trec is not None else None
                        except Exception:  # noqa
                            pass
                    state["errs"].append({
                        "site": site, "tend": tend, "tlen": tlen, "trec": trec,
                        "token": None if token is None else tk(token), "tl": getattr(tokenizer, "line", None),
                        "tc": getattr(tokenizer, "col", None), "cl": bool(col_length), "dcl": bool(display_col_length),
                        "el": bool(entire_line), "head": head, "tail": tail, "message": str(message)[:200],
                        "fs": state["fs_idx"].get(fs) if isinstance(fs, str) else None, "macros": bool(Header().macros)})
            except Exception:  # noqa
                pass
            return msg
        X.error_msg = em
    except Exception:  # noqa
        pass
    # ---- strengthening round 5: every construction of exception.JMCDecodeJSONError (its own position arithmetic, not error_msg):
    # the token, json's (lineno, colno, pos), whether json was given the token's text, and the message it wrote
    try:
        from jmc.compile import exception as X5
        orig_jinit = X5.JMCDecodeJSONError.__init__

        def jinit(self, error, token, tokenizer, *a, **kw):
            orig_jinit(self, error, token, tokenizer, *a, **kw)
            try:
                if state.get("jerrs") is not None and len(state["jerrs"]) < 20:
                    fs = getattr(tokenizer, "file_string", None)
                    if isinstance(fs, str) and fs not in state["fs_idx"]:
                        state["fs_idx"][fs] = len(state["fs"])
                        state["fs"].append(fs)
                    state["jerrs"].append({
                        "token": tk(token), "lineno": error.lineno, "colno": error.colno, "pos": error.pos,
                        "doc_is_token": error.doc == token.string, "msg": str(self)[:600], "cited": cited_of(str(self)),
                        "fs": state["fs_idx"].get(fs) if isinstance(fs, str) else None, "macros": bool(Header().macros)})
            except Exception:  # noqa
                pass
        X5.JMCDecodeJSONError.__init__ = jinit
    except Exception:  # noqa
        pass
    signal.signal(signal.SIGALRM, _alarm)
    jobs = json.load(sys.stdin)
    real_stdout = sys.stdout
    sys.stdout = open(os.devnull, "w")
    out = []
    for job in jobs:
        trace = job.get("trace", True)
        state["calls"] = [] if trace else None
        state["derived"] = [] if trace else None
        state["raw"] = [] if trace else None
        state["errs"] = [] if trace else None
        state["jerrs"] = [] if trace else None
        state["fs"], state["fs_idx"] = [], {}
        signal.alarm(int(job.get("timeout", 10)))
        try:
            p = JMCTestPack(namespace=job.get("namespace", "TEST"))
            p.set_jmc_file(job["src"])
            if job.get("header") is not None:
                p.set_header_file(job["header"])
            if job.get("cert") is not None:
                p.set_cert(job["cert"])
            if job.get("pack_format") is not None:
                p.set_pack_format(job["pack_format"])
            p.build()
            r = {"ok": True, "exc": None, "jmc": None, "msg": "", "frame": None, "cited": None}
        except _Timeout:
            r = {"ok": False, "exc": "Timeout", "jmc": False, "msg": "", "frame": None, "cited": None}
        except BaseException as e:  # noqa
            signal.alarm(0)
            r = {"ok": False, "exc": type(e).__name__, "jmc": isinstance(e, EXCEPTIONS), "msg": str(e)[:3000],
                 "frame": innermost_jmc_frame(e.__traceback__), "cited": cited_of(str(e))}
        finally:
            signal.alarm(0)
        r["calls"] = state["calls"] or []
        r["derived"] = state["derived"] or []
        r["raw_handovers"] = state["raw"] or []
        r["error_msgs"] = state["errs"] or []
        r["json_errs"] = state["jerrs"] or []
        r["file_strings"] = state["fs"]
        out.append(r)
    sys.stdout = real_stdout
    json.dump(out, sys.stdout)


if __name__ == "__main__":
    main()
