"""C16, strengthening round 4: generators for
  (g) `#enum` numbering      - enum_pairs: headers with no start / explicit 0 / 00 / positive / large starts, 1..6 members
                               (number-like, dotted, repeated, sign-like names), every kind of use site; the hand
                               expansion substitutes the values of enum_table (= Model.MacroEnum.enum_value: start + index
                               of the LAST member of that name, start = 0 iff none is written), never jmc's.
  (h) Hardcode.calc scope    - body_pairs: Hardcode.repeat / repeatList / repeatLists / switch / @lazy bodies with text
                               before / between / after one or several Hardcode.calc( ), macro names as whole tokens
                               (replaced), inside string literals, longer words, `$`-variables (left alone), number
                               macros (#define, #enum, #env) and object-like ones;
                               body_ties: body texts for the Coq tie with Model.MacroScope.calc_all.
  side finding               - nested_pairs: a macro used inside another macro's body, glued / spaced to what follows.
All randomness from the rng given."""
from __future__ import annotations

PRE = 'function foo() { say "foo"; }\n'

# --------------------------------------------------------------------------- (g) #enum

CLASSES = ["Slot", "Lvl", "E", "Color", "Team", "Phase", "e2"]
MEMBERS = ["HEAD", "CHEST", "LEGS", "FEET", "LOW", "MID", "HIGH", "RED", "GREEN", "BLUE", "A", "B", "AB",
           "7", "0", "10", "1st", "a.b", "x.y.z", "HEAD2", "_", "head"]
STARTS = [None, None, None, "0", "0", "0", "00", "1", "2", "5", "10", "100", "007", "2147483000", "99999999999"]


def enum_table(lines):
    """THE independent expansion.  lines = [(class, start text | None, [member names])] -> {key: value}"""
    table = {}
    for cls, start, names in lines:
        v = int(start) if start is not None else 0
        for i, n in enumerate(names):
            table[cls + "." + n] = v + i          # a repeated name: the last one counts
    return table


def enum_line_text(cls, start, names, rng):
    sp = lambda: rng.choice([" ", " ", " ", "  ", "\t"])
    out = "#enum" + sp() + cls
    if start is not None:
        out += sp() + start
    glue = False
    for n in names:
        out += ("" if glue else sp()) + n
        glue = n == "-"                      # `-5` : the operator `-` and the word `5` - two members, no start
    return out


def random_enum(rng, stats, cls=None):
    cls = cls or rng.choice(CLASSES)
    start = rng.choice(STARTS)
    k = rng.choice([1, 2, 3, 3, 4, 5, 6])
    names = rng.sample(MEMBERS, k)
    shape = "plain"
    x = rng.random()
    if x < 0.12 and k >= 2:
        names[rng.randrange(1, k)] = names[0]            # repeated member
        shape = "repeated"
    elif x < 0.2 and start is None:
        names = ["-", rng.choice(["5", "0", "12"])] + names[:4]   # looks like a negative start; is two members
        shape = "sign_like"
    elif x < 0.3 and start is not None:
        names[0] = rng.choice(["0", "7", "10"])          # a number right after the start
        shape = "number_after_start"
    if start is None and names[0].isdigit():
        # a number directly after the class name IS the start: without a start the first member must not look like one
        names[0] = "m" + names[0]
    kind = ("none" if start is None else "zero" if int(start) == 0 else "large" if int(start) > 1000 else "positive")
    stats["start:" + kind] = stats.get("start:" + kind, 0) + 1
    stats["members:%d" % len(names)] = stats.get("members:%d" % len(names), 0) + 1
    stats["shape:" + shape] = stats.get("shape:" + shape, 0) + 1
    return cls, start, names


# {A} {B}: two members (replaced by their values in the hand expansion); {LO} {HI}: two members ordered by value;
# {tA}: the TEXT of A's name, never replaced
ENUM_SITES = {
    "assign": "$x = {A};",
    "operand": "$x += {A}; $y -= {B};",
    "cond_eq": 'if ($x == {A}) {{ say "y"; }}',
    "cond_ge": 'if ($x >= {A} && $y < {B}) {{ say "y"; }} else {{ say "n"; }}',
    "matches_hi_number": 'if ($x matches {A}..2147483647) {{ say "y"; }}',
    "matches_range": 'if ($x matches {LO}..{HI}) {{ say "y"; }}',
    "matches_two": 'if ($x matches {LO}..{HI} || $y matches 0..{A}) {{ say "y"; }}',
    "matches_spaced": 'if ($x matches {LO} .. {HI}) {{ say "y"; }}',
    "matches_number_lo": 'if ($x matches 0..{A}) {{ say "y"; }}',
    "repeat_start_stop": 'Hardcode.repeat((i)=>{{ say "$i"; }}, start={LO}, stop={HI});',
    "repeat_stop": 'Hardcode.repeat((i)=>{{ $v = $i; }}, start=Hardcode_START, stop={A});',
    "calc": "Hardcode.repeat((i)=>{{ $x = Hardcode.calc($i*10+{A}); }}, start=0, stop=2);",
    "calc_two": "Hardcode.repeat((i)=>{{ tp @s ~ Hardcode.calc({A}*100+{B}) ~; }}, start=0, stop=1);",
    "calc_text_after": 'Hardcode.repeat((i)=>{{ $x = Hardcode.calc({A}+$i); say "{tA} {tB}"; $n{tA} = {B}; }}, start=0, stop=2);',
    "lazy_calc": "LAZY(i) {{ $x = Hardcode.calc($i+{A}); $y = {B}; }}",
    "cmd_arg": "scoreboard players set @s obj {A};",
    "tp": "tp @s ~ {A} ~;",
    "effect": "effect give @a speed {A} {B} true;",
    "func_arg": "$r = Math.random({LO}, {HI});",
    "nbt": "data modify storage a:b x set value {{v:{A},w:[{A},{B}]}};",
    "json": 'tellraw @a {{"text":"a","extra":[{A}]}};',
    "selector": "kill @e[limit={A},type=pig];",
    "scores": "kill @e[scores={{obj={A}}}];",
    "nbt_index": "$x = @s::arr[{A}];",
    "exec_matches": 'execute if score @s obj matches {LO}..{HI} run say "x";',
    "expr": "$x := $y * {A} + {B};",
    "left_alone": 'say "{tA}"; tellraw @a "{tA} = {tB}"; $v = {A}; scoreboard players set x{tA} obj {B};',
    "glued": "$x={A};$y+={B};",
}


def enum_pairs(rng, n, stats):
    pairs = []
    sites = sorted(ENUM_SITES)
    while len(pairs) < n:
        lines = [random_enum(rng, stats)]
        x = rng.random()
        if x < 0.15:                                  # a second enum of another class
            other = rng.choice([c for c in CLASSES if c != lines[0][0]])
            lines.append(random_enum(rng, stats, other))
        elif x < 0.25:                                # the same class again: later members override
            lines.append(random_enum(rng, stats, lines[0][0]))
            stats["same_class_twice"] = stats.get("same_class_twice", 0) + 1
        table = enum_table(lines)
        usable = [k for k in table if not any(c in k for c in "-")]
        if len(usable) < 1:
            continue
        a = rng.choice(usable)
        b = rng.choice(usable)
        lo, hi = sorted([a, b], key=lambda k: table[k])
        sid = sites[len(pairs) % len(sites)]
        if sid in ("matches_range", "repeat_start_stop", "func_arg", "matches_two", "matches_spaced", "exec_matches"):
            if table[lo] == table[hi] or table[hi] - table[lo] > 8:
                cand = [(p, q) for p in usable for q in usable if 0 < table[q] - table[p] <= 8]
                if not cand:
                    continue
                lo, hi = rng.choice(cand)
        tpl = ENUM_SITES[sid]
        if sid == "repeat_stop":
            if table[a] > 10 ** 6:
                continue
            tpl = tpl.replace("Hardcode_START", str(max(0, table[a] - 2)))
        header = "\n".join(enum_line_text(c, s, ns, rng) for c, s, ns in lines)

        def fill(val):
            body = tpl.format(A=val(a), B=val(b), LO=val(lo), HI=val(hi), tA=a, tB=b)
            if body.startswith("LAZY"):
                return "@lazy function lz" + body[4:] + "\nfunction t() { lz(4); lz(1); }\n"
            return "function t() { " + body + " }\n"
        stats["site:" + sid] = stats.get("site:" + sid, 0) + 1
        pairs.append(dict(macro="enum-numbering", use=sid, l=-1, r=-1, header=header, envs=[],
                          a=PRE + fill(lambda k: k), b=PRE + fill(lambda k: str(table[k])),
                          rel=dict(table={k: table[k] for k in (a, b)})))
    return pairs


def enum_headers(rng, n, stats):
    """(header text, use-site line) for the token-stream / number_macros tie"""
    out = []
    fixed = [("Slot", "0", ["HEAD", "CHEST", "LEGS"]), ("Slot", "00", ["HEAD"]), ("E", "0", ["0", "A"]), ("E", None, ["-", "5", "A", "B"]),
             ("E", "0", ["A", "B", "A"]), ("Lvl", "2147483647", ["LOW", "HIGH"]), ("E", None, ["A", "7", "a.b"]), ("e2", "1", ["x"])]
    for k in range(n):
        cls, start, names = fixed[k] if k < len(fixed) else random_enum(rng, stats)
        lines = [(cls, start, names)]
        if k >= len(fixed) and rng.random() < 0.2:
            lines.append(random_enum(rng, stats, cls if rng.random() < 0.5 else "Other"))
        header = "\n".join(enum_line_text(c, s, ns, rng) for c, s, ns in lines)
        keys = list(enum_table(lines))
        use = " ".join(rng.sample(keys, min(len(keys), 4))) + " " + cls + "." + (start or "0") + " x" + keys[0] + " " + keys[-1] + "x;"
        out.append((header, use))
        out.append((header, "$x = %s; say \"%s\"; if ($y matches %s..) { a; }" % (keys[0], keys[0], keys[-1])))
    return out


# --------------------------------------------------------------------------- (h) bodies with Hardcode.calc

NUM_NAMES = ["N", "SIZE", "MAX", "K", "W", "LIMIT", "n", "ROWS"]
ENUMS = [("Team", ["RED", "BLUE", "GREEN"]), ("Lvl", ["LOW", "MID", "HIGH"]), ("Slot", ["HEAD", "CHEST"])]
ENVS = ["DEBUG", "DEV", "FAST"]
OBJ = [("BLOCK", "stone"), ("WHO", "@a"), ("ITEM", "minecraft:stick"), ("MSGTAG", "warned")]

# {X} {Y}: whole-token uses of two number macros (values in the hand expansion); {tX} {tY}: their names as TEXT;
# {O}: whole-token use of an object-like macro; {tO}: its name as text
PLAIN_STMTS = [
    ("token", "$x += {X};"), ("token", "scoreboard players set @s obj {X};"), ("token", "tp @s ~ {X} ~;"),
    ("token", "$y = {Y};"), ("token", 'if ($x == {X}) {{ say "eq"; }}'),
    ("string", 'say "{tX} is {tX}";'), ("string", 'tellraw @a "{tX} = row $i of {tY}";'),
    ("string", 'tellraw @a {{"text":"{tX}","color":"red"}};'), ("string", 'say "{tY} is off";'),
    ("string", "tellraw @a '{tX}{tX}';"), ("string", 'data modify storage a:b v set value "{tY}";'),
    ("string", 'say "{tO} {tX}";'),
    ("longer", "$count{tX} += 1;"), ("longer", "tag @s add is{tX};"), ("longer", "scoreboard players set x{tX} obj {Y};"),
    ("longer", "scoreboard players set {tX}s obj 1;"), ("longer", "tag @s add {tX}_{tY};"), ("longer", "$n{tY} = {Y};"),
    ("longer", "data modify storage a:b {tX}x.v set value 1;"), ("longer", "tag @s add {tO}s;"),
    ("variable", "${tX} = {X};"), ("variable", "${tX}_total = 2;"), ("variable", "${tY} += ${tX};"),
    ("object", "tag @s add {O};"), ("object", 'say "{tO}";'),
]
CALC_STMTS = [
    "$r = Hardcode.calc({X}*2+$i);", "tp @s ~ Hardcode.calc({X}+1) ~;", "$r = Hardcode.calc(({X}+$i)*({Y}+2));",
    "$q = Hardcode.calc($i);", "scoreboard players set @s obj Hardcode.calc({Y}*{X});", 'say "v Hardcode.calc({X}+$i)";',
    "$r = Hardcode.calc( {X} - {Y} );", "$a = Hardcode.calc({X}); $b = Hardcode.calc({Y}+$i);",
    "$count{tX} = Hardcode.calc({X}+{X});",
    # the bracket followed by more brackets / by a closing bracket of the surrounding construct
    'if ($x == Hardcode.calc({X}+1)) {{ say "{tX}"; }}', "$r = Math.random(0, Hardcode.calc(({X}+1)*2));",
    'if ($x matches 0..Hardcode.calc({X}+{Y}+1)) {{ tag @s add is{tY}; }}',
]
BODY_SITES = {
    "repeat": "function t() {{ Hardcode.repeat((i)=>{{ {BODY} }}, start=0, stop=2); }}",
    "repeat_neg": "function t() {{ Hardcode.repeat((i)=>{{ {BODY} }}, start=3, stop=1, step=-1); }}",
    "repeat_list": 'function t() {{ Hardcode.repeatList((i, v)=>{{ say "$v"; {BODY} }}, strings=["p","q"]); }}',
    "repeat_lists": 'function t() {{ Hardcode.repeatLists((i, v, w)=>{{ say "$v$w"; {BODY} }}, stringLists=[["p","q"],["r","s"]]); }}',
    "switch": "function t() {{ Hardcode.switch($s, (i)=>{{ {BODY} }}, count=2); }}",
    "lazy": "@lazy function lz(i) {{ {BODY} }}\nfunction t() {{ lz(4); }}",
    "lazy_two_calls": "@lazy function lz(i) {{ {BODY} }}\nfunction t() {{ lz(1); lz(2); }}",
    "lazy_kwarg": "@lazy function lz(j, i) {{ {BODY} }}\nfunction t() {{ lz(i=3, j=0); }}",
}


def number_macros(rng, stats):
    """-> (header lines, envs, [(name, value text)]) : 2..4 number macros of different kinds"""
    lines, envs, nums = [], [], []
    kinds = rng.sample(["define", "define", "enum", "env"], rng.choice([2, 2, 3, 4]))
    used = set()
    for kd in kinds:
        if kd == "define":
            nm = rng.choice([x for x in NUM_NAMES if x not in used])
            used.add(nm)
            v = str(rng.choice([0, 1, 2, 3, 5, 7, 10, 16, 64, 100]))
            lines.append("#define %s %s" % (nm, v))
            nums.append((nm, v))
        elif kd == "enum":
            cls, members = rng.choice(ENUMS)
            start = rng.choice([None, "0", "3", "10"])
            ms = members[:rng.choice([2, 3])]
            lines.append("#enum %s %s%s" % (cls, (start + " ") if start is not None else "", " ".join(ms)))
            base = int(start) if start is not None else 0
            for i, m in enumerate(ms):
                nums.append((cls + "." + m, str(base + i)))
        else:
            nm = rng.choice(ENVS)
            on = rng.random() < 0.5
            if on:
                envs.append(nm)
            lines.append("#env " + nm)
            nums.append((nm, "1" if on else "0"))
        stats["macro:" + kd] = stats.get("macro:" + kd, 0) + 1
    enum_first = [ln for ln in lines if ln.startswith("#enum")] + [ln for ln in lines if not ln.startswith("#enum")]
    return enum_first, envs, nums


def body_pairs(rng, n, stats):
    pairs = []
    sites = sorted(BODY_SITES)
    while len(pairs) < n:
        lines, envs, nums = number_macros(rng, stats)
        obj = rng.choice(OBJ)
        lines = lines + ["#define %s %s" % obj]
        (x, xv), (y, yv) = rng.sample(nums, 2)
        before = [rng.choice(PLAIN_STMTS) for _ in range(rng.choice([0, 1, 2]))]
        between = [rng.choice(PLAIN_STMTS) for _ in range(rng.choice([0, 0, 1]))]
        after = [rng.choice(PLAIN_STMTS) for _ in range(rng.choice([1, 2, 3]))]
        calcs = [rng.choice(CALC_STMTS) for _ in range(rng.choice([1, 1, 2]))]
        stmts = [s for _, s in before] + [calcs[0]] + [s for _, s in between] + calcs[1:] + [s for _, s in after]
        for where, group in (("before", before), ("between", between), ("after", after)):
            for kind, _ in group:
                stats[where + ":" + kind] = stats.get(where + ":" + kind, 0) + 1
        stats["calcs:%d" % len(calcs)] = stats.get("calcs:%d" % len(calcs), 0) + 1
        sid = sites[len(pairs) % len(sites)]
        stats["site:" + sid] = stats.get("site:" + sid, 0) + 1
        sep = rng.choice([" ", " ", "\n    "])

        def render(valx, valy, valo):
            body = sep.join(s.format(X=valx, Y=valy, tX=x, tY=y, O=valo, tO=obj[0]) for s in stmts)
            return PRE + BODY_SITES[sid].format(BODY=body) + "\n"
        pairs.append(dict(macro="calc-scope", use=sid, l=-1, r=-1, header="\n".join(lines), envs=envs,
                          a=render(x, y, obj[0]), b=render(xv, yv, obj[1]),
                          rel=dict(names=[x, y]), tie=dict(nums=nums, stmts=stmts, x=x, y=y, obj=obj[0])))
    return pairs


def body_ties(pairs, rng, n_extra):
    """bodies for the tie with Model.MacroScope.calc_all: the generated bodies (index already substituted, names as the
    macro-using program has them) plus adversarial texts: occurrences without / with unbalanced brackets, nested
    brackets, an occurrence inside a longer word, names glued around the bracket, nothing to do."""
    jobs = []
    for p in pairs:
        t = p["tie"]
        body = " ".join(s.format(X=t["x"], Y=t["y"], tX=t["x"], tY=t["y"], O=t["obj"], tO=t["obj"]) for s in t["stmts"])
        jobs.append(dict(num=[list(kv) for kv in t["nums"]], body=body.replace("$i", str(rng.randint(0, 9)))))
    names = ["N", "NN", "Team.BLUE", "DEBUG", "xN"]
    num = [["N", "5"], ["NN", "12"], ["Team.BLUE", "1"], ["DEBUG", "0"]]
    frag = ["Hardcode.calc(N)", "Hardcode.calc((N+1)*2)", "Hardcode.calc(", "Hardcode.calc", "Hardcode.calcN(1)", "xHardcode.calc(NN)N",
            "Hardcode.calc()", "Hardcode.calc(1))", "Hardcode.calc((1)", "Hardcode.calc(N N)", "Hardcode.calc(Team.BLUE+DEBUG)",
            "Hardcode.Hardcode.calc(2)", "Hardcode.cal", "say \"N\";", " N ", "$countN", "(N)", ")", "(", "Hardcode.calc(xN)", "\n",
            "Hardcode.calc(1+\n2)", "Hardcode.calc(\t7 )", "NHardcode.calc(N)N", "Hardcode.calc(Hardcode.calc(1))"]
    for _ in range(n_extra):
        body = "".join(rng.choice(frag + names + [" ", ";"]) for _ in range(rng.randint(1, 6)))
        jobs.append(dict(num=rng.choice([num, num[:1], [], list(reversed(num))]), body=body))
    return jobs


# --------------------------------------------------------------------------- side finding: a macro inside a macro body

INNER = [("SEL", "@e"), ("SEL", "@e[type=pig]"), ("S", "@e"), ("B", "stone"), ("B", "minecraft:stone_bricks"), ("N", "100"),
         ("T", "1"), ("TEN", "1"), ("LONGNAME", "@a"), ("P", "@p[distance=..5]")]
# outer bodies: pieces (text, glued to the previous piece?) - `{I}` is the inner macro's name
OUTER = {
    "sel": [[("{I}", False), ("[distance=..5]", True)], [("{I}", False), ("[tag=a]", False)], [("{I}", False)],
            [("{I}", False), ("[tag=a]", True), ("[tag=b]", True)]],
    "block": [[("{I}", False), ("{a:1b}", True)], [("{I}", False), ("{a:1b}", False)], [("{I}", False), ("[lit=true]", True), ("{a:1b}", True)]],
    "num": [[("{I}", False), ("~", False), ("{I}", False)], [("~", False), ("{I}", False), ("~", False)], [("{I}", False), ("{I}", False), ("{I}", False)]],
}
OUTER_USE = {"sel": ["kill {M};", 'execute as {M} run say "x";', "kill {M}[tag=z];", "kill {M} [tag=z];"],
             "block": ["give @s {M} 1;", "give @s {M};", "setblock ~ ~ ~ {M};"],
             "num": ["tp @s {M};"]}


def nested_pairs(rng, n, stats):
    pairs = []
    while len(pairs) < n:
        iname, ibody = rng.choice(INNER)
        sort = "sel" if ibody.startswith("@") else "num" if ibody.isdigit() else "block"
        pieces = rng.choice(OUTER[sort])
        gap = rng.choice([" ", " ", "  "])

        def render(inner):
            return "".join(("" if (g or i == 0) else gap) + t.replace("{I}", inner) for i, (t, g) in enumerate(pieces))
        outer_a, outer_b = render(iname), render(ibody)
        use = rng.choice(OUTER_USE[sort])
        header = "#define %s %s\n#define NEAR %s" % (iname, ibody, outer_a)
        a = PRE + "function t() { " + use.format(M="NEAR") + " }\n"
        b = PRE + "function t() { " + use.format(M=outer_b) + " }\n"
        rel = ("shorter" if len(ibody) < len(iname) else "longer" if len(ibody) > len(iname) else "same_length")
        stats["inner:" + rel] = stats.get("inner:" + rel, 0) + 1
        stats["follow:" + ("none" if len(pieces) == 1 else "glued" if pieces[1][1] else "spaced")] = stats.get(
            "follow:" + ("none" if len(pieces) == 1 else "glued" if pieces[1][1] else "spaced"), 0) + 1
        pairs.append(dict(macro="macro-in-macro-body", use=sort, l=-1, r=-1, header=header, envs=[], a=a, b=b, nested=True))
    return pairs


NESTED_HEADERS = [
    "#define SEL @e\n#define NEAR SEL[distance=..5]", "#define S @e\n#define NEAR S [tag=a]",
    "#define SEL @e[type=pig]\n#define NEAR SEL[distance=..5] SEL", "#define N 100 200\n#define NEAR N ~ N",
    "#define TEN 1\n#define NEAR ~TEN ~ TEN TEN", "#define B minecraft:stone\n#define NEAR B{a:1b} B {b:2b}\n#define FAR NEAR[x] NEAR",
    "#define B stone\n#define F(x) x{a:1b} B{b:2b} \"B\"", "#define E\n#define NEAR E[x] E [y]",
]
NESTED_USES = ["kill NEAR;", "NEAR[z] NEAR [z];", "x NEAR NEAR;NEAR;", "FAR;"]
