"""Operation tracer for the real DataPack (properties C07 / C08).

Executed with /venv/bin/python and PYTHONPATH=<repo>/src by harness/lib.py (never edits the repo:
everything is wrapped from this process).

stdin : JSON  {"mode": "jobs", "jobs": [ {src, header?, cert?, pack_format?, envs?, namespace?}, ... ]}
           or {"mode": "harvest"}      -> the inputs of every JMCTestPack().build() made by <repo>/src/tests/integration
           or {"mode": "registry"}     -> the func_property registry: [{call_string, func_type, name, arg_type, defaults}]
           or {"mode": "lexer_consts"} -> {"types": JSON_FILE_TYPES, "legacy": LEGACY_JSON_FILE_TYPES}
           or {"mode": "unit", "reqs": [{"fn": "conv", s, prefix, lower} | {"fn": "fmt", ns, overrides, p}]}
stdout: JSON list of results, one per job
   {"ok": bool, "files": {path: text}           (ok)
    "exc", "jmc", "msg", "frame"                (not ok; as jmc_run.py)
    "ops": [...], "cfg": {...}, "unsupported": [reasons the Coq model does not cover this compile]}

The logged operations are the *state changes of the DataPack object* between its creation and the call of
DataPack.build(), in program order (see coq/Model/Alloc.v for their meaning):
   ["count", g, returned]                 get_count
   ["callf", g, c, returned]              call_func
   ["new", id, [commands]]                Function(commands)          (raw argument, before the split)
   ["fapp", id, [commands]]               Function.append / extend    (raw)
   ["fins", id, [commands], index]        Function.insert / insert_extend
   ["fdel", id, index]                    Function.delete
   ["fempty", id]                         Function.add_empty_line
   ["fset", path, id]                     datapack.functions[path] = <Function id>
   ["pset", g, c, id]                     datapack.private_functions[g][c] = <Function id>
   ["jset", path, text, truthy]           datapack.jsons[path] = json   (text = dumps(json, indent=4) at Build time)
   ["called", path, prefix]               datapack.functions_called[path] = ...
   ["upriv", path, prefix]                datapack.user_private_functions[path] = prefix
   ["lazy", path] / ["lazydel", path]     datapack.lazy_func
   ["def", path]                          datapack.defined_file_pos[path] = ...   (a NAME is defined: function, @lazy/@if function, json)
   ["build", {...}]                       entry of DataPack.build(): the lists build() consumes
"""
import json
import os
import signal
import sys
import traceback


class _Timeout(BaseException):
    pass


def _alarm(signum, frame):
    raise _Timeout()


class Tracer:
    def __init__(self):
        self.ops = []
        self.active = False
        self.fid = {}        # id(obj) -> small id
        self.keep = []       # keep Function objects alive so that id() is not reused
        self.jsons_seen = {}
        self.unsupported = []
        self.datapack = None

    def log(self, *op):
        if self.active:
            self.ops.append(list(op))

    def func_id(self, obj):
        k = id(obj)
        if k not in self.fid:
            # a Function created while tracing was off (should not happen): register it with its current content
            self.fid[k] = len(self.fid)
            self.keep.append(obj)
            self.ops.append(["new", self.fid[k], list(obj.commands)])
        return self.fid[k]


T = Tracer()


def install():
    import jmc.compile.datapack as D
    from jmc.compile.header import Header
    from collections import defaultdict

    Function, DataPack = D.Function, D.DataPack

    # ---------------------------------------------------------------- Function objects
    o_init = Function.__init__

    def f_init(self, commands=None):
        o_init(self, commands)
        if T.active:
            T.fid[id(self)] = len(T.fid)
            T.keep.append(self)
            T.log("new", T.fid[id(self)], list(commands) if commands is not None else [])
    Function.__init__ = f_init

    o_append, o_insert, o_extend, o_insext, o_delete, o_empty = (
        Function.append, Function.insert, Function.extend, Function.insert_extend, Function.delete,
        Function.add_empty_line)

    def f_append(self, command):
        if T.active:
            T.log("fapp", T.func_id(self), [command])
        return o_append(self, command)

    def f_extend(self, commands):
        if T.active:
            T.log("fapp", T.func_id(self), list(commands))
        return o_extend(self, commands)

    def f_insert(self, command, index):
        if T.active:
            T.log("fins", T.func_id(self), [command], index)
        return o_insert(self, command, index)

    def f_insext(self, commands, index):
        if T.active:
            T.log("fins", T.func_id(self), list(commands), index)
        return o_insext(self, commands, index)

    def f_delete(self, index):
        if T.active:
            T.log("fdel", T.func_id(self), index)
        return o_delete(self, index)

    def f_empty(self):
        if T.active:
            T.log("fempty", T.func_id(self))
        return o_empty(self)

    Function.append, Function.insert, Function.extend = f_append, f_insert, f_extend
    Function.insert_extend, Function.delete, Function.add_empty_line = f_insext, f_delete, f_empty

    # ---------------------------------------------------------------- logging containers
    class FuncDict(dict):
        def __setitem__(self, k, v):
            if T.active:
                T.log("fset", k, T.func_id(v))
            dict.__setitem__(self, k, v)

        def __delitem__(self, k):
            T.unsupported.append("functions entry deleted")
            dict.__delitem__(self, k)

    class PrivInner(dict):
        def __init__(self, group):
            dict.__init__(self)
            self.group = group

        def __setitem__(self, k, v):
            if T.active:
                T.log("pset", self.group, k, T.func_id(v))
            dict.__setitem__(self, k, v)

        def __delitem__(self, k):
            T.unsupported.append("private function deleted")
            dict.__delitem__(self, k)

    class PrivDict(dict):
        def __missing__(self, k):
            v = PrivInner(k)
            dict.__setitem__(self, k, v)
            return v

        def __setitem__(self, k, v):
            T.unsupported.append("private function group replaced")
            dict.__setitem__(self, k, v)

    class JsonDict(dict):
        def __missing__(self, k):
            v = {}
            self[k] = v
            return v

        def __setitem__(self, k, v):
            if T.active:
                T.ops.append(["jset", k, v])      # text filled in at Build time (objects may be mutated in place)
            dict.__setitem__(self, k, v)

        def __delitem__(self, k):
            T.unsupported.append("json deleted")
            dict.__delitem__(self, k)

    class CalledDict(dict):
        def __setitem__(self, k, v):
            if T.active:
                T.log("called", k, v[2])
            dict.__setitem__(self, k, v)

    class UPrivDict(dict):
        def __setitem__(self, k, v):
            if T.active:
                T.log("upriv", k, v)
            dict.__setitem__(self, k, v)

    class LazyDict(dict):
        def __setitem__(self, k, v):
            if T.active:
                T.log("lazy", k)
            dict.__setitem__(self, k, v)

        def __delitem__(self, k):
            if T.active:
                T.log("lazydel", k)
            dict.__delitem__(self, k)

    class DefPosDict(dict):
        def __setitem__(self, k, v):
            if T.active:
                T.log("def", k)
            dict.__setitem__(self, k, v)

        def __delitem__(self, k):
            T.unsupported.append("defined_file_pos entry deleted")
            dict.__delitem__(self, k)

    # ---------------------------------------------------------------- DataPack
    d_init = DataPack.__init__

    def dp_init(self, namespace, pack_format, lexer):
        d_init(self, namespace, pack_format, lexer)
        self.functions = FuncDict()
        self.jsons = JsonDict()
        self.private_functions = PrivDict()
        self.functions_called = CalledDict()
        self.user_private_functions = UPrivDict()
        self.lazy_func = LazyDict()
        if isinstance(getattr(self, "defined_file_pos", None), dict) and not self.defined_file_pos:
            self.defined_file_pos = DefPosDict()
        T.datapack = self
        T.active = True
    DataPack.__init__ = dp_init

    d_count, d_call, d_build = DataPack.get_count, DataPack.call_func, DataPack.build

    def dp_count(self, name):
        r = d_count(self, name)
        T.log("count", name, r)
        return r

    def dp_call(self, name, count):
        r = d_call(self, name, count)
        T.log("callf", name, str(count), r)
        return r

    def dp_build(self):
        h = Header()
        if T.active:
            # json texts as they are at Build time; a json object stored once and mutated later is logged with
            # its final text (the only observable one)
            for op in T.ops:
                if op[0] == "jset" and not isinstance(op[2], str):
                    obj = op[2]
                    op[2] = json.dumps(obj, indent=4)
                    op.append(bool(obj))
            if h.post_process:
                T.unsupported.append("header post_process functions")
            if h.copy is not None:
                T.unsupported.append("#copy")
            if h.track_function_regexs:
                T.unsupported.append("Debug.trackFunction")
            if h.show_private_command:
                T.unsupported.append("#show_private_command")
            T.log("build", {
                "loads": list(self.loads), "ticks": list(self.ticks),
                "after_loads": list(self.after_loads), "after_ticks": list(self.after_ticks),
                "after_func": [[k, list(v)] for k, v in self.after_func.items()],
                "ints": [int(n) for n in self.ints],
                "scoreboards": [[k, v] for k, v in self.scoreboards.items()],
                "envs": list(h.envs), "delayed_error": self.delayed_error is not None,
                "lazy": sorted(self.lazy_func.keys()),
            })
            T.cfg = {
                "ns": self.namespace, "legacy": not (self.version >= D.PackVersionFeature.LEGACY_FOLDER_RENAME),
                "private": DataPack.private_name, "load": DataPack.load_name, "tick": DataPack.tick_name,
                "var": DataPack.var_name, "int": DataPack.int_name, "storage": DataPack.storage_name,
                "overrides": sorted(h.namespace_overrides), "links": sorted(h.datapack_link),
                "credits": list(h.credits),
            }
        T.active = False
        return d_build(self)
    DataPack.build = dp_build
    DataPack.get_count = dp_count
    DataPack.call_func = dp_call


def jmc_exception_classes():
    from jmc.compile import exception as E
    out = []
    for name in dir(E):
        obj = getattr(E, name)
        if isinstance(obj, type) and issubclass(obj, Exception) and obj.__module__ == E.__name__:
            out.append(obj)
    return tuple(out)


def innermost_jmc_frame(tb):
    for fr in reversed(traceback.extract_tb(tb)):
        if "/jmc/" in fr.filename:
            return [os.path.basename(fr.filename), fr.name, fr.lineno]
    return None


def finish_ops():
    """ops as JSON-able values (json objects of a compile that failed before Build are dumped here)"""
    for op in T.ops:
        if op[0] == "jset" and not isinstance(op[2], str):
            obj = op[2]
            try:
                op[2] = json.dumps(obj, indent=4)
            except Exception:  # noqa
                op[2] = repr(obj)
            op.append(bool(obj))
    return T.ops


def run_job(job, JMCTestPack, jmc_excs):
    T.ops, T.active, T.fid, T.keep, T.unsupported, T.cfg = [], False, {}, [], [], None
    signal.alarm(int(job.get("timeout", 20)))
    try:
        p = JMCTestPack(namespace=job.get("namespace", "TEST"))
        p.set_jmc_file(job["src"])
        if job.get("header") is not None:
            p.set_header_file(job["header"])
        if job.get("cert") is not None:
            p.set_cert(job["cert"])
        if job.get("pack_format") is not None:
            p.set_pack_format(job["pack_format"])
        if job.get("envs"):
            p.set_envs(job["envs"])
        built = p.build().built
        res = {"ok": True, "files": built}
    except _Timeout:
        res = {"ok": False, "exc": "Timeout", "jmc": False, "msg": "", "frame": None}
    except BaseException as e:  # noqa
        signal.alarm(0)
        res = {"ok": False, "exc": type(e).__name__, "jmc": isinstance(e, jmc_excs), "msg": str(e)[:2000],
               "frame": innermost_jmc_frame(e.__traceback__)}
    finally:
        signal.alarm(0)
        T.active = False
    res["ops"] = finish_ops()
    res["cfg"] = T.cfg
    res["unsupported"] = sorted(set(T.unsupported))
    return res


def harvest():
    """Inputs of every JMCTestPack.build() call made by the repo's integration tests."""
    import io
    import unittest
    from jmc.compile.test_compile import JMCTestPack
    repo_src = os.environ["PYTHONPATH"].split(os.pathsep)[0]
    seen, jobs = set(), []
    o_build = JMCTestPack.build

    def rec_build(self):
        job = {"src": self.jmc_file, "header": self.header_file, "cert": self.cert,
               "pack_format": self.config.pack_format, "namespace": self.config.namespace, "envs": list(self.envs)}
        key = json.dumps(job, sort_keys=True)
        if key not in seen:
            seen.add(key)
            jobs.append(job)
        return o_build(self)
    JMCTestPack.build = rec_build
    cwd = os.getcwd()
    os.chdir(os.path.dirname(repo_src))
    try:
        suite = unittest.defaultTestLoader.discover(os.path.join(repo_src, "tests", "integration"),
                                                    top_level_dir=repo_src)
        unittest.TextTestRunner(stream=io.StringIO(), verbosity=0).run(suite)
    finally:
        os.chdir(cwd)
        JMCTestPack.build = o_build
    return jobs


def registry():
    from jmc.compile.command.jmc_function import JMCFunction
    import jmc.compile.command.builtin_function  # noqa: F401  (fills the registry)
    out = []
    for ft, d in JMCFunction._subcls.items():
        for call_string, cls in d.items():
            out.append({"call_string": call_string, "func_type": ft.name, "name": cls.name,
                        "arg_type": {k: v.name for k, v in cls.arg_type.items()},
                        "defaults": dict(cls.defaults)})
    return out


def unit(reqs):
    """Direct calls of convention_jmc_to_mc / DataPack.format_func_path (unit correspondence)."""
    from jmc.compile.utils import convention_jmc_to_mc
    from jmc.compile.tokenizer import Token, TokenType, Tokenizer
    from jmc.compile.header import Header
    from jmc.compile.datapack import DataPack
    out = []
    tk = Tokenizer("say 1;", "unit.jmc")
    for r in reqs:
        try:
            if r["fn"] == "conv":
                tok = Token(TokenType.KEYWORD, 1, 1, r["s"])
                out.append({"ok": True, "value": convention_jmc_to_mc(tok, tk, r["prefix"], is_make_lower=r["lower"])})
            elif r["fn"] == "fmt":
                Header.clear()
                Header().namespace_overrides = set(r["overrides"])
                dp = DataPack.__new__(DataPack)
                dp.namespace = r["ns"]
                out.append({"ok": True, "value": dp.format_func_path(r["p"])})
            else:
                out.append({"ok": False, "exc": "unknown fn"})
        except BaseException as e:  # noqa
            out.append({"ok": False, "exc": type(e).__name__})
    return out


def main():
    import logging
    logging.disable(logging.CRITICAL)
    req = json.load(sys.stdin)
    real_stdout = sys.stdout
    sys.stdout = open(os.devnull, "w")
    sys.stderr = open(os.devnull, "w")
    mode = req.get("mode", "jobs")
    if mode == "harvest":
        out = harvest()
    elif mode == "registry":
        out = registry()
    elif mode == "unit":
        out = unit(req["reqs"])
    elif mode == "lexer_consts":
        from jmc.compile import lexer as L
        out = {"types": list(L.JSON_FILE_TYPES), "legacy": list(L.LEGACY_JSON_FILE_TYPES)}
    else:
        from jmc.compile.test_compile import JMCTestPack
        install()
        jmc_excs = jmc_exception_classes()
        signal.signal(signal.SIGALRM, _alarm)
        out = [run_job(j, JMCTestPack, jmc_excs) for j in req["jobs"]]
    sys.stdout = real_stdout
    json.dump(out, sys.stdout)


if __name__ == "__main__":
    main()
