"""C01 — scoreboard assignment statements.  Proof step + correspondence + search."""
from __future__ import annotations

import itertools
import re

from lib import (Check, COMMON_TRUSTED, INT_MAX, INT_MIN, compile_batch, coq_list, coq_str, coq_z,
                 eval_strings, functions_of, known_for, run_coq_files, parse_nat_list)
from mcvm import VM, Invalid, OutOfFuel, wrap
import c01_ctx

PROP = "C01"

CERTS = [
    dict(LOAD="__load__", TICK="__tick__", PRIVATE="__private__", VAR="__variable__", INT="__int__", STORAGE="__storage__"),
    dict(LOAD="init", TICK="loop", PRIVATE="priv", VAR="v", INT="i", STORAGE="stor"),
    dict(LOAD="l0ad", TICK="t1ck", PRIVATE="__p__", VAR="var.s", INT="const-int", STORAGE="s_t"),
]

BINOPS = {"=": "VAssign", "+=": "VAdd", "-=": "VSub", "*=": "VMul", "/=": "VDiv", "%=": "VMod",
          "><": "VSwap", "<": "VMin", ">": "VMax", "??=": "VNull"}
NULLARY = {"++": "VInc", "--": "VDec", "= true": "VTrue", "= false": "VFalse",
           "??= true": "VNullTrue", "??= false": "VNullFalse"}

BOUNDARY = [0, 1, -1, 2, -2, 3, -3, 7, 10, 100, -100, 46341, INT_MAX, INT_MAX - 1, INT_MIN, INT_MIN + 1,
            65536, -65536]


def cert_text(c):
    return "\n".join(f"{k}={v}" for k, v in c.items())


def names_term(c, ns="TEST"):
    return (f'(mkNames {coq_str(ns)} {coq_str(c["VAR"])} {coq_str(c["INT"])} {coq_str(c["PRIVATE"])} '
            f'{coq_str(c["LOAD"])} {coq_str(c["TICK"])} {coq_str(c["STORAGE"])})')


def score_of(src: str, cert):
    """source text of a score -> (holder, objective)"""
    if src.startswith("$"):
        return (src, cert["VAR"])
    obj, sel = src.split(":", 1)
    return (sel, obj)


def score_term(s):
    return f"({coq_str(s[0])}, {coq_str(s[1])})"


def gen_cases(rng, tier):
    targets = ["$x", "$Y.z", "obj:@s", "my_obj:@e[tag=a,limit=1]"]
    score_operands = ["$y", "obj2:@p", "SAME"]
    nrand = 6 if tier == "quick" else 300
    lits = list(BOUNDARY) + [rng.randint(INT_MIN, INT_MAX) for _ in range(nrand)] + \
        [rng.randint(-1000, 1000) for _ in range(nrand)]
    cases = []
    for ci, cert in enumerate(CERTS):
        for tgt in targets:
            for opsrc, opname in BINOPS.items():
                for so in score_operands:
                    o = tgt if so == "SAME" else so
                    cases.append(dict(cert=ci, target=tgt, op=opsrc, vop=opname, operand=("score", o),
                                      stmt=f"{tgt} {opsrc} {o};"))
                for z in lits:
                    cases.append(dict(cert=ci, target=tgt, op=opsrc, vop=opname, operand=("lit", z),
                                      stmt=f"{tgt} {opsrc} {z};"))
            for opsrc, opname in NULLARY.items():
                sep = "" if opsrc in ("++", "--") else " "
                cases.append(dict(cert=ci, target=tgt, op=opsrc, vop=opname, operand=("none", None),
                                  stmt=f"{tgt}{sep}{opsrc};"))
    # a few non-canonical literal spellings (int() normalisation)
    for txt, z in (("007", 7), ("-0", 0), ("00", 0)):
        for opsrc in ("=", "+=", "*="):
            cases.append(dict(cert=0, target="$x", op=opsrc, vop=BINOPS[opsrc], operand=("lit", z),
                              stmt=f"$x {opsrc} {txt};"))
    return cases


def operand_term(case, cert):
    kind, v = case["operand"]
    if kind == "lit":
        return f"(OLit {coq_z(v)})"
    if kind == "score":
        return f"(OScore {score_term(score_of(v, cert))})"
    return "ONone"


# ------------------------------------------------------------------ source-level oracle (search only)

def meaning(vop, x, y):
    a = 0 if x is None else x
    b = 0 if y is None else y
    return {
        "VAssign": lambda: b, "VAdd": lambda: wrap(a + b), "VSub": lambda: wrap(a - b), "VMul": lambda: wrap(a * b),
        "VDiv": lambda: a if b == 0 else wrap(a // b), "VMod": lambda: a if b == 0 else wrap(a % b),
        "VSwap": lambda: b, "VMin": lambda: min(a, b), "VMax": lambda: max(a, b),
        "VNull": lambda: x if x is not None else b,
        "VInc": lambda: wrap(a + 1), "VDec": lambda: wrap(a - 1), "VTrue": lambda: 1, "VFalse": lambda: 0,
        "VNullTrue": lambda: x if x is not None else 1, "VNullFalse": lambda: a,
    }[vop]()


GRID = [None, 0, 1, -1, 7, -7, INT_MIN, INT_MIN + 1, INT_MAX]


def semantic_failure(case, cert, text, ints_loaded: set[int], grid=GRID):
    """Run the real emitted text from a grid of states; return a description of the first failure or None."""
    t = score_of(case["target"], cert)
    kind, v = case["operand"]
    o = score_of(v, cert) if kind == "score" else None
    bystander = ("$bystander", cert["VAR"])
    for x in grid:
        ys = grid if (o is not None and o != t) else [None]
        for y in ys:
            vm = VM({}, max_steps=1000)
            for n in ints_loaded:
                vm.s[(str(n), cert["INT"])] = n
            if x is not None:
                vm.s[t] = x
            if o is not None and o != t and y is not None:
                vm.s[o] = y
            vm.s[bystander] = 12345
            before = dict(vm.s)
            yv = v if kind == "lit" else (x if o == t else y) if kind == "score" else None
            exp = meaning(case["vop"], x, yv)
            try:
                vm.run_lines(text)
            except Invalid as e:
                return dict(kind="invalid-command", detail=str(e), init=dict(target=x, operand=y))
            except OutOfFuel:
                return dict(kind="no-termination", init=dict(target=x, operand=y))
            got = vm.s.get(t)
            if got != exp:
                return dict(kind="wrong-value", expected=exp, actual=got, init=dict(target=x, operand=y))
            # frame
            for k, val in vm.s.items():
                if k == t:
                    continue
                if o is not None and k == o:
                    if case["vop"] == "VSwap":
                        if val != (0 if x is None else x):
                            return dict(kind="swap-other-side", expected=x, actual=val, init=dict(target=x, operand=y))
                    elif val != (before.get(k) or 0):
                        return dict(kind="operand-changed", score=k, init=dict(target=x, operand=y))
                    continue
                if kind == "lit" and k == (str(v), cert["INT"]) and case["vop"] == "VSwap":
                    continue  # the other side of a swap with a literal is the constant's fake player
                if before.get(k) != val:
                    return dict(kind="other-score-changed", score=k, before=before.get(k), after=val,
                                init=dict(target=x, operand=y))
    return None


def known_class(case, fail):
    """Which known finding (if any) explains this failure."""
    for f in known_for(PROP):
        w = f.get("match", {})
        if (fail["kind"] == w.get("kind") and case["op"] in w.get("ops", []) and
                case["operand"][0] == "lit" and case["operand"][1] in w.get("literals", [])):
            return f
    return None


def main(tier: str, replay: str | None = None) -> int:
    ck = Check(PROP, tier)
    ck.cov["trusted_base"] = COMMON_TRUSTED + [
        "Model/VarOp.v is a hand-written port of variable_operation (var_operation.py:409-710); tied to /repo by exact text equality on the generated statements below",
        "mcvm.py (untrusted Python VM) is used only to search for failing inputs and to confirm known findings",
    ]
    pr = ck.proof()

    cases = gen_cases(ck.rng, tier)
    # one pack per cert: one function per statement
    packs = []
    # packs with ONE statement: its constant (if any) is the only constant of the whole pack
    # (0 as the only constant, INT_MIN as the only constant, no constant at all)
    solo = []
    for ci in range(len(CERTS)):
        for opsrc in ("*=", "/=", "%=", "<", ">", "><", "+=", "-=", "="):
            for z in (0, 5, INT_MIN):
                solo.append(dict(cert=ci, target="$x", op=opsrc, vop=BINOPS[opsrc], operand=("lit", z),
                                 stmt=f"$x {opsrc} {z};", solo=True))
        solo.append(dict(cert=ci, target="$x", op="*=", vop="VMul", operand=("lit", 0), stmt="$x *= -0;", solo=True))
    base = len(cases)
    cases = cases + solo
    for k in range(base, len(cases)):
        c = cases[k]
        packs.append((c["cert"], [k], dict(src=f"function f{k}() {{ {c['stmt']} }}", cert=cert_text(CERTS[c["cert"]]))))
    for ci, cert in enumerate(CERTS):
        idx = [i for i, c in enumerate(cases) if c["cert"] == ci and not c.get("solo")]
        for start in range(0, len(idx), 400):
            part = idx[start:start + 400]
            src = "\n".join(f"function f{i}() {{ {cases[i]['stmt']} }}" for i in part)
            packs.append((ci, part, dict(src=src, cert=cert_text(cert))))
    # All packs are compiled one after the other in ONE process, with the jmc.txt name sets
    # interleaved: a cache or global that survives from one compilation to the next (e.g. an operand
    # resolved under the previous VAR name) then shows up as a text difference from the model, which
    # is a pure function of the statement and the names.
    order = sorted(range(len(packs)), key=lambda i: (sum(1 for j in range(i) if packs[j][0] == packs[i][0]), packs[i][0]))
    packs = [packs[i] for i in order]
    results = compile_batch([p[2] for p in packs], chunk=len(packs))

    coq_files = []
    pack_ints = []
    for pi, ((ci, part, job), res) in enumerate(zip(packs, results)):
        cert = CERTS[ci]
        if res["ok"]:
            fns = functions_of(res["files"])
            load = fns.get(cert["LOAD"], "")
            ints = [int(m.group(1)) for m in re.finditer(
                r"^scoreboard players set (-?\d+) %s (-?\d+)$" % re.escape(cert["INT"]), load, re.M)]
        else:
            # fall back to one statement per compile so that a single failing statement is isolated
            single = compile_batch([dict(src=f"function f{i}() {{ {cases[i]['stmt']} }}", cert=cert_text(cert)) for i in part])
            fns, ints = {}, []
            for i, r in zip(part, single):
                if r["ok"]:
                    f1 = functions_of(r["files"])
                    fns[f"f{i}"] = f1.get(f"f{i}", "<missing function>")
                    ints += [int(m.group(1)) for m in re.finditer(
                        r"^scoreboard players set (-?\d+) %s (-?\d+)$" % re.escape(cert["INT"]), f1.get(cert["LOAD"], ""), re.M)]
                else:
                    fns[f"f{i}"] = f"<error {r['exc']}: {r['msg'][:200]}>"
        pack_ints.append(set(ints))
        load_text = fns.get(cert["LOAD"], "") if res["ok"] else None
        head = [] if load_text is None else [l for l in load_text.split("\n") if l and not re.match(
            r"^scoreboard players set (-?\d+) %s (-?\d+)$" % re.escape(cert["INT"]), l)]
        terms = []
        for i in part:
            c = cases[i]
            c["real"] = fns.get(f"f{i}", "<missing function>")
            c["pack"] = pi
            terms.append(f"mkCase {names_term(cert)} {score_term(score_of(c['target'], cert))} {c['vop']} "
                         f"{operand_term(c, cert)} {coq_str(c['real'])}")
        body = ("From Coq Require Import ZArith String List.\nFrom JMCV Require Import Model.Names Model.VarOp MC.Syntax Run.C01.\n"
                "Import ListNotations.\nOpen Scope string_scope.\n"
                f"Definition cases := [\n" + ";\n".join(terms) + "\n].\n"
                "Eval vm_compute in mismatches cases.\n"
                + (f"Eval vm_compute in (if load_ok {names_term(cert)} cases {coq_list(coq_str(h) for h in head)} {coq_list(coq_z(n) for n in sorted(set(ints)))} then [] else [1%nat]).\n"
                   if load_text is not None else
                   f"Eval vm_compute in (if ints_ok cases {coq_list(coq_z(n) for n in sorted(set(ints)))} then [] else [1%nat]).\n"))
        coq_files.append((f"cases_{pi}.v", body))
    outs = run_coq_files(PROP, coq_files)

    mism = []          # global case indices
    ints_bad = []
    for pi, (ok, out) in enumerate(outs):
        if not ok:
            ck.violation(dict(kind="correspondence-file-failed", file=coq_files[pi][0], log=out[-3000:]), no_input=True)
            continue
        first, _, second = out.partition(": list nat")
        for j in parse_nat_list(first):
            mism.append(packs[pi][1][j])
        if parse_nat_list(second):
            ints_bad.append(pi)

    # ---- search / oracle on the real text (all cases: cheap)
    n_sem = 0
    grid = GRID if tier == "thorough" else [None, 0, 1, -7, INT_MIN, INT_MAX]
    sem_fail = {}
    for i, c in enumerate(cases):
        cert = CERTS[c["cert"]]
        if c["real"].startswith("<"):
            continue
        n_sem += 1
        f = semantic_failure(c, cert, c["real"], pack_ints[c["pack"]], grid)
        if f:
            sem_fail[i] = f

    reported = set()
    for i, f in sem_fail.items():
        c = cases[i]
        kf = known_class(c, f)
        if kf and i not in mism:
            ck.known(kf["id"], kf["what"])
            continue
        key = (c["op"], c["operand"][0], f["kind"])
        if key in reported:
            continue
        reported.add(key)
        ck.violation(dict(kind="semantic-failure", statement=c["stmt"], jmc_txt=CERTS[c["cert"]], emitted=c["real"],
                          failure=f, note="emitted text run in mcvm from the given initial scores"))
    # mismatching cases with no semantic failure: correspondence broken, property not shown
    silent = [i for i in mism if i not in sem_fail]
    if silent:
        exprs = [f"Run.C01.model_text (mkCase {names_term(CERTS[cases[i]['cert']])} "
                 f"{score_term(score_of(cases[i]['target'], CERTS[cases[i]['cert']]))} {cases[i]['vop']} "
                 f"{operand_term(cases[i], CERTS[cases[i]['cert']])} \"\")" for i in silent[:5]]
        try:
            model_out = eval_strings(PROP, "From Coq Require Import ZArith String List.\nFrom JMCV Require Import Model.Names Model.VarOp MC.Syntax Run.C01.\nImport ListNotations.\nOpen Scope string_scope.", exprs)
        except Exception as e:  # noqa
            model_out = [str(e)]
        ck.violation(dict(kind="correspondence-differs", theorem="C01_varop_correct no longer speaks about the code",
                          cases=[dict(statement=cases[i]["stmt"], real=cases[i]["real"], model=m)
                                 for i, m in zip(silent[:5], model_out)], n_differing=len(silent)), no_input=True)
    if ints_bad:
        ck.violation(dict(kind="load-function-differs", packs=ints_bad,
                          statements=[cases[packs[pi][1][0]]["stmt"] for pi in ints_bad if len(packs[pi][1]) == 1][:5],
                          note="__load__ does not create the objectives / materialise exactly the constants the model requests "
                               "(Run.C01.load_ok: head lines of __load__ and the set of `players set <n> INT <n>` lines)"),
                     no_input=not any(len(packs[pi][1]) == 1 for pi in ints_bad))

    # ---- the statements in a position that takes ONE command (strengthening round 4; placement proved under C02)
    ctx_cov = c01_ctx.probe(ck, cases, CERTS, score_of, meaning, tier)

    distinct = len({(c["cert"], c["target"], c["op"], str(c["operand"])) for c in cases})
    hist = {}
    for c in cases:
        k = f"{c['op']}|{c['operand'][0]}"
        hist[k] = hist.get(k, 0) + 1
    ck.cov.update(dict(
        evaluations=len(cases), distinct_nontrivial=distinct,
        rule="every (jmc.txt names 3) x (target 4) x (operator 16) x (operand: $var, obj:sel, same-as-target, boundary literals, random literals); "
             "a case is one statement; distinct = distinct (names,target,operator,operand) tuples; all are non-trivial (each exercises a dispatch branch)",
        samples=[dict(statement=c["stmt"], emitted=c["real"]) for c in cases[:3] + cases[200:203]],
        programs=len(packs), disagreements_checked=len(mism),
        semantic_runs=n_sem, branch_histogram=hist,
        correspondence="model text == real function body for every case; __int__ constant set equal per pack",
        **ctx_cov,
    ))
    return ck.finish()


def replay(path: str) -> int:
    """Re-run the statement stored in a replay file against lib.REPO and print what happens."""
    import json
    r = json.load(open(path))
    if r.get("mode") == "context":
        return c01_ctx.replay(r, score_of)
    if "statement" not in r:
        print("replay file names a broken obligation/correspondence, not an input:", r.get("kind"))
        print(json.dumps(r, indent=1)[:3000])
        return 1
    cert = r["jmc_txt"]
    res = compile_batch([dict(src=f"function f0() {{ {r['statement']} }}", cert=cert_text(cert))])[0]
    if not res["ok"]:
        print("compile failed:", res["exc"], res["msg"])
        return 1
    fns = functions_of(res["files"])
    text = fns.get("f0", "")
    ints = {int(m.group(1)) for m in re.finditer(r"^scoreboard players set (-?\d+) %s (-?\d+)$" % re.escape(cert["INT"]),
                                                  fns.get(cert["LOAD"], ""), re.M)}
    print("statement:", r["statement"])
    print("emitted  :", text.replace("\n", " ; "))
    m = re.match(r"(\S+?)\s*(\+\+|--|\?\?= true|\?\?= false|= true|= false|\?\?=|[-+*/%]=|><|<|>|=)\s*(.*);$", r["statement"])
    tgt, op, rhs = m.group(1), m.group(2), m.group(3)
    if op in NULLARY:
        case = dict(target=tgt, op=op, vop=NULLARY[op], operand=("none", None))
    elif re.fullmatch(r"-?\d+", rhs):
        case = dict(target=tgt, op=op, vop=BINOPS[op], operand=("lit", int(rhs)))
    else:
        case = dict(target=tgt, op=op, vop=BINOPS[op], operand=("score", rhs))
    f = semantic_failure(case, cert, text, ints)
    print("failure  :", f)
    return 1 if f else 0
