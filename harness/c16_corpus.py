"""Macro definitions x use-site kinds x spacing variants for C16.

A *macro* has header lines, a name as written at the use site (`use`, may contain arguments), the hand-written expansion
(`exp`) and a set of sorts saying where it fits.  A *use site* is a program template with `{L}{M}{R}`: `{M}` is replaced by the
macro use (program A, compiled with the header) or by the expansion (program B, compiled without the header); `{L}`/`{R}` are
spacing slots (0-3 spaces; 0 only where the site says that gluing is legal on that side).  A and B must compile to identical
file maps."""
from __future__ import annotations

PRE = 'function foo() { say "foo"; }\n'

# name, header, use, expansion, sorts, envs
MACROS = [
    dict(id="int", header="#define N 100", use="N", exp="100", sorts={"int", "num", "any"}),
    dict(id="int1", header="#define TEN 1", use="TEN", exp="1", sorts={"int", "num", "any"}),          # expansion shorter than key
    dict(id="intbig", header="#define B 2147483647", use="B", exp="2147483647", sorts={"int", "num", "any"}),   # longer than key
    dict(id="samelen", header="#define ABC 123", use="ABC", exp="123", sorts={"int", "num", "any"}),
    dict(id="kw", header="#define BLOCK stone", use="BLOCK", exp="stone", sorts={"block", "any"}),
    dict(id="kwlong", header="#define B2 minecraft:polished_blackstone_bricks", use="B2",
         exp="minecraft:polished_blackstone_bricks", sorts={"block", "any"}),
    dict(id="sel", header="#define P @e", use="P", exp="@e", sorts={"sel", "any"}),
    dict(id="selb", header="#define PIG @e[type=pig,limit=1]", use="PIG", exp="@e[type=pig,limit=1]", sorts={"selfull", "any"}),
    dict(id="selb2", header="#define NEAREST_PLAYER @p[distance=..5]", use="NEAREST_PLAYER", exp="@p[distance=..5]",
         sorts={"selfull", "any"}),
    dict(id="pos", header="#define HERE ~ ~1 ~", use="HERE", exp="~ ~1 ~", sorts={"pos"}),
    dict(id="pos2", header="#define UPWARDS ~  ~5   ~", use="UPWARDS", exp="~  ~5   ~", sorts={"pos"}),
    dict(id="var", header="#define CNT $counter", use="CNT", exp="$counter", sorts={"var", "any"}),
    dict(id="str", header='#define MSG "hello world"', use="MSG", exp='"hello world"', sorts={"str"}),
    dict(id="nbt", header='#define DATA {a:1b,b:"x"}', use="DATA", exp='{a:1b,b:"x"}', sorts={"nbt"}),
    dict(id="enum0", header="#enum Color RED GREEN BLUE", use="Color.GREEN", exp="1", sorts={"int", "num", "any"}),
    dict(id="enum5", header="#enum Lvl 5 LOW MID HIGH", use="Lvl.HIGH", exp="7", sorts={"int", "num", "any"}),
    dict(id="enumfirst", header="#enum Lvl 5 LOW MID HIGH", use="Lvl.LOW", exp="5", sorts={"int", "num", "any"}),
    dict(id="envset", header="#env DEBUG", use="DEBUG", exp="1", sorts={"int", "num", "any"}, envs=["DEBUG"]),
    dict(id="envunset", header="#env DEBUG", use="DEBUG", exp="0", sorts={"int", "num", "any"}, envs=[]),
    dict(id="envset2", header="#env OTHER\n#env DEBUG\n#env THIRD", use="DEBUG", exp="1", sorts={"int", "num", "any"},
         envs=["OTHER", "DEBUG", "THIRD"]),
    dict(id="envother", header="#env OTHER\n#env DEBUG", use="DEBUG", exp="0", sorts={"int", "num", "any"}, envs=["OTHER"]),
    dict(id="bindns", header="#bind __namespace__ NS", use="NS", exp="TEST", sorts={"block", "any"}),
    dict(id="expr", header="#define DIFF $a - $b", use="DIFF", exp="$a - $b", sorts={"expr"}),
    dict(id="expr2", header="#define PROD $aaaaaaaa * $b", use="PROD", exp="$aaaaaaaa * $b", sorts={"expr"}),
    dict(id="param1", header="#define TWICE(x) x x", use="TWICE(~)", exp="~ ~", sorts={"pos2"}),
    dict(id="param3", header="#define ID(x) x", use="ID(100)", exp="100", sorts={"int", "any"}),
    dict(id="param4", header="#define ID(x) x", use="ID(@e)", exp="@e", sorts={"sel", "any"}),
    dict(id="param5", header="#define ADD(a, b) a b", use="ADD(stone, 64)", exp="stone 64", sorts={"giveargs"}),
    dict(id="chain", header="#define ONE 1\n#define UNO ONE", use="UNO", exp="1", sorts={"int", "num", "any"}),
    dict(id="not", header="#bind NOT\n#define ZERO 0", use="NOT(ZERO)", exp="1", sorts={"int", "any"}),
    dict(id="eval", header="#bind EVAL\n#define FIVE 5", use="EVAL(FIVE*2+1)", exp="11", sorts={"int", "any"}),
]

# id, template, sort accepted, glue-left legal, glue-right legal
USES = [
    dict(id="varop_operand", t="function t() {{ $x +={L}{M}{R}; }}", sort="int", gl=True, gr=True),
    dict(id="assign", t="function t() {{ $x ={L}{M}{R}; }}", sort="int", gl=True, gr=True),
    dict(id="cond_eq", t='function t() {{ if ($x =={L}{M}{R}) {{ say "y"; }} }}', sort="int", gl=True, gr=True),
    dict(id="cond_lt", t='function t() {{ if ({M}{R}<{L}$x && $y > 1) {{ say "y"; }} else {{ say "n"; }} }}', sort="int", gl=True, gr=True),
    dict(id="matches_exact", t='function t() {{ if ($x matches{L}{M}{R}) {{ say "y"; }} }}', sort="int", gl=False, gr=True),
    dict(id="range_hi", t='function t() {{ if ($x matches 1..{M}{R}) {{ say "y"; }} }}', sort="num", gl=True, gr=True, lfixed=""),
    dict(id="range_lo", t='function t() {{ if ($x matches{L}{M}..) {{ say "y"; }} }}', sort="num", gl=False, gr=True, rfixed=""),
    dict(id="cmd_arg_mid", t="function t() {{ tp @s{L}{M}{R}~ ~; }}", sort="int", gl=False, gr=False),
    dict(id="cmd_arg_neg", t="function t() {{ tp @s ~ -{M}{R}~; }}", sort="int", gl=True, gr=False, lfixed=""),
    dict(id="cmd_arg_last", t="function t() {{ scoreboard players set @s obj{L}{M}{R}; }}", sort="int", gl=False, gr=True),
    dict(id="cmd_arg_two", t="function t() {{ effect give @a speed{L}{M}{R}{M}{R}true; }}", sort="int", gl=False, gr=False),
    dict(id="func_kwarg", t='function t() {{ Hardcode.repeat((i)=>{{ say "$i"; }}, start=0, stop=3, step={L}{M}{R}); }}', sort="int", gl=True, gr=True),
    dict(id="func_arg", t="function t() {{ $r = Math.random(1,{L}{M}{R}); }}", sort="int", gl=True, gr=True),
    dict(id="nbt_value", t="function t() {{ data modify storage a:b x set value {{v:{L}{M}{R},w:[{M},{L}{M}{R}]}}; }}", sort="int", gl=True, gr=True),
    dict(id="summon_nbt", t="function t() {{ summon zombie ~ ~ ~ {{Health:{L}{M}{R}}}; }}", sort="int", gl=True, gr=True),
    dict(id="json_value", t='function t() {{ tellraw @a {{"text":"a","extra":[{L}{M}{R}]}}; }}', sort="int", gl=True, gr=True),
    dict(id="expr_operand", t="function t() {{ $x := $y *{L}{M}{R}+ 2; }}", sort="int", gl=True, gr=True),
    dict(id="expr_first", t="function t() {{ $x :={L}{M}{R}- $c; }}", sort="int", gl=True, gr=True),
    dict(id="expr_macro_left", t="function t() {{ $x :={L}{M}{R}- $c; }}", sort="expr", gl=True, gr=True),
    dict(id="expr_macro_right", t="function t() {{ $x := $c -{L}{M}{R}; }}", sort="expr", gl=True, gr=True),
    dict(id="expr_macro_mul", t="function t() {{ $x := $c *{L}{M}{R}/ $d; }}", sort="expr", gl=True, gr=True),
    dict(id="hardcode_calc", t="function t() {{ Hardcode.repeat((i)=>{{ tp @s ~ Hardcode.calc($i*{L}{M}{R}+1) ~; }}, start=0, stop=2); }}", sort="int", gl=True, gr=True),
    dict(id="hardcode_calc_plain", t="function t() {{ Hardcode.repeat((i)=>{{ $x = Hardcode.calc({M}{R}+{L}{M}); }}, start=0, stop=1); }}", sort="int", gl=True, gr=True),
    dict(id="sel_arg", t="function t() {{ kill @e[limit={L}{M}{R},type=pig]; }}", sort="int", gl=True, gr=True),
    dict(id="sel_scores", t="function t() {{ kill @e[scores={{obj={L}{M}{R}}}]; }}", sort="int", gl=True, gr=True),
    dict(id="nbt_index", t="function t() {{ $x = @s::arr[{L}{M}{R}]; }}", sort="int", gl=True, gr=True),
    dict(id="exec_matches", t='function t() {{ execute if score @s obj matches{L}{M}{R}run say "x"; }}', sort="int", gl=False, gr=False),
    dict(id="switch_case", t='function t() {{ switch ($x) {{ case 1: say "a"; case 2: say "b"; }} $y ={L}{M}{R}; }}', sort="int", gl=True, gr=True),
    dict(id="sel_cmd", t="function t() {{ kill{L}{M}{R}; }}", sort="sel", gl=False, gr=True),
    dict(id="sel_bracket_glued", t="function t() {{ kill{L}{M}[tag=a]; }}", sort="sel", gl=False, gr=True, rfixed=""),
    dict(id="sel_bracket_spaced", t="function t() {{ kill{L}{M}{R}[tag=a]; }}", sort="sel", gl=False, gr=False),
    dict(id="sel_exec", t='function t() {{ execute as{L}{M}{R}at @s run say "x"; }}', sort="sel", gl=False, gr=False),
    dict(id="sel_tellraw", t='function t() {{ Text.tellraw({L}{M}{R}, "hi"); }}', sort="sel", gl=True, gr=True),
    dict(id="sel_cond", t='function t() {{ if (entity{L}{M}{R}) {{ say "e"; }} }}', sort="sel", gl=False, gr=True),
    dict(id="selfull_cmd", t="function t() {{ kill{L}{M}{R}; }}", sort="selfull", gl=False, gr=True),
    dict(id="selfull_more", t="function t() {{ tp{L}{M}{R}~ ~ ~; }}", sort="selfull", gl=False, gr=False),
    dict(id="selfull_bracket2", t="function t() {{ kill{L}{M}[tag=a]; }}", sort="selfull", gl=False, gr=True, rfixed=""),
    dict(id="selfull_exec", t='function t() {{ execute as{L}{M}{R}run say "x"; }}', sort="selfull", gl=False, gr=False),
    dict(id="block_give", t="function t() {{ give @s{L}{M}{R}1; }}", sort="block", gl=False, gr=False),
    dict(id="block_nbt_glued", t="function t() {{ give @s{L}{M}{{a:1b}} 1; }}", sort="block", gl=False, gr=True, rfixed=""),
    dict(id="block_nbt_spaced", t="function t() {{ give @s{L}{M}{R}{{a:1b}} 1; }}", sort="block", gl=False, gr=False),
    dict(id="block_setblock", t="function t() {{ setblock ~ ~ ~{L}{M}{R}; }}", sort="block", gl=False, gr=True),
    dict(id="block_if", t='function t() {{ execute if block ~ ~ ~{L}{M}{R}run say "x"; }}', sort="block", gl=False, gr=False),
    dict(id="pos_tp", t="function t() {{ tp @s{L}{M}{R}; }}", sort="pos", gl=False, gr=True),
    dict(id="pos_exec", t='function t() {{ execute positioned{L}{M}{R}run say "x"; }}', sort="pos", gl=False, gr=False),
    dict(id="pos2_tp", t="function t() {{ tp @s{L}{M}{R}~; }}", sort="pos2", gl=False, gr=False),
    dict(id="var_op", t="function t() {{ {M}{R}+={L}1; $y ={L}{M}{R}; }}", sort="var", gl=True, gr=True),
    dict(id="var_cond", t='function t() {{ if ({M}{R}>{L}3) {{ say "x"; }} }}', sort="var", gl=True, gr=True),
    dict(id="str_say", t="function t() {{ say{L}{M}{R}; }}", sort="str", gl=False, gr=True),
    dict(id="str_tellraw", t="function t() {{ tellraw @a{L}{M}{R}; }}", sort="str", gl=False, gr=True),
    dict(id="str_funcarg", t="function t() {{ Text.tellraw(@a,{L}{M}{R}); }}", sort="str", gl=True, gr=True),
    dict(id="nbt_set", t="function t() {{ data modify storage a:b x set value{L}{M}{R}; }}", sort="nbt", gl=False, gr=True),
    dict(id="nbt_give", t="function t() {{ give @s stone[a=1]{M}{R}1; }}", sort="nbt", gl=True, gr=False, lfixed=""),
    dict(id="giveargs", t="function t() {{ give @s{L}{M}{R}; }}", sort="giveargs", gl=False, gr=True),
]

# occurrences that must be left alone (inside strings, as part of a longer word): with and without the header -> same output
LEFT_ALONE = [
    ('#define N 100', 'function t() { say "N is N"; tellraw @a "N"; }'),
    ('#define N 100', 'function t() { scoreboard players set NN obj 1; scoreboard players set xN obj 2; scoreboard players set N_1 obj 3; }'),
    ('#define N 100', 'function t() { $N = 1; $xN += 2; tp @s ~N ~ ~; }'),
    ('#define N 100', "function t() { tellraw @a {\"text\":\"N\",\"color\":\"red\"}; data modify storage a:b N.x set value 'N'; }"),
    ('#define tell say', 'function t() { say "tell"; }\nfunction tellit() { say "x"; }'),
    ('#define BLOCK stone', 'function t() { give @s BLOCKS 1; give @s my_BLOCK 1; give @s BLOCK.x 1; say "BLOCK"; }'),
    ('#enum Color RED GREEN', 'function t() { say "Color.RED"; scoreboard players set Color.REDX obj 1; }'),
    ('#env DEBUG', 'function t() { say "DEBUG"; scoreboard players set DEBUGGER obj 1; }'),
    ('#bind __namespace__ NS', 'function t() { say "NS"; scoreboard players set NSX obj 1; }'),
    ('#define P @e', 'function t() { kill @P; say "P"; tp @s ~ ~ ~; }'),
]


def fits(macro, use) -> bool:
    return use["sort"] in macro["sorts"]


def spacings(use):
    """(L, R) spacing variants: 0..3 spaces on each side; 0 only where gluing is legal."""
    ls = [use["lfixed"]] if "lfixed" in use else [" " * k for k in range(0 if use["gl"] else 1, 4)]
    rs = [use["rfixed"]] if "rfixed" in use else [" " * k for k in range(0 if use["gr"] else 1, 4)]
    return [(l, r) for l in ls for r in rs]


def instantiate(use, text, l, r) -> str:
    return PRE + use["t"].format(L=l, M=text, R=r) + "\n"
