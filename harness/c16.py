"""C16 — header macros are equivalent to their hand-written expansion.

proof step      : Props/C16.v (Model/Layout.v append_token + expand_macro, Model/Macro.v header directives)
tie             : header text + use-site text -> real header parser + tokenizer == model (token streams with their
                  synthetic positions, _macro_length, _macro_end; Header.number_macros; CustomOrder.__lt__ grid)
search / oracle : metamorphic on the real compiler only: (program using a macro, compiled with the header) vs
                  (the same program with the expansion written by hand, no header) over macro definitions x use-site
                  kinds x spacing variants 0-3, plus occurrences inside strings / longer words that must be left alone.
"""
from __future__ import annotations

import itertools
import json
import os

import c15_model as M
import c16_corpus as K
import c16_names as NM
import c16_round4 as R4
import c16_multiline as ML
from pathlib import Path
from c15 import RUNNER, file_diff, known_entries, same_result
from c15_corpus import FULL_CERT
from lib import (Check, COMMON_TRUSTED, compile_batch, coq_bool, coq_list, coq_str, coq_z, eval_cases, run_py)

PROP = "C16"
RUNNER16 = Path(__file__).with_name("c16_run.py")

HEADER16 = ("From Coq Require Import ZArith String List Bool Ascii.\n"
            "From JMCV Require Import Model.Layout Model.Macro Run.Common Run.C15 Run.C16.\n"
            "Import ListNotations.\nOpen Scope string_scope.\n")


# --------------------------------------------------------------------------- metamorphic pairs

SELECTOR_ARG_FINDING = "C16-selector-argument-of-macro"
NESTED_FINDING = "C16-macro-in-macro-body-adjacency"


def gen_pairs(rng, tier, rel_stats=None, selector_args=False, nested=False):
    pairs = []
    rel_stats = {} if rel_stats is None else rel_stats
    # strengthening round 1: pairs generated from RELATIONS between names / texts (c16_names)
    q = tier == "quick"
    pairs += NM.param_pairs(rng, 260 if q else 2000, rel_stats.setdefault("parameterised", {}), selector_args=selector_args)
    pairs += NM.calc_pairs(rng, 220 if q else 1500, rel_stats.setdefault("integer_names", {}))
    pairs += NM.alone_pairs(rng, 120 if q else 800, rel_stats.setdefault("left_alone", {}))
    # strengthening round 4: #enum numbering against an independent table, Hardcode.calc bodies with text around the
    # bracket, a macro used inside another macro's body (only on a tree that has the repair / on demand)
    pairs += R4.enum_pairs(rng, 320 if q else 2400, rel_stats.setdefault("enum_numbering", {}))
    pairs += R4.body_pairs(rng, 240 if q else 1600, rel_stats.setdefault("calc_scope", {}))
    if nested:
        pairs += R4.nested_pairs(rng, 80 if q else 500, rel_stats.setdefault("macro_in_macro_body", {}))
    # strengthening round 5: multi-line argument lists of parameterised macros, every kind of token after the `)`
    pairs += ML.pairs(rel_stats.setdefault("multiline_arguments", {}))
    for m in K.MACROS:
        for u in K.USES:
            if not K.fits(m, u):
                continue
            sp = K.spacings(u)
            if tier == "quick" and len(sp) > 5:
                # always keep the fully glued, the extreme and the two-spaces-after variants (the shapes of the
                # adjacency defects), sample the rest
                keep = {sp[0], sp[-1]} | {s for s in sp if len(s[1]) == 2 and len(s[0]) <= 1}
                rest = [s for s in sp if s not in keep]
                sp = sorted(keep) + rng.sample(rest, min(len(rest), 2))
            for l, r in sp:
                a = K.instantiate(u, m["use"], l, r)
                b = K.instantiate(u, m["exp"], l, r)
                pairs.append(dict(macro=m["id"], use=u["id"], l=len(l), r=len(r), header=m["header"], envs=m.get("envs", []),
                                  a=a, b=b))
    for header, src in K.LEFT_ALONE:
        pairs.append(dict(macro="left-alone", use="left-alone", l=0, r=0, header=header, envs=[], a=K.PRE + src, b=K.PRE + src))
    # several macros in one program
    objs = [m for m in K.MACROS if "\n" not in m["header"] and "(" not in m["use"] and m["id"] not in ("envunset", "enumfirst")]
    for _ in range(20 if tier == "quick" else 200):
        ms = rng.sample(objs, 3)
        if len({m["header"].split()[1] for m in ms}) < 3:
            continue
        body_a, body_b = [], []
        for m in ms:
            us = [u for u in K.USES if K.fits(m, u)]
            if not us:
                continue
            u = rng.choice(us)
            l, r = rng.choice(K.spacings(u))
            inner_a = u["t"].format(L=l, M=m["use"], R=r)
            inner_b = u["t"].format(L=l, M=m["exp"], R=r)
            body_a.append(inner_a.replace("function t()", "function t%d()" % len(body_a)))
            body_b.append(inner_b.replace("function t()", "function t%d()" % len(body_b)))
        envs = [e for m in ms for e in m.get("envs", [])]
        pairs.append(dict(macro="+".join(m["id"] for m in ms), use="mixed", l=-1, r=-1,
                          header="\n".join(m["header"] for m in ms), envs=envs,
                          a=K.PRE + "\n".join(body_a) + "\n", b=K.PRE + "\n".join(body_b) + "\n"))
    return pairs


def job_a(p):
    j = dict(src=p["a"], header=p["header"], cert=FULL_CERT)
    if p["envs"]:
        j["envs"] = p["envs"]
    return j


def job_b(p):
    return dict(src=p["b"], cert=FULL_CERT)


def known_class(p, ra, rb):
    for f in known_entries(PROP):
        m = f.get("match", {})
        if m.get("macros") and p["macro"] not in m["macros"]:
            continue
        if m.get("selector_arg") and not p.get("selector_arg"):
            continue
        if m.get("nested") and not p.get("nested"):
            continue
        if m.get("msg_contains") and (ra["ok"] or not any(x in ra["msg"] for x in m["msg_contains"])):
            continue
        if m.get("uses") and p["use"] not in m["uses"]:
            continue
        if m.get("outcome") == "macro-version-rejected" and (ra["ok"] or not rb["ok"]):
            continue
        if m.get("exc") and (ra["ok"] or ra["exc"] not in m["exc"]):
            continue
        return f
    return None


# --------------------------------------------------------------------------- one process, changing definitions

def seq_job(step, src=None, with_header=True):
    j = dict(src=step["a"] if src is None else src, cert=FULL_CERT, namespace=step["namespace"])
    if with_header:
        j["header"] = step["header"]
        if step["envs"]:
            j["envs"] = step["envs"]
    return j


def run_sequence(jobs):
    """compile the jobs in order in ONE process"""
    return compile_batch(jobs, chunk=max(1, len(jobs)))


def one_statement(step, key, hand=False):
    a, b = step["statements"][key]
    return K.PRE + "function t() {\n    " + (b if hand else a) + "\n}\n"


def sequences(ck, rng, stats):
    """Macro tables are process state: the same program text compiled after a compile with DIFFERENT definitions of the
    same names must give ITS OWN hand expansion.  Returns (#steps, #failing steps)."""
    seqs = NM.sequence_sets(rng, stats)
    flat = [seq_job(st) for seq in seqs for st in seq]
    L = max(len(seq) for seq in seqs)
    # pad every sequence to the same length so that compile_batch's chunks are exactly the sequences
    padded, index = [], []
    for si, seq in enumerate(seqs):
        for k in range(L):
            padded.append(seq_job(seq[k]) if k < len(seq) else dict(src="", cert=FULL_CERT))
            index.append((si, k) if k < len(seq) else None)
    ra = compile_batch(padded, chunk=L)
    hands = compile_batch([dict(src=st["b"], cert=FULL_CERT, namespace=st["namespace"]) for seq in seqs for st in seq], chunk=40)
    hand_of, n = {}, 0
    for si, seq in enumerate(seqs):
        for k in range(len(seq)):
            hand_of[(si, k)] = hands[n]
            n += 1
    failing = 0
    reported = set()
    for pos, r in zip(index, ra):
        if pos is None:
            continue
        si, k = pos
        st, hb = seqs[si][k], hand_of[pos]
        if not hb["ok"] and not r["ok"]:
            continue
        if same_result(r, hb) and r["ok"] == hb["ok"]:
            continue
        failing += 1
        if st["family"] in reported:
            continue
        reported.add(st["family"])
        # minimise: (1) one predecessor + this step, (2) one statement
        seq = seqs[si]
        pre, stmt = list(range(k)), None
        alone = run_sequence([seq_job(st)])[0]
        if not same_result(alone, hb):
            pre = []
        else:
            for j in range(k):
                if not same_result(run_sequence([seq_job(seq[j]), seq_job(st)])[1], hb):
                    pre = [j]
                    break
        for key in st["statements"]:
            jobs = [seq_job(seq[j], one_statement(seq[j], key)) for j in pre] + [seq_job(st, one_statement(st, key))]
            hb1 = run_sequence([dict(src=one_statement(st, key, hand=True), cert=FULL_CERT, namespace=st["namespace"])])[0]
            if not same_result(run_sequence(jobs)[-1], hb1):
                stmt = key
                break
        if stmt is not None:
            seq_jobs = [seq_job(seq[j], one_statement(seq[j], stmt)) for j in pre] + [seq_job(st, one_statement(st, stmt))]
            hand_job = dict(src=one_statement(st, stmt, hand=True), cert=FULL_CERT, namespace=st["namespace"])
        else:
            seq_jobs = [seq_job(seq[j]) for j in pre] + [seq_job(st)]
            hand_job = dict(src=st["b"], cert=FULL_CERT, namespace=st["namespace"])
        got, want = run_sequence(seq_jobs)[-1], run_sequence([hand_job])[0]
        ck.violation(dict(
            kind="macro-differs-from-hand-expansion-after-earlier-compile", family=st["family"], statement=stmt,
            note="the jobs of `sequence` are compiled in order in ONE process; the LAST one must equal `hand_expanded`",
            sequence=seq_jobs, with_macro=seq_jobs[-1], hand_expanded=hand_job, expected="identical virtual file maps",
            actual=(dict(differing_files=file_diff(want["files"], got["files"])) if got["ok"] and want["ok"] else
                    dict(with_macro=got.get("exc", "compiles"), hand_expanded=want.get("exc", "compiles"))),
        ))
    return sum(len(s) for s in seqs), failing


# --------------------------------------------------------------------------- model tie

USE_LINES = [
    "tp @s {M} ~ ~;", "tp @s {M}  ~ ~;", "tp @s  {M}   ~;", "kill {M}[tag=a];", "kill {M} [tag=a];", "kill {M}  [tag=a];",
    "$x += {M};", "$x +={M};", "$x := $y * {M}+ 2;", "$x := {M} - $c;", "give @s {M}{a:1b} 1;", "give @s {M} {a:1b};",
    "say \"{M}\"; tellraw @a {M};", "x{M} {M}x {M}.y {M};", "-{M}- {M}", "f({M}, {M},{M})", "{M}", "{M};{M} {M};",
    "a[{M}]{M}[{M}] ;", "{M}\n{M}  {M}\n;",
]


def header_cases(rng, tier, check_end, case_fix, nest_fix, stats):
    jobs, meta = [], []
    for m in K.MACROS:
        use = m["use"]
        for ul in USE_LINES:
            src = ul.replace("{M}", use)
            for es in (True, False):
                if not es and ";" in src:
                    continue
                jobs.append(dict(string=src, line=rng.choice([1, 3]), col=rng.choice([1, 1, 5]), expect_semicolon=es,
                                 allow_last=False, header=m["header"], envs=m.get("envs", [])))
                meta.append(m["id"])
    # headers with several directives, comments, blank lines, duplicates, odd shapes
    extra_headers = [
        "#define A 1\n#define B 2\n\n// comment\n#define C A B\n#enum E 3 X Y Z\n#env DEV\n#bind __namespace__ NS",
        "#define A 1\n#define A 2",
        "#enum E X\n#enum E 10 X Y",
        "#define EMPTY\n#define F(x) x x\n#define G (x) y",
        "#define S 'it''s'\n#define T \"a b\" c",
        "#enum E 007 A B\n#define NUM 12 34\n#define NEG -5",
        "#credit \"me\"\n#define Z 0\n#nometa",
        "   \n#define SP    a     b[c]   {d}  ",
        "#define N 100 // trailing comment\n#define M N N",
    ]
    for h in extra_headers:
        for src in ["A B C E.X E.Y E.Z DEV NS;", "EMPTY x EMPTY[1] G S T;", "NUM NEG Z SP;SP[M];", "N M  M[N];"]:
            jobs.append(dict(string=src, line=1, col=1, expect_semicolon=True, allow_last=False, header=h, envs=["DEV"]))
            meta.append("multi")
    # round 4: #enum lines (explicit start 0, number-like / dotted / repeated members, two lines), macros used inside
    # macro bodies
    for h, src in R4.enum_headers(rng, 40 if tier == "quick" else 150, stats):
        jobs.append(dict(string=src, line=1, col=1, expect_semicolon=True, allow_last=False, header=h, envs=[]))
        meta.append("enum")
    for h in R4.NESTED_HEADERS:
        for src in R4.NESTED_USES:
            jobs.append(dict(string=src, line=1, col=rng.choice([1, 4]), expect_semicolon=src.endswith(";"), allow_last=False,
                             header=h, envs=[]))
            meta.append("nested")
    res = run_py(RUNNER, dict(op="parse", jobs=jobs), timeout=900)
    terms, raw = [], []
    for j, r, mid in zip(jobs, res, meta):
        if not M.is_ascii(j["string"]) or (r["ok"] and not M.tokens_ascii(r["programs"])):
            continue
        real = "None"
        if r["ok"]:
            real = "(Some " + coq_list(coq_list(M.rtok_term(t) for t in st) for st in r["programs"]) + ")"
        num = coq_list(f"({coq_str(k)}, {coq_str(v)})" for k, v in sorted((r.get("num") or {}).items()))
        terms.append(f"(mkHCase {coq_str(j['header'])} {coq_list(coq_str(e) for e in j['envs'])} {coq_str('TEST')} "
                     f"{coq_bool(case_fix)} {coq_bool(nest_fix)} {coq_bool(j['expect_semicolon'])} {coq_z(j['line'])} {coq_z(j['col'])} {coq_str(j['string'])} "
                     f"{coq_bool(check_end)} {real} {num})")
        raw.append((j, r, mid))
    return terms, raw


def arg_ptok(text):
    """(type, text) of the ONE token a macro argument becomes (tokenizer.append_token merges the tokens of an
    argument; a string literal stays a STRING token, everything else the generator writes is a glued KEYWORD)"""
    if text[:1] in "\"'":
        return ("STRING", text[1:-1])
    return ("KEYWORD", text)


def param_tie(pairs):
    """(d) parameterised macros: real tokens of `KEY(args)` vs Model.MacroSubst.param_expand on the real tokenisation
    of the #define line.  -> (terms, raw, skipped)"""
    cand = [p for p in pairs if p.get("tie") and "params" in p["tie"]]
    jobs = []
    for p in cand:
        jobs.append(dict(string=p["header"][1:], line=1, col=2, expect_semicolon=False, allow_last=False))
        jobs.append(dict(string=p["tie"]["use"], line=1, col=1, expect_semicolon=False, allow_last=False, header=p["header"]))
    res = run_py(RUNNER, dict(op="parse", jobs=jobs), timeout=600) if jobs else []
    terms, raw, skipped = [], [], 0
    pt = lambda t: f"({t[0]}, {coq_str(t[1])})"
    for k, p in enumerate(cand):
        line, use = res[2 * k], res[2 * k + 1]
        if not line["ok"] or not use["ok"] or len(line["programs"]) != 1 or len(use["programs"]) != 1:
            skipped += 1
            continue
        toks = line["programs"][0]
        body = [(t[0], t[3]) for t in toks[3:]]
        real = [(t[0], t[3]) for t in use["programs"][0]]
        args = [arg_ptok(a) for a in p["tie"]["args"]]
        if not all(M.is_ascii(x[1]) for x in body + real + args):
            skipped += 1
            continue
        terms.append(f"(mkPCase {coq_list(coq_str(x) for x in p['tie']['params'])} {coq_list(pt(a) for a in args)} "
                     f"{coq_list(pt(b) for b in body)} {coq_list(pt(r) for r in real)})")
        raw.append(dict(header=p["header"], use=p["tie"]["use"], real=real))
    return terms, raw, skipped


def calc_tie(pairs, rng):
    """(e) Hardcode.calc: the text the real hardcode_parse_calc hands to the evaluator vs Model.MacroSubst.calc_text,
    on the generated name sets: expressions over the names, and junk built from names, digits and letters glued
    together (unknown longer words, names next to digits).  -> (terms, raw)"""
    cand = [p for p in pairs if p.get("tie") and "exprs" in p["tie"]]
    hjobs = [dict(string="x", line=1, col=1, expect_semicolon=False, allow_last=False, header=p["header"]) for p in cand]
    hres = run_py(RUNNER, dict(op="parse", jobs=hjobs), timeout=600) if hjobs else []
    jobs = []
    for p, h in zip(cand, hres):
        if not h["ok"]:
            continue
        num = [[k, v] for k, v in h["num"].items()]
        names = p["tie"]["names"]
        exprs = [e.replace("$i", str(rng.randint(0, 9))) for e in p["tie"]["exprs"]]
        for _ in range(2):
            parts = [rng.choice(names + names + ["", "7", "x", "_", ".", " ", "+", "*", "(1)", "12"]) for _ in range(rng.randint(1, 5))]
            exprs.append("".join(parts))
        for e in exprs:
            if e.count("(") == e.count(")") and M.is_ascii(e):
                jobs.append(dict(num=num, expr=e))
    res = run_py(RUNNER, dict(op="calc", jobs=jobs), timeout=600) if jobs else []
    terms, raw = [], []
    for j, r in zip(jobs, res):
        if r["ok"]:
            real = "None" if r["text"] is None else f"(Some {coq_str(r['text'])})"
        elif r["exc"] == "JMCSyntaxException" and "Invalid character" in r["msg"]:
            real = "None"
        else:
            continue            # unbalanced text etc.: not part of the substitution
        num = coq_list(f"({coq_str(k)}, {coq_str(v)})" for k, v in j["num"])
        terms.append(f"(mkCCase {num} {coq_str('(' + j['expr'] + ')')} {real})")
        raw.append(dict(job=j, real=r))
    return terms, raw


def order_cases(rng):
    """(a, b): a = the operator being pushed (always the LATER token of the expression, so its line is never smaller),
    b = the operator on top of the stack; columns are arbitrary (macro expansion synthesises them)."""
    vals = [(10, True), (20, True), (30, False), (0, True)]
    pairs = []
    for (oa, la), (ob, lb) in itertools.product(vals, vals):
        for _ in range(6):
            lb_line = rng.randint(1, 3)
            a = [oa, rng.randint(lb_line, 3), rng.randint(1, 9), la]
            b = [ob, lb_line, rng.randint(1, 9), lb]
            pairs.append((a, b))
        pairs.append(([oa, 2, 5, la], [ob, 2, 5, lb]))
    return pairs


def main(tier: str) -> int:
    ck = Check(PROP, tier)
    ck.cov["trusted_base"] = COMMON_TRUSTED + [
        "Model/Layout.v (append_token, expand_macro, end_macro, is_connected, custom_lt) and Model/Macro.v (#define object-like, #enum, "
        "#env, #bind __namespace__, number_macros): hand-written ports; tied to /repo on every run by exact equality of the token "
        "streams (with synthetic positions) the real header parser + tokenizer produce for header text + use-site text, of "
        "Header.number_macros, and of CustomOrder.__lt__ on a grid",
        "Model/MacroSubst.v: param_expand (template + factory of header_parse.__create_macro_factory at the level of token type "
        "and text) tied to the tokens the real tokenizer produces for `KEY(args)`; calc_text (the str.replace loop of "
        "hardcode_parse_calc, longest name first, and its character check) tied to the text the real function hands to eval_expr",
        "Model/MacroEnum.v (enum_value, expand_words) and Model/MacroScope.v (find_sub, scan, calc_step, calc_all = one call of "
        "command/utils.py:hardcode_parse_calc and the callers' loop, the arithmetic evaluator a parameter): hand-written; tied by the #enum "
        "header token streams + number_macros and by whole body texts run through the real hardcode_parse_calc (marker evaluator); "
        "Model/Macro.v norm_body = header_parse.__template_columns of fixes/C16-macro-in-macro-body-adjacency.patch (the tree is probed by "
        "behaviour and the matching model variant is used)",
        "outside the model: macros with parameters, #deepdefine, EVAL/NOT, __namehash__/__UUID__ (metamorphic runs only); what the "
        "lexer does with tokens (reads positions only through is_connected / CustomOrder - checked by the metamorphic pairs)",
    ]
    ck.proof(extra_targets=["Run/C16.vo"])

    # ---- metamorphic pairs
    rel_stats = {}
    probe = run_py(RUNNER, dict(op="probe"), timeout=60)
    # `KILL(@e[type=pig])`: rejected by a tree without fixes/C16-selector-argument-of-macro.patch.  Such arguments are
    # generated when the tree has the fix (then they must pass), when the finding is listed (then they are reported as
    # KNOWN-FINDING) or on demand (VERIF_C16_SELECTOR_ARGS=1: demonstrates the defect as a VIOLATION).
    # (integrator) the repair is part of /repo now (known_findings.json `fixed`): always generated, so that a tree that
    # loses the repair is reported again.
    selector_args = True
    # a macro used inside another macro's body (`#define SEL @e`, `#define NEAR SEL[distance=..5]`) loses / invents
    # adjacency on a tree without fixes/C16-macro-in-macro-body-adjacency.patch.  Same gating: generated when the tree
    # has the repair (probed by behaviour), when the finding is listed, or on demand (VERIF_C16_NESTED=1: VIOLATION).
    probe.update(run_py(RUNNER16, dict(op="probe"), timeout=60))
    # (integrator) repaired upstream (fix: c14a0b2): the model is always the REPAIRED one and the nested pairs are always
    # generated; the probes are kept in the evidence only.
    nest_fix = True
    nested = True
    probe["has_end"] = True     # Token._macro_end (fix: adjacency) and the case-label fix are part of /repo:
    probe["case_fix"] = True    # the model variants without them are no longer selected by probing
    pairs = gen_pairs(ck.rng, tier, rel_stats, selector_args, nested)
    ra = compile_batch([job_a(p) for p in pairs], chunk=60)
    rb = compile_batch([job_b(p) for p in pairs], chunk=60)
    n_valid, n_invalid, differing = 0, 0, []
    for p, a, b in zip(pairs, ra, rb):
        if not a["ok"] and not b["ok"]:
            n_invalid += 1          # the site does not accept this expansion at all (both rejected)
            continue
        n_valid += 1
        if not same_result(a, b) or (a["ok"] != b["ok"]):
            differing.append((p, a, b))
    viol_n, known_n = 0, 0
    seen_use, order = {}, []
    for d in differing:
        u = d[0]["use"]
        seen_use[u] = seen_use.get(u, 0) + 1
        order.append((seen_use[u], d))
    order.sort(key=lambda x: x[0])          # one pair of every use-site kind first
    reported = set()
    for rank, (p, a, b) in order:
        kf = known_class(p, a, b)
        if kf:
            ck.known(kf["id"], kf["what"])
            known_n += 1
            continue
        viol_n += 1
        sig = (p["macro"], p["use"])
        if sig in reported or len(reported) >= 12:
            continue
        reported.add(sig)
        ck.violation(dict(
            kind="macro-differs-from-hand-expansion", macro=p["macro"], use_site=p["use"], spaces=[p["l"], p["r"]],
            with_macro=job_a(p), hand_expanded=job_b(p), expected="identical virtual file maps",
            actual=(dict(with_macro=(a["exc"] + ": " + a["msg"][:300]) if not a["ok"] else "compiles",
                         hand_expanded=(b["exc"] + ": " + b["msg"][:300]) if not b["ok"] else "compiles")
                    if not (a["ok"] and b["ok"]) else dict(differing_files=file_diff(b["files"], a["files"]))),
        ))

    # ---- the same program with changing definitions in one process
    seq_stats = {}
    seq_steps, seq_failing = sequences(ck, ck.rng, seq_stats)
    viol_n += seq_failing

    # ---- model tie
    tie_stats = {}
    terms, raw = header_cases(ck.rng, tier, bool(probe["has_end"]), bool(probe["case_fix"]), nest_fix, tie_stats)
    bad, errs = eval_cases(PROP, HEADER16, terms, per_file=250, list_name="cases", checker="hmismatches")
    uns, errs2 = eval_cases(PROP, HEADER16, terms, per_file=250, checker="hunsupported", prefix="uns")
    opairs = order_cases(ck.rng)
    oreal = run_py(RUNNER, dict(op="order", pairs=opairs), timeout=120)
    oterms = [f"(mkOCase (mkOrd {coq_z(a[0])} {coq_z(a[1])} {coq_z(a[2])} {coq_bool(a[3])}) "
              f"(mkOrd {coq_z(b[0])} {coq_z(b[1])} {coq_z(b[2])} {coq_bool(b[3])}) {coq_bool(bool(r))})"
              for (a, b), r in zip(opairs, oreal) if r is not None]
    obad, errs3 = eval_cases(PROP, HEADER16, oterms, per_file=400, checker="omismatches", prefix="order")
    pterms, praw, pskipped = param_tie(pairs)
    pbad, errs4 = eval_cases(PROP, HEADER16, pterms, per_file=300, checker="pmismatches", prefix="param")
    cterms, craw = calc_tie(pairs, ck.rng)
    cbad, errs5 = eval_cases(PROP, HEADER16, cterms, per_file=300, checker="cmismatches", prefix="calc")
    # (f) whole bodies: the callers' loop over the real hardcode_parse_calc vs Model.MacroScope.calc_all
    bjobs = R4.body_ties([p for p in pairs if p["macro"] == "calc-scope"], ck.rng, 150 if tier == "quick" else 600)
    bjobs = [j for j in bjobs if M.is_ascii(j["body"])]
    breal = run_py(RUNNER16, dict(op="body", jobs=bjobs), timeout=600)
    bterms, braw = [], []
    for j, r in zip(bjobs, breal):
        if r["ok"]:
            real = f"(Some {coq_str(r['text'])})"
        elif r["exc"] == "JMCSyntaxException":
            real = "None"
        else:
            real = f"(Some {coq_str('<<' + r['exc'] + '>>')})"       # any other exception is a disagreement
        num = coq_list(f"({coq_str(k)}, {coq_str(v)})" for k, v in j["num"])
        bterms.append(f"(mkBCase {num} {coq_str(j['body'])} {real})")
        braw.append(dict(job=j, real=r))
    bbad, errs6 = eval_cases(PROP, HEADER16, bterms, per_file=200, checker="bmismatches", prefix="body")
    errs3 = errs3 + errs4 + errs5 + errs6
    # (g) round 5: the last token of the expansion of `KEY(<multi-line argument list>)` ends where the bracket's TEXT ends
    ejobs, ewant = ML.end_jobs(ck.rng)
    ereal = run_py(RUNNER, dict(op="parse", jobs=ejobs), timeout=300)
    ebad = []
    for j, w, r in zip(ejobs, ewant, ereal):
        got = tuple(r["programs"][0][-1][5] or ()) if r["ok"] and r["programs"] and r["programs"][0] else None
        if got != w:
            ebad.append(dict(header=j["header"], text=j["string"], line=j["line"], col=j["col"], expected_macro_end=list(w),
                             real_macro_end=list(got) if got else (r.get("exc") if not r["ok"] else None)))
    note = ("the Coq model (of the repaired macro position synthesis / number_macros / CustomOrder) no longer describes the code; "
            + ("see the macro-differs-from-hand-expansion replays of this run for failing inputs" if viol_n
               else "the metamorphic search found no failing input"))
    for e in errs + errs2 + errs3:
        ck.violation(dict(kind="correspondence-file-failed", log=e), no_input=True)
    if bad:
        ck.violation(dict(kind="macro-token-correspondence-differs", n=len(bad), note=note,
                          cases=[dict(header=raw[i][0]["header"], text=raw[i][0]["string"], real=raw[i][1]) for i in bad[:3]]),
                     no_input=True)
    if pbad:
        ck.violation(dict(kind="parameter-substitution-correspondence-differs", n=len(pbad), note=note,
                          model="Model.MacroSubst.param_expand", cases=[praw[i] for i in pbad[:3]]), no_input=True)
    if cbad:
        ck.violation(dict(kind="hardcode-calc-substitution-correspondence-differs", n=len(cbad), note=note,
                          model="Model.MacroSubst.calc_text", cases=[craw[i] for i in cbad[:3]]), no_input=True)
    if bbad:
        ck.violation(dict(kind="hardcode-calc-scope-correspondence-differs", n=len(bbad), note=note,
                          model="Model.MacroScope.calc_all (scope of the substitution = the bracket of Hardcode.calc)",
                          cases=[braw[i] for i in bbad[:3]]), no_input=True)
    if ebad:
        ck.violation(dict(kind="macro-end-of-multiline-bracket-differs", n=len(ebad), note=note,
                          spec="c16_multiline.text_end: (line, col) right after the text of the replaced argument bracket",
                          cases=ebad[:3]), no_input=True)
    if obad:
        ck.violation(dict(kind="custom-order-correspondence-differs", n=len(obad), note=note,
                          cases=[dict(a=opairs[i][0], b=opairs[i][1], real=oreal[i]) for i in obad[:4]]), no_input=True)

    hist = {}
    for p in pairs:
        hist[p["use"]] = hist.get(p["use"], 0) + 1
    ck.cov.update(dict(
        evaluations=len(pairs) + len(terms) + len(oterms) + seq_steps + len(pterms) + len(cterms) + len(bterms),
        distinct_nontrivial=len({(p["a"], p["header"]) for p in pairs}),
        rule="metamorphic pair = (macro definition, use-site kind, left/right spacing 0-3): program with the macro + header vs "
             "hand-expanded program, file maps must be identical; left-alone pairs: same program with and without the header; "
             "distinct = distinct (program, header); tie cases = header x use-site line token streams + number_macros, CustomOrder grid",
        macros=len(K.MACROS), use_site_kinds=len(K.USES), pairs=len(pairs), valid_pairs=n_valid, both_rejected=n_invalid,
        differing_pairs=len(differing), known_pairs=known_n, disagreements_checked=len(differing),
        use_site_histogram=hist, programs=2 * len(pairs), relation_cases=rel_stats,
        selector_arguments_generated=selector_args, nested_macro_bodies_generated=nested, tree_variants=probe,
        same_process_sequences=dict(seq_stats, failing_steps=seq_failing,
                                    rule="each sequence = one program text compiled in ONE process under successive different "
                                         "definitions of the same macro name (both orders); every step == its own hand expansion"),
        relation_pairs_valid={m: sum(1 for p, a, b in zip(pairs, ra, rb) if p["macro"] == m and (a["ok"] or b["ok"]))
                              for m in ("param-relations", "int-name-relations", "left-alone-relations", "enum-numbering",
                                        "calc-scope", "macro-in-macro-body", "multiline-arguments")},
        model_tie=dict(header_token_cases=len(terms), mismatches=len(bad), model_declined=len(uns),
                       custom_order_cases=len(oterms), custom_order_mismatches=len(obad),
                       parameter_substitution_cases=len(pterms), parameter_substitution_mismatches=len(pbad),
                       parameter_substitution_skipped=pskipped,
                       hardcode_calc_cases=len(cterms), hardcode_calc_mismatches=len(cbad),
                       hardcode_body_cases=len(bterms), hardcode_body_mismatches=len(bbad),
                       multiline_bracket_end_cases=len(ejobs), multiline_bracket_end_mismatches=len(ebad),
                       header_case_kinds=dict(tie_stats)),
        samples=[dict(header=p["header"], with_macro=p["a"], hand=p["b"]) for p in pairs[:2]],
    ))
    return ck.finish()


def replay(path: str) -> int:
    rp = json.loads(open(path).read())
    if "with_macro" not in rp:
        print("replay file has no input (correspondence/proof breakage): ", rp.get("kind"))
        print(json.dumps(rp, indent=1)[:3000])
        return 1
    if rp.get("sequence"):
        a = run_sequence(rp["sequence"])[-1]
        b = compile_batch([rp["hand_expanded"]], chunk=1)[0]
        print("compiled in one process, in this order:")
        for j in rp["sequence"]:
            print("  header: %r  envs: %r  namespace: %r" % (j.get("header"), j.get("envs"), j.get("namespace")))
    else:
        a, b = compile_batch([rp["with_macro"], rp["hand_expanded"]], chunk=1)
    print("header:\n%s\n--- with macro\n%s--- hand-expanded\n%s" % (rp["with_macro"].get("header"), rp["with_macro"]["src"],
                                                                   rp["hand_expanded"]["src"]))
    print("expected: identical outputs")
    if a["ok"] and b["ok"] and a["files"] == b["files"]:
        print("actual: identical (property holds on this input)")
        return 0
    if not a["ok"] or not b["ok"]:
        print("actual: with macro ->", a.get("exc", "compiles"), "| hand-expanded ->", b.get("exc", "compiles"))
    else:
        for k, d in file_diff(b["files"], a["files"]).items():
            print("actual: differs in", k, "\n", d)
    return 1
