"""Lexical segmentation of a JMC source text and the re-layouts used by C15 (pure Python, no jmc import).

`segments(src)` splits a program into
    ("code", text)    maximal run of non-layout characters outside string literals
    ("str",  text)    a string literal including its quotes (', ", `), escapes respected, may span lines
    ("hash", text)    a `# ...` comment line at the start of a statement, *including* its newline (kept verbatim:
                      the property is about `//` comments; `#` comments end at the newline by design)
    ("lay",  text)    a layout run: maximal sequence of whitespace characters and `// ...` comments
The concatenation of the segment texts is the source.  Only "lay" segments are ever rewritten, and always to a
non-empty run of space / tab / newline characters, optionally containing `// ...` comments each ended by a newline
and preceded by at least one whitespace character - exactly the `relayout` relation of coq/Model/Layout.v.
"""
from __future__ import annotations

WS = " \t\n\r\x0b\x0c"
QUOTES = "'\"`"


def segments(src: str) -> list[tuple[str, str]]:
    segs: list[tuple[str, str]] = []
    i, n = 0, len(src)
    last_code = ""          # last code character seen (to recognise `#` at the start of a statement)

    def push(kind, text):
        if not text:
            return
        if segs and segs[-1][0] == kind and kind in ("code", "lay"):
            segs[-1] = (kind, segs[-1][1] + text)
        else:
            segs.append((kind, text))

    while i < n:
        c = src[i]
        if c in QUOTES:
            j = i + 1
            esc = False
            while j < n:
                d = src[j]
                if esc:
                    esc = False
                elif d == "\\":
                    esc = True
                elif d == c:
                    break
                j += 1
            push("str", src[i:j + 1])
            last_code = '"'
            i = j + 1
        elif c in WS:
            push("lay", c)
            i += 1
        elif c == "/" and i + 1 < n and src[i + 1] == "/":
            j = src.find("\n", i)
            if j < 0:
                j = n
            else:
                j += 1          # the newline that ends the comment belongs to the run
            push("lay", src[i:j])
            i = j
        elif c == "#" and last_code in ("", ";", "{", "}"):
            j = src.find("\n", i)
            j = n if j < 0 else j + 1
            segs.append(("hash", src[i:j]))
            i = j
        else:
            push("code", c)
            last_code = c
            i += 1
    return segs


def join(segs) -> str:
    return "".join(t for _, t in segs)


def relayout(src: str, fn) -> str:
    """Rewrite every layout run r (with index k, bracket depth d and neighbours) to fn(k, d, r, prev_kind, next_kind).
    fn must return a valid layout run (checked)."""
    segs = segments(src)
    out = []
    depth = 0
    k = 0
    for idx, (kind, text) in enumerate(segs):
        if kind == "lay":
            prev_kind = segs[idx - 1][0] if idx > 0 else None
            next_kind = segs[idx + 1][0] if idx + 1 < len(segs) else None
            new = fn(k, depth, text, prev_kind, next_kind)
            assert is_layout_run(new), repr(new)
            # a `#` line comment must stay at the start of a line / must not swallow what follows
            if next_kind == "hash" and not new.endswith("\n"):
                new += "\n"
            out.append(new)
            k += 1
        else:
            if kind == "code":
                for ch in text:
                    if ch in "([{":
                        depth += 1
                    elif ch in ")]}":
                        depth -= 1
            out.append(text)
    return "".join(out)


def is_layout_run(r: str) -> bool:
    """non-empty; starts with whitespace (or is the file's own original run); every `//` comment preceded by
    whitespace and ended by a newline"""
    if not r:
        return False
    i = 0
    while i < len(r):
        c = r[i]
        if c in " \t\n":
            i += 1
        elif r.startswith("//", i):
            if i == 0:
                return False
            j = r.find("\n", i)
            if j < 0:
                return False
            i = j + 1
        else:
            return False
    return True


COMMENT_TEXTS = ["c", "note", "see a/b/", "TODO: fix (later)", "it's \"quoted\" [x {y", "x = 1; y", "", "a // b", "tail)", "/"]


def layouts(rng):
    """name -> function(src) -> re-laid-out source.  Each call of a random layout draws from rng."""

    def single_line(src):
        return relayout(src, lambda k, d, r, p, n: " ")

    def token_per_line(src):
        return relayout(src, lambda k, d, r, p, n: "\n")

    def tabs(src):
        return relayout(src, lambda k, d, r, p, n: "\t")

    def random_runs(src):
        def f(k, d, r, p, n):
            m = rng.choice([1, 1, 2, 3, 5])
            return "".join(rng.choice(" \t\n  ") for _ in range(m))
        return relayout(src, f)

    def trailing_comments(src):
        def f(k, d, r, p, n):
            t = rng.choice(COMMENT_TEXTS[:4]) if rng.random() < 0.8 else rng.choice(COMMENT_TEXTS)
            return " //" + (" " + t if t else "") + "\n" + " " * rng.choice([0, 0, 4])
        return relayout(src, f)

    def newline_in_brackets(src):
        return relayout(src, lambda k, d, r, p, n: ("\n" + "  " * d) if d > 0 else (r if is_layout_run(r) and not r.startswith("/") else " "))

    def wide(src):
        return relayout(src, lambda k, d, r, p, n: "   ")

    def mixed_comments(src):
        def f(k, d, r, p, n):
            x = rng.random()
            if x < 0.5:
                return rng.choice([" ", "\n", "\t", "  "])
            if x < 0.8:
                return "\n\n" + " " * rng.randint(0, 6)
            return " // " + rng.choice(COMMENT_TEXTS) + "\n"
        return relayout(src, f)

    return {
        "single_line": single_line, "token_per_line": token_per_line, "random_runs": random_runs, "tabs": tabs,
        "trailing_comments": trailing_comments, "newline_in_brackets": newline_in_brackets, "wide": wide,
        "mixed_comments": mixed_comments,
    }
