"""Lexical segmentation of a JMC source text and the re-layouts used by C15 (pure Python, no jmc import).

`segments(src)` splits a program into
    ("code", text)    maximal run of non-layout characters outside string literals
    ("str",  text)    a string literal including its quotes (', ", `), escapes respected, may span lines
    ("hash", text)    a `# ...` comment line at the start of a statement, *including* its newline (kept verbatim:
                      the property is about `//` comments; `#` comments end at the newline by design)
    ("lay",  text)    a layout run: maximal sequence of whitespace characters and `// ...` comments
The concatenation of the segment texts is the source.  Only "lay" segments are ever rewritten, and always to a
non-empty run of space / tab / newline characters, optionally containing `// ...` comments each ended by a newline
and preceded by at least one whitespace character - exactly the `relayout` relation of coq/Model/Layout.v - or
(strengthening round 1) to a run whose FIRST comment is glued to the preceding token (`tp @s ~ ~1// up` + newline):
legal wherever the preceding character is not `/` (Props/C15.v: C15_glued_comment), and, for the last run of a file,
to a comment that is ended by the end of the file instead of a newline.
"""
from __future__ import annotations

WS = " \t\n\r\x0b\x0c"
QUOTES = "'\"`"


def segments(src: str) -> list[tuple[str, str]]:
    segs: list[tuple[str, str]] = []
    i, n = 0, len(src)
    last_code = ""          # last code character seen (to recognise `#` at the start of a statement)

    def push(kind, text):
        if not text:
            return
        if segs and segs[-1][0] == kind and kind in ("code", "lay"):
            segs[-1] = (kind, segs[-1][1] + text)
        else:
            segs.append((kind, text))

    while i < n:
        c = src[i]
        if c in QUOTES:
            j = i + 1
            esc = False
            while j < n:
                d = src[j]
                if esc:
                    esc = False
                elif d == "\\":
                    esc = True
                elif d == c:
                    break
                j += 1
            push("str", src[i:j + 1])
            last_code = '"'
            i = j + 1
        elif c in WS:
            push("lay", c)
            i += 1
        elif c == "/" and i + 1 < n and src[i + 1] == "/":
            j = src.find("\n", i)
            if j < 0:
                j = n
            else:
                j += 1          # the newline that ends the comment belongs to the run
            push("lay", src[i:j])
            i = j
        elif c == "#" and last_code in ("", ";", "{", "}"):
            j = src.find("\n", i)
            j = n if j < 0 else j + 1
            segs.append(("hash", src[i:j]))
            i = j
        else:
            push("code", c)
            last_code = c
            i += 1
    return segs


def join(segs) -> str:
    return "".join(t for _, t in segs)


class Ctx:
    """What a context-aware re-layout function sees of a layout run: index k, bracket depth, the old run, the kinds of
    the neighbouring segments, the last character before the run (`""` at the start of the file), the class of the
    token the run follows (PREV_CLASSES) and whether a comment may be glued to it / may be ended by the end of file."""
    __slots__ = ("k", "depth", "run", "prev_kind", "next_kind", "prev_last", "prev_class", "glue_ok", "eof_ok")


PREV_CLASSES = ("start", "word", "number", "selector", "operator", "open", "round", "square", "curly", "string",
                "semicolon", "comma", "hash", "slash")


def prev_class(prev_kind, prev_text: str) -> str:
    """class of the token a layout run follows (for the evidence: which kinds of tokens had a comment glued to them)"""
    if prev_kind is None:
        return "start"
    if prev_kind == "str":
        return "string"
    if prev_kind == "hash":
        return "hash"
    c = prev_text[-1]
    if c == "/":
        return "slash"
    if c in ")]}":
        return {")": "round", "]": "square", "}": "curly"}[c]
    if c == ";":
        return "semicolon"
    if c == ",":
        return "comma"
    if c in "({[":
        return "open"
    if c in "+-*><=%:!|&?\\":
        return "operator"
    j = len(prev_text)
    while j > 0 and not (prev_text[j - 1] in "+-*/><=%:!|&?\\()[]{};," or prev_text[j - 1] in WS):
        j -= 1
    word = prev_text[j:]
    if word.startswith("@"):
        return "selector"
    if word.lstrip("~^-.").replace(".", "").isdigit() or word in ("~", "^"):
        return "number"
    return "word"


def relayout(src: str, fn, ctx: bool = False, stats: dict | None = None) -> str:
    """Rewrite every layout run r (with index k, bracket depth d and neighbours) to fn(k, d, r, prev_kind, next_kind)
    (ctx=False) or fn(Ctx) (ctx=True).  fn must return a valid layout run (checked).  `stats` (optional) counts, per
    class of the preceding token, the runs that were given a comment glued to that token."""
    segs = segments(src)
    out = []
    depth = 0
    k = 0
    for idx, (kind, text) in enumerate(segs):
        if kind == "lay":
            prev_kind = segs[idx - 1][0] if idx > 0 else None
            next_kind = segs[idx + 1][0] if idx + 1 < len(segs) else None
            prev_last = segs[idx - 1][1][-1:] if idx > 0 else ""
            glue_ok = prev_last != "/"
            eof_ok = next_kind is None
            if ctx:
                c = Ctx()
                c.k, c.depth, c.run, c.prev_kind, c.next_kind, c.prev_last = k, depth, text, prev_kind, next_kind, prev_last
                c.prev_class = prev_class(prev_kind, segs[idx - 1][1] if idx > 0 else "")
                c.glue_ok, c.eof_ok = glue_ok, eof_ok
                new = fn(c)
                assert is_layout_run(new, glue_ok, eof_ok), repr(new)
                if stats is not None and new.startswith("//"):
                    stats[c.prev_class] = stats.get(c.prev_class, 0) + 1
            else:
                new = fn(k, depth, text, prev_kind, next_kind)
                assert is_layout_run(new), repr(new)
            # a `#` line comment must stay at the start of a line / must not swallow what follows
            if next_kind == "hash" and not new.endswith("\n"):
                new += "\n"
            out.append(new)
            k += 1
        else:
            if kind == "code":
                for ch in text:
                    if ch in "([{":
                        depth += 1
                    elif ch in ")]}":
                        depth -= 1
            out.append(text)
    return "".join(out)


def is_layout_run(r: str, glue_ok: bool = False, eof_ok: bool = False) -> bool:
    """non-empty; every `//` comment ended by a newline (or, if eof_ok, by the end of the run = end of the file) and
    preceded by whitespace (or, if glue_ok, standing at the very start of the run = glued to the preceding token)"""
    if not r:
        return False
    i = 0
    while i < len(r):
        c = r[i]
        if c in " \t\n":
            i += 1
        elif r.startswith("//", i):
            if i == 0 and not glue_ok:
                return False
            j = r.find("\n", i)
            if j < 0:
                return eof_ok
            i = j + 1
        else:
            return False
    return True


COMMENT_TEXTS = ["c", "note", "see a/b/", "TODO: fix (later)", "it's \"quoted\" [x {y", "x = 1; y", "", "a // b", "tail)", "/"]

# comment CONTENT by what it contains (strengthening round 1); every text is used with and without a blank after `//`
NASTY_COMMENTS = {
    "ends_in_slash": ["see a/b/", "/", "x /"],
    "slashes_again": ["a // b", "//", "///", "/ / /"],
    "quotes": ["it's", "say \"hi", "'", "\"", "it's \"quoted\" [x {y", "`tick"],
    "brackets": ["tail)", "}", "]", "{", "(", "f(x[0]{", ")]}"],
    "hash": ["#", "# not a directive", "#define N 1"],
    "semicolon": ["x = 1; y", ";", "$x += 1;"],
    "backslash": ["\\", "ends with a backslash \\", "C:\\path\\n", "\\\""],
    "operators": ["=", "= 3", "*/", "/* block */", "=> {", "&& ||"],
    "code_like": ["$x += 1", "@s ~ ~ ~", "function f() {", "http://example.com/a?b=c#d", "Hardcode.calc(1+1)"],
    "non_ascii": ["\u00e9\u00fc \u2014 \u2713", "\u65e5\u672c\u8a9e", "caf\u00e9 //\u00a0x"],
    "blank": ["", " ", "\t tab"],
}


def layouts(rng, stats: dict | None = None):
    """name -> function(src) -> re-laid-out source.  Each call of a random layout draws from rng.  `stats` (optional)
    receives counts: stats["glued_after"][class of preceding token], stats["content"][content class]."""
    if stats is None:
        stats = {}
    glued_after = stats.setdefault("glued_after", {})
    content_n = stats.setdefault("content", {})
    frames = stats.setdefault("frames", {})

    def comment(nasty: bool) -> str:
        """`//` + text (no newline)"""
        if nasty:
            cls = rng.choice(sorted(NASTY_COMMENTS))
            t = rng.choice(NASTY_COMMENTS[cls])
        else:
            cls = "plain"
            t = rng.choice(COMMENT_TEXTS[:4])
        content_n[cls] = content_n.get(cls, 0) + 1
        return "//" + rng.choice(["", " "]) + t

    def frame(src: str, out: str, nasty: bool) -> str:
        """a comment line before the first token and a comment ended by the end of the file after the last one
        (`adding // comments at line ends`: the first and the last line of a file are lines too)"""
        segs = segments(out)
        if segs and segs[0][0] != "lay":
            out = comment(nasty) + "\n" + out
            frames["leading_comment_line"] = frames.get("leading_comment_line", 0) + 1
        if segs and segs[-1][0] != "lay" and not out.endswith("/"):
            out = out + comment(nasty)
            frames["glued_comment_at_eof"] = frames.get("glued_comment_at_eof", 0) + 1
        return out

    def single_line(src):
        return relayout(src, lambda k, d, r, p, n: " ")

    def token_per_line(src):
        return relayout(src, lambda k, d, r, p, n: "\n")

    def tabs(src):
        return relayout(src, lambda k, d, r, p, n: "\t")

    def random_runs(src):
        def f(k, d, r, p, n):
            m = rng.choice([1, 1, 2, 3, 5])
            return "".join(rng.choice(" \t\n  ") for _ in range(m))
        return relayout(src, f)

    def trailing_comments(src):
        def f(k, d, r, p, n):
            t = rng.choice(COMMENT_TEXTS[:4]) if rng.random() < 0.8 else rng.choice(COMMENT_TEXTS)
            return " //" + (" " + t if t else "") + "\n" + " " * rng.choice([0, 0, 4])
        return relayout(src, f)

    def newline_in_brackets(src):
        return relayout(src, lambda k, d, r, p, n: ("\n" + "  " * d) if d > 0 else (r if is_layout_run(r) and not r.startswith("/") else " "))

    def wide(src):
        return relayout(src, lambda k, d, r, p, n: "   ")

    def mixed_comments(src):
        def f(k, d, r, p, n):
            x = rng.random()
            if x < 0.5:
                return rng.choice([" ", "\n", "\t", "  "])
            if x < 0.8:
                return "\n\n" + " " * rng.randint(0, 6)
            return " // " + rng.choice(COMMENT_TEXTS) + "\n"
        return relayout(src, f)

    # ---- strengthening round 1: comments glued to the preceding token, nasty comment content, file frame
    def glued_comments(src):
        """EVERY run becomes a comment glued to the token before it (where that token does not end in `/`): each
        statement is continued over as many lines as it has tokens"""
        def f(c):
            tail = "\n" + " " * rng.choice([0, 0, 2])
            return (comment(False) if c.glue_ok else " " + comment(False)) + tail
        return relayout(src, f, ctx=True, stats=glued_after)

    def glued_some(src):
        """one run in four gets a glued comment, the others keep their text: statements continued over two or three lines"""
        def f(c):
            if rng.random() < 0.25 and c.glue_ok:
                return comment(rng.random() < 0.3) + "\n" + " " * rng.choice([0, 4])
            return c.run if is_layout_run(c.run, c.glue_ok, c.eof_ok) else " "
        return relayout(src, f, ctx=True, stats=glued_after)

    def nasty_comments(src):
        """every run gets a comment with nasty content (ending in `/`, quotes, brackets, `#`, `;`, backslashes, `//`,
        non-ASCII), glued or after a blank; plus a leading comment line and a comment ended by the end of the file"""
        def f(c):
            glue = c.glue_ok and rng.random() < 0.5
            cm = comment(True)
            if c.eof_ok and rng.random() < 0.5:
                return (cm if glue else rng.choice([" ", "\t", "\n"]) + cm)
            return (cm if glue else rng.choice([" ", "\t", "  "]) + cm) + "\n" + rng.choice(["", "", "\t", "\n"])
        return frame(src, relayout(src, f, ctx=True, stats=glued_after), True)

    return {
        "single_line": single_line, "token_per_line": token_per_line, "random_runs": random_runs, "tabs": tabs,
        "trailing_comments": trailing_comments, "newline_in_brackets": newline_in_brackets, "wide": wide,
        "mixed_comments": mixed_comments, "glued_comments": glued_comments, "glued_some": glued_some,
        "nasty_comments": nasty_comments,
    }


def aligned_segments(base_src: str, new_src: str):
    """segments of base and of a re-layout of it, made comparable: a re-layout may add a layout run before the first
    and after the last token of the file (file frame); the base gets an EMPTY layout run there.  None if the two texts
    are not re-layouts of each other."""
    a, b = segments(base_src), segments(new_src)
    if b and b[0][0] == "lay" and (not a or a[0][0] != "lay"):
        a = [("lay", "")] + a
    if b and b[-1][0] == "lay" and (not a or a[-1][0] != "lay"):
        a = a + [("lay", "")]
    if [k for k, _ in a] != [k for k, _ in b]:
        return None
    if any(k != "lay" and t != u for (k, t), (_, u) in zip(a, b)):
        return None
    return a, b
