"""Shared harness library for the /verif checks (see harness/README.md).

Everything here is plain Python 3 (run with /venv/bin/python).  The real compiler
is always run in *sub-processes* (`jmc_run.py` or a property-specific runner) with
PYTHONPATH=<repo>/src so that checks always see /repo's current working tree.
"""
from __future__ import annotations

import fcntl
import hashlib
import json
import os
import random
import re
import subprocess
import sys
import time
from concurrent.futures import ThreadPoolExecutor
from pathlib import Path

VERIF = Path(__file__).resolve().parent.parent
REPO = Path(os.environ.get("JMC_REPO", "/repo"))
COQ = VERIF / "coq"
TAG = os.environ.get("VERIF_RUN_TAG", "")          # lets several runs (e.g. against seeded worktrees) coexist
GEN = COQ / "Gen" / TAG if TAG else COQ / "Gen"
EVID = Path(os.environ.get("VERIF_EVIDENCE_DIR", str(VERIF / "evidence")))
REPLAYS = Path(os.environ.get("VERIF_REPLAY_DIR", str(VERIF / "replays")))
PY = "/venv/bin/python"
NCPU = int(os.environ.get("VERIF_JOBS", "16"))
SEED = int(os.environ.get("VERIF_SEED", "0") or 0)

INT_MIN, INT_MAX = -(2**31), 2**31 - 1


# --------------------------------------------------------------------------- real compiler

def repo_env(hashseed: str = "0", extra: dict | None = None) -> dict:
    env = dict(os.environ)
    env["PYTHONPATH"] = str(REPO / "src")
    env["PYTHONHASHSEED"] = hashseed
    env["JMC_VERIF"] = "1"
    env["PYTHONDONTWRITEBYTECODE"] = "1"
    if extra:
        env.update(extra)
    return env


def run_py(script: str | Path, payload, timeout: int = 600, hashseed: str = "0", cwd=None, extra_env=None):
    """Run a runner script under the repo's interpreter with JSON stdin/stdout."""
    p = subprocess.run(
        [PY, str(script)], input=json.dumps(payload).encode(), stdout=subprocess.PIPE,
        stderr=subprocess.PIPE, env=repo_env(hashseed, extra_env), timeout=timeout, cwd=cwd,
    )
    if p.returncode != 0:
        raise RuntimeError(f"runner {script} failed rc={p.returncode}: {p.stderr.decode()[-3000:]}")
    return json.loads(p.stdout.decode())


def compile_batch(jobs: list[dict], chunk: int = 200, timeout: int = 900, hashseed: str = "0") -> list[dict]:
    """Compile every job with the real compiler (virtual build, JMCTestPack).  Order preserved."""
    if not jobs:
        return []
    chunks = [jobs[i:i + chunk] for i in range(0, len(jobs), chunk)]
    runner = VERIF / "harness" / "jmc_run.py"
    with ThreadPoolExecutor(max_workers=NCPU) as ex:
        results = list(ex.map(lambda c: run_py(runner, c, timeout=timeout, hashseed=hashseed), chunks))
    return [r for rs in results for r in rs]


def functions_of(files: dict, ns: str = "TEST") -> dict:
    """{function path without extension: text} for the functions of namespace ns (either folder convention)."""
    out = {}
    for k, v in files.items():
        m = re.match(r"VIRTUAL/data/%s/functions?/(.*)\.mcfunction$" % re.escape(ns), k)
        if m:
            out[m.group(1)] = v
    return out


# --------------------------------------------------------------------------- Coq term writers

def coq_str(s: str) -> str:
    """Coq string literal (byte string; the text is encoded as UTF-8)."""
    return '"' + s.replace('"', '""') + '"'


def coq_z(n: int) -> str:
    return f"({n})%Z"


def coq_nat(n: int) -> str:
    return f"{n}%nat"


def coq_bool(b: bool) -> str:
    return "true" if b else "false"


def coq_list(items) -> str:
    return "[" + "; ".join(items) + "]"


def coq_opt(x) -> str:
    return "None" if x is None else f"(Some {x})"


def coq_pair(a, b) -> str:
    return f"({a}, {b})"


# --------------------------------------------------------------------------- Coq build / evaluation

class _Lock:
    def __init__(self, path):
        self.path = path

    def __enter__(self):
        self.f = open(self.path, "w")
        fcntl.flock(self.f, fcntl.LOCK_EX)

    def __exit__(self, *a):
        fcntl.flock(self.f, fcntl.LOCK_UN)
        self.f.close()


def coq_make(targets: list[str] | None = None, timeout: int = 1500) -> tuple[bool, str]:
    """(Re)build the committed development (full .vo build).  targets like 'Props/C01.vo'."""
    with _Lock(COQ / ".build.lock"):
        subprocess.run(["sh", str(COQ / "gen_project.sh")], check=True)
        if not (COQ / "Makefile").exists() or (COQ / "_CoqProject").stat().st_mtime > (COQ / "Makefile").stat().st_mtime:
            subprocess.run(["coq_makefile", "-f", "_CoqProject", "-o", "Makefile"], cwd=COQ, check=True,
                           stdout=subprocess.DEVNULL)
        cmd = ["timeout", str(timeout), "make", f"-j{NCPU}"] + (targets or [])
        p = subprocess.run(cmd, cwd=COQ, stdout=subprocess.PIPE, stderr=subprocess.STDOUT)
        return p.returncode == 0, p.stdout.decode(errors="replace")


def coqc_file(path: Path, timeout: int = 600) -> tuple[bool, str]:
    """Compile one generated file under coq/Gen (logical path JMCV.Gen....)."""
    p = subprocess.run(["timeout", str(timeout), "coqc", "-Q", str(COQ), "JMCV", str(path)],
                       cwd=COQ, stdout=subprocess.PIPE, stderr=subprocess.STDOUT)
    return p.returncode == 0, p.stdout.decode(errors="replace")


def gen_dir(prop: str) -> Path:
    d = GEN / prop
    d.mkdir(parents=True, exist_ok=True)
    for f in d.iterdir():
        if f.is_file():
            f.unlink()
    return d


def run_coq_files(prop: str, files: list[tuple[str, str]], timeout: int = 600, clean: bool = True) -> list[tuple[bool, str]]:
    """Write (name, text) files into coq/Gen/<prop>/ and coqc them in parallel.  Returns (ok, output) per file."""
    d = gen_dir(prop) if clean else (GEN / prop)
    d.mkdir(parents=True, exist_ok=True)
    paths = []
    for name, text in files:
        p = d / name
        p.write_text(text)
        paths.append(p)
    with ThreadPoolExecutor(max_workers=NCPU) as ex:
        return list(ex.map(lambda p: coqc_file(p, timeout), paths))


def parse_nat_list(out: str, marker: str = "") -> list[int]:
    """Parse `= [1%nat; 2%nat] : list nat` (possibly wrapped) from coqc output.
    If marker is given, looks only after the line containing it."""
    if marker:
        i = out.find(marker)
        if i < 0:
            raise ValueError(f"marker {marker} not found in coq output: {out[-2000:]}")
        out = out[i + len(marker):]
    m = re.search(r"=\s*(\[[^\]]*\]|nil)", out, re.S)
    if not m:
        raise ValueError("no list in coq output: " + out[-2000:])
    return [int(x) for x in re.findall(r"\d+", m.group(1))]


def parse_coq_strings(out: str) -> list[str]:
    """All Coq string literals printed in `out` ("..."%string or "..."), unescaped."""
    res = []
    for m in re.finditer(r'"((?:[^"]|"")*)"', out, re.S):
        res.append(m.group(1).replace('""', '"'))
    return res


def eval_cases(prop: str, header: str, cases: list[str], per_file: int = 400, list_name: str = "cases",
               checker: str = "mismatches", timeout: int = 600, prefix: str = "cases") -> tuple[list[int], list[str]]:
    """Generic correspondence evaluation.
    `header`  : Coq text (Require Imports, local definitions); must make available a
                function  <checker> : list T -> list nat  returning the (0-based)
                indices of the cases on which model and implementation differ.
    `cases`   : Coq terms of type T (each embeds input and the implementation's output).
    Returns (global indices of mismatching cases, error outputs of files that failed to compile)."""
    files = []
    for fi, start in enumerate(range(0, len(cases), per_file)):
        chunk = cases[start:start + per_file]
        body = header + f"\nDefinition {list_name} := [\n" + ";\n".join(chunk) + "\n].\n"
        body += f'Eval vm_compute in {checker} {list_name}.\n'
        files.append((f"{prefix}_{fi}.v", body))
    outs = run_coq_files(prop, files, timeout=timeout)
    bad, errs = [], []
    for fi, (ok, out) in enumerate(outs):
        if not ok:
            errs.append(f"{files[fi][0]}: {out[-3000:]}")
            continue
        for i in parse_nat_list(out):
            bad.append(fi * per_file + i)
    return bad, errs


def eval_strings(prop: str, header: str, exprs: list[str], name: str = "show.v", timeout: int = 300) -> list[str]:
    """Evaluate Coq string-valued expressions, one `Eval vm_compute` each; returns the strings."""
    body = header + "\n" + "\n".join(f"Eval vm_compute in ({e})." for e in exprs) + "\n"
    (ok, out), = run_coq_files(prop, [(name, body)], timeout=timeout, clean=False)
    if not ok:
        raise RuntimeError("coq evaluation failed: " + out[-3000:])
    res = []
    for blk in re.split(r"\n\s*=\s", "\n" + out)[1:]:
        ss = parse_coq_strings(blk)
        res.append(ss[0] if ss else "")
    return res


# --------------------------------------------------------------------------- proof step

FORBIDDEN = re.compile(r"\b(Admitted|admit|Axiom|Axioms|Parameter|Parameters|Conjecture|Conjectures|Hypothesis|Hypotheses|Variable|Variables|"
                       r"Context|Unset Guard|Guard Checking|Positivity Checking|Universe Checking|bypass_check|type-in-type|"
                       r"impredicative-set|Admit Obligations)\b")
SECTION_ONLY = ("Variable", "Variables", "Hypothesis", "Hypotheses", "Context")


def strip_coq_comments(s: str) -> str:
    out, depth, i = [], 0, 0
    while i < len(s):
        if s.startswith("(*", i):
            depth += 1; i += 2
        elif s.startswith("*)", i) and depth:
            depth -= 1; i += 2
        else:
            if depth == 0:
                out.append(s[i])
            i += 1
    return "".join(out)


def dep_closure(rel: str) -> list[Path]:
    """Transitive `From JMCV Require …` closure of coq/<rel> (files of this development only)."""
    seen, todo = {}, [rel]
    while todo:
        r = todo.pop()
        if r in seen:
            continue
        p = COQ / r
        if not p.exists():
            continue
        seen[r] = p
        text = strip_coq_comments(p.read_text())
        for m in re.finditer(r"From\s+JMCV\s+Require\s+(?:Import|Export)?\s*(.*?)\.(?:\s|$)", text, re.S):
            for mod in m.group(1).split():
                todo.append(mod.replace(".", "/") + ".v")
        for m in re.finditer(r"(?<!JMCV )Require\s+(?:Import|Export)?\s*(.*?)\.(?:\s|$)", text, re.S):
            for mod in m.group(1).split():
                if mod.startswith("JMCV."):
                    todo.append(mod[len("JMCV."):].replace(".", "/") + ".v")
    return [seen[k] for k in sorted(seen)]


def audit_sources(rel: str | None = None) -> list[str]:
    """Forbidden vernacular in the development (Variable/Hypothesis allowed inside a Section).
    rel = 'Props/C01.v' restricts the audit to that file's dependency closure; None = every committed file."""
    problems = []
    files = dep_closure(rel) if rel else [p for p in sorted(COQ.rglob("*.v")) if "Gen" not in p.relative_to(COQ).parts]
    for p in files:
        text = strip_coq_comments(p.read_text())
        depth = 0
        for ln, line in enumerate(text.split("\n"), 1):
            if re.match(r"\s*Section\b", line):
                depth += 1
            if re.match(r"\s*End\b", line) and depth:
                depth -= 1
            for m in FORBIDDEN.finditer(line):
                w = m.group(1)
                if w in SECTION_ONLY and depth > 0:
                    continue
                if w in SECTION_ONLY and not re.match(r"\s*(Variables?|Hypothes[ie]s|Context)\b", line):
                    continue
                problems.append(f"{p.relative_to(COQ)}:{ln}: {w}")
    return problems


def proof_step(prop: str, extra_targets: list[str] | None = None) -> dict:
    """Build Props/<prop>.vo (and deps), collect theorem names and Print Assumptions output."""
    t0 = time.time()
    target = f"Props/{prop}.vo"
    # force re-check of the property file itself so Print Assumptions output is fresh
    vo = COQ / target
    extra_targets = list(extra_targets or [])
    if (COQ / f"Run/{prop}.v").exists() and f"Run/{prop}.vo" not in extra_targets:
        extra_targets.append(f"Run/{prop}.vo")
    ok, out = coq_make(extra_targets + [target])
    if ok and "Closed under the global context" not in out and "Axioms:" not in out:
        # up to date: rebuild only the Props file to capture its output
        for ext in (".vo", ".glob", ".vok", ".vos"):
            q = COQ / f"Props/{prop}{ext}"
            if q.exists():
                q.unlink()
        ok, out = coq_make([target])
    src = (COQ / f"Props/{prop}.v").read_text() if (COQ / f"Props/{prop}.v").exists() else ""
    src_nc = strip_coq_comments(src)
    theorems = re.findall(r"^\s*(?:Theorem|Lemma|Corollary|Example)\s+([A-Za-z0-9_']+)", src_nc, re.M)
    assumptions = []
    for blk in re.finditer(r"(Closed under the global context|Axioms:\n(?:.+\n?)*?)(?=\n\S|\Z)", out):
        assumptions.append(blk.group(1).strip())
    closed = out.count("Closed under the global context")
    axioms = sorted(set(re.findall(r"^([A-Za-z_][\w.']*)\s*:", "\n".join(a for a in assumptions if a.startswith("Axioms")), re.M)))
    audit = audit_sources(f"Props/{prop}.v")
    dep_files = [str(p.relative_to(COQ)) for p in dep_closure(f"Props/{prop}.v")]
    return {
        "ok": ok and not audit, "build_ok": ok, "log": out[-6000:], "theorems": theorems,
        "n_print_assumptions": len(assumptions), "closed": closed, "axioms": axioms,
        "audit": audit, "files": dep_files, "wall_s": round(time.time() - t0, 2),
        "refuted": [t for t in theorems if "refuted" in t or "partial" in t],
    }


# --------------------------------------------------------------------------- findings, replays, evidence

def load_known() -> dict:
    p = VERIF / "known_findings.json"
    if not p.exists():
        return {"findings": [], "fixed": []}
    return json.loads(p.read_text())


def known_for(prop: str) -> list[dict]:
    return [f for f in load_known().get("findings", []) if f.get("property") == prop]


def write_replay(prop: str, obj: dict) -> str:
    d = REPLAYS / prop
    d.mkdir(parents=True, exist_ok=True)
    blob = json.dumps(obj, indent=1, sort_keys=True, default=str)
    h = hashlib.sha1(blob.encode()).hexdigest()[:12]
    p = d / f"{h}.json"
    p.write_text(blob)
    try:
        return str(p.relative_to(VERIF))
    except ValueError:
        return str(p)


class Check:
    """Book-keeping of one check run: violations, known findings, evidence."""

    def __init__(self, prop: str, tier: str):
        self.prop, self.tier = prop, tier
        self.t0 = time.time()
        self.violations: list[str] = []
        self.known_hit: dict[str, int] = {}
        self.cov: dict = {}
        self.assumptions: list[str] = []
        self.rng = random.Random(SEED * 1000003 + int(hashlib.sha1(prop.encode()).hexdigest()[:6], 16))

    def violation(self, replay: dict, no_input: bool = False):
        replay = dict(replay)
        replay.setdefault("property", self.prop)
        replay.setdefault("repo", str(REPO))
        path = write_replay(self.prop, replay)
        line = f"VIOLATION property={self.prop} replay={path}"
        if no_input:
            line += " no-failing-input-found"
        print(line, flush=True)
        self.violations.append(path)

    def known(self, finding_id: str, what: str):
        if finding_id not in self.known_hit:
            print(f"KNOWN-FINDING: property={self.prop} {what}", flush=True)
        self.known_hit[finding_id] = self.known_hit.get(finding_id, 0) + 1

    def proof(self, extra_targets=None) -> dict:
        pr = proof_step(self.prop, extra_targets)
        self.cov["obligations"] = max(1, len(pr["theorems"]))
        self.cov["discharged"] = len(pr["theorems"]) if pr["ok"] else 0
        self.cov["theorems"] = pr["theorems"]
        self.cov["coq_files"] = pr["files"]
        self.cov["refuted_or_partial_theorems"] = pr["refuted"]
        self.cov["axioms"] = pr["axioms"] or ["none (every Print Assumptions: Closed under the global context)"]
        self.cov["print_assumptions_closed"] = pr["closed"]
        self.cov["checker_cmd"] = f"make -C coq Props/{self.prop}.vo  (coqc 8.16.1, full .vo build)"
        if pr["ok"] and self.tier == "thorough" and not os.environ.get("VERIF_NO_COQCHK"):
            self.coqchk()
        if not pr["ok"]:
            self.violation({
                "kind": "proof-obligation-broken",
                "what": f"Props/{self.prop}.v (or a dependency) no longer checks",
                "audit": pr["audit"], "log": pr["log"],
            }, no_input=True)
        return pr

    def coqchk(self, timeout: int = 1500):
        """Thorough tier: re-check Props/<prop>.vo and everything it depends on with the independent checker."""
        t0 = time.time()
        p = subprocess.run(["timeout", str(timeout), "coqchk", "-o", "-silent", "-Q", str(COQ), "JMCV", f"JMCV.Props.{self.prop}"],
                           cwd=COQ, stdout=subprocess.PIPE, stderr=subprocess.STDOUT)
        out = p.stdout.decode(errors="replace")
        m = re.search(r"\* Axioms:(.*?)\n\s*\n\* Constants", out, re.S)
        axioms = [a.strip() for a in (m.group(1).split("\n") if m else []) if a.strip()]
        self.cov["coqchk"] = {"rc": p.returncode, "axioms": axioms, "wall_s": round(time.time() - t0, 1),
                              "summary": out[-700:]}
        if p.returncode != 0:
            self.violation({"kind": "coqchk-failed", "log": out[-3000:]}, no_input=True)

    def finish(self, level: str = "proof") -> int:
        self.cov.setdefault("trusted_base", [])
        self.cov["known_findings_hit"] = self.known_hit
        ev = {
            "property_id": self.prop, "tier": self.tier, "seed": SEED, "level": level,
            "coverage": self.cov, "assumptions": self.assumptions,
            "wall_s": round(time.time() - self.t0, 2), "violations": len(self.violations),
        }
        EVID.mkdir(parents=True, exist_ok=True)
        (EVID / f"{self.prop}.json").write_text(json.dumps(ev, indent=1, default=str))
        if self.violations:
            return 1
        print(f"OK property={self.prop} tier={self.tier} wall={ev['wall_s']}s", flush=True)
        return 0


COMMON_TRUSTED = [
    "Coq 8.16.1 kernel (coqc; vm_compute used, native_compute not used)",
    "MC/Syntax.v + MC/Sem.v: hand-written specification of the Minecraft commands JMC emits (Minecraft itself is not available)",
    "MC/Print.v: printed text is assumed to be parsed back by Minecraft to the same command",
    "harness (lib.py, jmc_run.py, the property's generator and case-file writer): differential correspondence between model and /repo",
]
