"""C08 strengthening round 4 — declarations and USES of functions / templates in ONE compile (Model/DeclUse.v).

A program is a list of top-level events; an event is (JSON-able lists)
    ["decl", id, kind, deco, classes, name, body, param]     kind: "plain" | "saved" | "template"
    ["call", form, classes, spelling]                        form: "stmt" | "exec" | "args" | "execargs"
`decl` is `<deco>function <name>(<x if param>) { say "Q<id>Q"; <body events> }`, wrapped in its classes when it is a top-level
event (events in a body inherit the classes of their top-level ancestor: `classes` is always the EFFECTIVE class list, i.e. the
prefix a nested declaration gets and the class `this.` means — also inside a template body, which is parsed with the prefix of
the class the template is written in, wherever it is expanded).  A top-level `call` is a load statement (classes == []).

Documented (the behaviour of HEAD, /repo 370d5d7): everything happens in source order; a function body is parsed where it is
declared, a template body at every use; two declarations of one path are never both accepted — a path stays taken however
often it is used — except that a template whose LAST PATH SEGMENT IS EXACTLY `_` is forgotten after its use, and
`@if(..) function _()` is expanded where it is written and never stored; a use of a known template prints its body, any
other use prints `function <ns>:<path>`, which must be a written file.
"""
from __future__ import annotations

import re

from lib import coq_bool, coq_list, coq_str

CERT = "LOAD=__load__\nTICK=__tick__\nPRIVATE=__private__\nVAR=__variable__\nINT=__int__\nSTORAGE=__storage__"

# spellings (classes, name) grouped by the path they fold to
SPELL = {
    "_": [([], "_")],
    "x_": [([], "x_"), ([], "X_")],
    "put_": [([], "put_"), ([], "Put_"), ([], "PUT_")],
    "__x__": [([], "__x__"), ([], "__X__")],
    "_x": [([], "_x"), ([], "_X")],
    "a_b": [([], "a_b"), ([], "A_b")],
    "a/_": [([], "a._"), (["a"], "_"), (["A"], "_")],
    "a/b_": [([], "a.b_"), (["a"], "b_"), ([], "A.B_"), (["A"], "b_")],
    "box/emit_": [([], "box.emit_"), (["box"], "emit_"), (["Box"], "Emit_")],
    "a/_/c": [([], "a._.c"), (["a", "_"], "c"), (["a._"], "c")],
    "_/a": [([], "_.a"), (["_"], "a")],
    "k/m/_": [(["k", "m"], "_"), ([], "k.m._"), (["K.m"], "_"), (["k"], "m._")],
    "x_1": [([], "x_1"), ([], "X_1")],
    "_1": [([], "_1")],
    "t2_": [([], "t2_"), ([], "T2_")],
    "a/__": [([], "a.__"), (["a"], "__")],
    "foo": [([], "foo"), ([], "Foo")],
    "a/foo": [([], "a.foo"), (["a"], "foo"), (["A"], "Foo")],
}
GROUPS = list(SPELL)
T_DECOS = ["@lazy ", "@if(1) "]
S_DECOS = ["@add(__tick__) ", "@root "]
FORM_COQ = {"stmt": "DU.FStmt", "exec": "DU.FExec", "args": "DU.FArgs", "execargs": "DU.FExecArgs"}
KIND_COQ = {("plain", ""): "DPlain", ("saved", "@add(__tick__) "): "DSaved", ("saved", "@root "): "DSaved",
            ("template", "@lazy "): "DLazy", ("template", "@if(1) "): "DIf"}


def py_path(name: str) -> str:
    return name.lower().replace(".", "/")


def class_prefix(classes) -> str:
    return "".join(py_path(c) + "/" for c in classes)


def decl_path(e) -> str:
    return class_prefix(e[4]) + py_path(e[5])


def call_path(e) -> str:
    sp = e[3]
    if sp.startswith("this."):
        return class_prefix(e[2]) + py_path(sp[5:])
    return py_path(sp)


def is_instant_path(p: str) -> bool:
    """the documented rule: the last path segment is exactly `_`"""
    return p.split("/")[-1] == "_"


def kind_of(e) -> str:
    """plain | saved | template | instant (the latter: `@if` on a function whose NAME, as spelled, is `_`)"""
    if e[2] == "template" and e[3].startswith("@if") and py_path(e[5]) == "_":
        return "instant"
    return e[2]


# ------------------------------------------------------------------ builders
def D(kind, deco, spell, body=(), param=False):
    if kind == "template" and deco.startswith("@if") and py_path(spell[1]) == "_":
        param = False                       # an instant call has no arguments
    return ["decl", -1, kind, deco, list(spell[0]), spell[1], [list(b) for b in body], bool(param and kind == "template")]


def U(form, classes, spelling):
    return ["call", form, list(classes), spelling]


def number(evs):
    """assign the marker ids in source order; fix the classes of nested events"""
    n = [0]

    def go(l, classes, top):
        out = []
        for e in l:
            e = list(e)
            if e[0] == "decl":
                e[1] = n[0]
                n[0] += 1
                if not top:
                    e[4] = list(classes)
                e[6] = go(e[6], e[4], False)
            elif not top:
                e[2] = list(classes)
            out.append(e)
        return out
    return go(evs, [], True)


def spellings_for(path, ctx):
    """ways to spell a use of `path` written under the classes ctx: dotted absolute names, and `this.`-relative ones when ctx is the
    class of a spelling"""
    out = []
    for classes, name in SPELL[path]:
        out.append(".".join(list(classes) + [name]))
        if classes and class_prefix(classes) == class_prefix(ctx):
            out.append("this." + name)
    return out


def nested_names_for(path, ctx):
    """names under which a declaration nested in a body of classes ctx gets `path`"""
    pre = class_prefix(ctx)
    out = []
    for classes, name in SPELL[path]:
        full = ".".join(list(classes) + [name])
        if py_path(full).startswith(pre):
            # strip as many leading segments as ctx has
            segs = full.split(".")
            k = len(pre.split("/")) - 1
            if 0 < len(segs) - k:
                out.append(".".join(segs[k:]))
    return list(dict.fromkeys(out))


# ------------------------------------------------------------------ rendering
CALL_TEXT = {"stmt": "{c}();", "exec": "execute as @a run {c}();", "args": '{c}(x="1");', "execargs": 'execute as @a run {c}(x="1");'}


def render(evs):
    """-> (source text, {(line, col): id} for the name token of every declaration)"""
    lines, pos = [], {}
    for ln, top in enumerate(evs, 1):
        buf = []

        def col():
            return sum(len(x) for x in buf) + 1

        def go(e, is_top):
            if e[0] == "decl":
                _, did, _, deco, classes, name, body, param = e
                if is_top:
                    for c in classes:
                        buf.append(f"class {c} {{ ")
                buf.append(deco + "function ")
                pos[(ln, col())] = did
                buf.append(name + ("(x) " if param else "() ") + f'{{ say "Q{did}Q"; ')
                for b in body:
                    go(b, False)
                buf.append("} ")
                if is_top:
                    buf.append("} " * len(classes))
            else:
                buf.append(CALL_TEXT[e[1]].format(c=e[3]) + " ")
        go(top, True)
        lines.append("".join(buf).rstrip())
    return "\n".join(lines) + "\n", pos


def job_of(evs):
    src, _ = render(evs)
    return dict(src=src, cert=CERT, pack_format=48, namespace="TEST")


# ------------------------------------------------------------------ the documented verdict, in plain Python
class _Dup(Exception):
    pass


class _ExecForm(Exception):
    pass


def spec(evs):
    """("dup", id, path) | ("undef", is_template) | ("execform",) | ("ok", {path: [id, lines]}, load lines);
    line = ["m", id] | ["f", path] | ["fa", path] | ["r", line]"""
    funs, lazy, called = {}, {}, []

    def run(l, depth=0):
        if depth > 60:
            raise RecursionError
        out = []
        for e in l:
            if e[0] == "decl":
                p, k = decl_path(e), kind_of(e)
                if p in funs or p in lazy:
                    raise _Dup(e[1], p)
                if k == "template":
                    lazy[p] = (e[1], e[6])
                elif k == "instant":
                    out.append(["m", e[1]])
                    out += run(e[6], depth + 1)
                else:
                    ls = run(e[6], depth + 1)
                    if p in funs or p in lazy:
                        raise _Dup(e[1], p)
                    funs[p] = [e[1], ls]
            else:
                p, form = call_path(e), e[1]
                is_exec = form in ("exec", "execargs")
                if p in lazy:
                    did, body = lazy[p]
                    ls = run(body, depth + 1)
                    if is_instant_path(p):
                        del lazy[p]
                    if is_exec:
                        if ls:
                            raise _ExecForm()
                        out.append(["r", ["m", did]])
                    else:
                        out.append(["m", did])
                        out += ls
                else:
                    if p not in called:
                        called.append(p)
                    line = ["fa", p] if form in ("args", "execargs") else ["f", p]
                    out.append(["r", line] if is_exec else line)
        return out
    try:
        load = run(evs)
    except _Dup as d:
        return ("dup", d.args[0], d.args[1])
    except _ExecForm:
        return ("execform",)
    for p in called:
        if p not in funs:
            return ("undef", p in lazy)
    return ("ok", funs, load)


# ------------------------------------------------------------------ the same shape, read off the real result
def parse_line(s):
    m = re.fullmatch(r"say Q(\d+)Q", s)
    if m:
        return ["m", int(m.group(1))]
    m = re.fullmatch(r"function TEST:(\S+)", s)
    if m:
        return ["f", m.group(1)]
    m = re.fullmatch(r"function TEST:(\S+) \{.*\}", s)
    if m:
        return ["fa", m.group(1)]
    m = re.fullmatch(r"execute as @a run (.*)", s)
    if m:
        inner = parse_line(m.group(1))
        return ["r", inner] if inner else None
    return None


def all_decls(evs, acc=None):
    acc = {} if acc is None else acc
    for e in evs:
        if e[0] == "decl":
            acc[e[1]] = e
            all_decls(e[6], acc)
    return acc


def real(evs, res):
    _, pos = render(evs)
    if not res["ok"]:
        msg = res.get("msg") or ""
        m = re.search(r"Duplicate function declaration\(([^)]*)\) at line (\d+) col (\d+)", msg)
        if res["exc"] == "JMCSyntaxException" and m:
            did = pos.get((int(m.group(2)), int(m.group(3))))
            if did is not None:
                return ("dup", did, m.group(1))
            return ("other", "duplicate cited at an unknown position", msg[:300], True)
        if res["exc"] == "JMCValueError" and "was never defined" in msg:
            return ("undef", False)
        if res["exc"] == "JMCSyntaxException" and "used before definition" in msg:
            return ("undef", True)
        if res["exc"] == "JMCSyntaxException" and "cannot be used with execute" in msg:
            return ("execform",)
        return ("other", res["exc"], msg[:300], bool(res.get("jmc")))
    funs, load, extra, tick = {}, [], [], []
    for path, content in res["files"].items():
        m = re.match(r"^VIRTUAL/data/TEST/function/(.*)\.mcfunction$", path)
        if not m or m.group(1).startswith("__private__/"):
            continue
        rel, lines = m.group(1), [l for l in content.split("\n") if l]
        if rel == "__tick__":
            tick = lines
            continue
        if rel == "__load__":
            lines = [l for l in lines if not l.startswith("scoreboard objectives add ")]
            parsed = [parse_line(l) for l in lines]
            if any(p is None for p in parsed):
                extra.append(["load-content", content[:200]])
            load = [p for p in parsed if p is not None]
            continue
        parsed = [parse_line(l) for l in lines]
        if not parsed or any(p is None for p in parsed) or parsed[0][0] != "m":
            extra.append(["file-content", rel, content[:200]])
            continue
        if rel in funs:
            extra.append(["two-files", rel])
        funs[rel] = [parsed[0][1], parsed[1:]]
    decls = all_decls(evs)
    for rel, (did, _) in funs.items():
        d = decls.get(did)
        if d is not None and d[3].startswith("@add(__tick__)") and f"function TEST:{rel}" not in tick:
            extra.append(["add-call-missing", did, rel])
    r = ("ok", funs, load)
    return r + (extra,) if extra else r


def same(a, b) -> bool:
    import json
    return json.loads(json.dumps(a)) == json.loads(json.dumps(b))


# ------------------------------------------------------------------ Coq terms
def line_term(l) -> str:
    if l[0] == "m":
        return f"DU.LMark {l[1]}"
    if l[0] == "f":
        return f"DU.LFun {coq_str(l[1])}"
    if l[0] == "fa":
        return f"DU.LFunArgs {coq_str(l[1])}"
    return f"DU.LRun ({line_term(l[1])})"


def ev_term(e) -> str:
    if e[0] == "decl":
        return (f"SUDecl {e[1]} {KIND_COQ[(e[2], e[3])]} {coq_list(coq_str(c) for c in e[4])} {coq_str(e[5])} "
                f"{coq_list(ev_term(b) for b in e[6])}")
    return f"SUCall {FORM_COQ[e[1]]} {coq_list(coq_str(c) for c in e[2])} {coq_str(e[3])}"


def case_term(case, strict) -> str:
    r = case["real"]
    if r[0] == "dup":
        rt = f"YDup {r[1]} {coq_str(r[2])}"
    elif r[0] == "undef":
        rt = f"YUndef {coq_bool(r[1])}"
    elif r[0] == "execform":
        rt = "YExecForm"
    elif r[0] == "ok" and len(r) == 3:
        files = coq_list(f"({coq_str(p)}, ({v[0]}, {coq_list(line_term(l) for l in v[1])}))" for p, v in r[1].items())
        rt = f"YOk {files} {coq_list(line_term(l) for l in r[2])}"
    else:
        rt = "YOther"
    return f"mkUCase {coq_bool(strict)} {coq_list(ev_term(e) for e in case['evs'])} ({rt})"


HEADER = ("From Coq Require Import String List.\nFrom JMCV Require Import Model.ResLoc Run.C08.\n"
          "Import ListNotations.\nOpen Scope string_scope.\n")


# ------------------------------------------------------------------ generators
def _use(rng, path, ctx, form):
    return U(form, ctx, rng.choice(spellings_for(path, ctx)))


def _forms(param):
    return ["args", "execargs"] if param else ["stmt", "exec"]


def _redecl(rng, path, ctx, kind, nested, param=False):
    """a further declaration of `path`: nested in a body of classes ctx (name relative to ctx), or a top-level event"""
    deco = "" if kind == "plain" else rng.choice(S_DECOS) if kind == "saved" else kind
    k = kind if kind in ("plain", "saved") else "template"
    if nested:
        names = nested_names_for(path, ctx)
        if not names:
            return None
        if deco == "@root " and ctx:
            deco = "@add(__tick__) "
        return D(k, deco, (ctx, rng.choice(names)), param=param and k == "template")
    sp = rng.choice(SPELL[path])
    if deco.startswith("@if") and py_path(sp[1]) == "_" and sp[0]:
        deco = "@lazy "                     # an instant call directly in a class body is refused (outside the model)
    if deco == "@root " and sp[0]:
        deco = "@add(__tick__) "
    return D(k, deco, sp, param=param and k == "template")


TAILS = ["none", "use", "use-other-form", "plain", "saved", "@lazy ", "@if(1) ", "plain+use", "@lazy +use", "use+plain"]


def body_sequences(rng, tier):
    """S1: declare a template inside a function body, use it 0..3 times, then use it again / declare its path again — all in ONE body
    (a flat operation sequence: Props C08_use_*)"""
    out = []
    for path in GROUPS:
        for tdeco, param in [("@lazy ", False), ("@if(1) ", False), ("@lazy ", True), ("@if(1) ", True)]:
            if param and tier == "quick" and rng.random() < 0.5:
                continue
            for tail in TAILS:
                if tier == "quick" and rng.random() < 0.45:
                    continue
                ctx = rng.choice(SPELL[path])[0]
                names = nested_names_for(path, ctx)
                forms = _forms(param)
                n = rng.choice([0, 1, 1, 2, 2, 3]) if tail != "none" else rng.choice([2, 3])
                if tail.startswith("use") and n == 0:
                    n = 1
                body = [D("template", tdeco, (ctx, rng.choice(names)), param=param)]
                body += [_use(rng, path, ctx, rng.choice(forms[:1] * 3 + forms[1:])) for _ in range(n)]
                for part in tail.split("+"):
                    if part == "none":
                        continue
                    if part == "use":
                        body.append(_use(rng, path, ctx, forms[0]))
                    elif part == "use-other-form":
                        body.append(_use(rng, path, ctx, forms[1]))
                    else:
                        r = _redecl(rng, path, ctx, part, True, param)
                        if r:
                            body.append(r)
                top = [D("plain", "", (ctx, "m0"), body)]
                if rng.random() < 0.3:
                    top.append(D("plain", "", ([], "other"), [_use(rng, path, [], forms[0])]))
                out.append((f"body:{path}:{tdeco.strip()}{'(x)' if param else ''}:{tail}:{n}", top))
    return out


def top_sequences(rng, tier):
    """S2: the template is a top-level / class-level declaration; its uses are in other functions (several uses in one, or one in
    each), in load statements; its path is declared again at top level between / after them"""
    out = []
    for path in GROUPS:
        for tdeco, param in [("@lazy ", False), ("@if(1) ", False), ("@lazy ", True)]:
            for tail in ["none", "plain", "saved", "@lazy ", "@if(1) ", "plain+caller", "@lazy +caller"]:
                if tier == "quick" and rng.random() < 0.6:
                    continue
                sp = rng.choice(SPELL[path])
                deco = tdeco
                if deco.startswith("@if") and py_path(sp[1]) == "_":
                    if sp[0]:
                        deco = "@lazy "
                    else:
                        continue                     # a top-level instant call: covered by load_sequences
                forms = _forms(param)
                evs = [D("template", deco, sp, param=param)]
                shape = rng.choice(["one-caller", "many-callers", "load", "mixed"])
                n = rng.choice([1, 2, 2, 3])

                cnt = [0]

                def caller(k):
                    ctx = rng.choice([[], [], sp[0], ["other"]])
                    cnt[0] += 1
                    return D("plain", "", (ctx, f"c{cnt[0]}"), [_use(rng, path, ctx, rng.choice(forms[:1] * 2 + forms[1:])) for _ in range(k)])
                if shape == "one-caller":
                    evs.append(caller(n))
                elif shape == "many-callers":
                    evs += [caller(1) for _ in range(n)]
                elif shape == "load":
                    evs += [_use(rng, path, [], rng.choice(forms)) for _ in range(n)]
                else:
                    evs.append(caller(1))
                    evs.append(_use(rng, path, [], forms[0]))
                    evs.append(caller(1))
                for part in tail.split("+"):
                    if part == "none":
                        continue
                    if part == "caller":
                        evs.append(caller(rng.choice([1, 2])))
                    else:
                        evs.append(_redecl(rng, path, [], part, False, param))
                out.append((f"top:{path}:{deco.strip()}{'(x)' if param else ''}:{shape}:{tail}:{n}", evs))
    return out


def via_template_sequences(rng, tier):
    """S3: the uses are written in ANOTHER template's body, so they happen at each of its expansions"""
    out = []
    for path in GROUPS:
        for tdeco in T_DECOS:
            for order in ["inner-first", "outer-first"]:
                if tier == "quick" and rng.random() < 0.5:
                    continue
                sp = rng.choice(SPELL[path])
                deco = tdeco
                if deco.startswith("@if") and py_path(sp[1]) == "_":
                    deco = "@lazy "
                wsp = rng.choice([([], "w"), ([], "lib.w_"), (["lib"], "w_"), (["lib"], "_")])
                inner = D("template", deco, sp)
                k = rng.choice([1, 1, 2])
                wbody = [_use(rng, path, wsp[0], "stmt") for _ in range(k)]
                outer = D("template", rng.choice(T_DECOS) if py_path(wsp[1]) != "_" else "@lazy ", wsp, wbody)
                evs = [inner, outer] if order == "inner-first" else [outer, inner]
                wpath = class_prefix(wsp[0]) + py_path(wsp[1])
                n = rng.choice([1, 2, 2, 3])
                body = []
                for i in range(n):
                    if is_instant_path(wpath) and i:
                        break
                    body.append(U("stmt", [], ".".join(wsp[0] + [wsp[1]])))
                    if rng.random() < 0.4:
                        body.append(_use(rng, path, [], "stmt"))
                evs.append(D("plain", "", ([], "m0"), body))
                if rng.random() < 0.5:
                    evs.append(_redecl(rng, path, [], rng.choice(["plain", "@lazy "]), False))
                out.append((f"via:{path}:{deco.strip()}:{order}:{n}x{k}", evs))
    return out


def self_declaring_sequences(rng, tier):
    """S3b: a template / function whose body declares ITS OWN path (refused: at the use for a template - also the instant `_`, which is
    still known while its body is parsed - after the body for a function)"""
    out = []
    for path in GROUPS:
        for outer in ["@lazy ", "@if(1) ", "plain"]:
            if tier == "quick" and not is_instant_path(path) and rng.random() < 0.5:
                continue
            sp = rng.choice(SPELL[path])
            ctx = sp[0]
            inner = _redecl(rng, path, ctx, rng.choice(["plain", "@lazy ", "saved"]), True)
            if inner is None:
                continue
            if outer == "plain":
                evs = [D("plain", "", sp, [inner])]
            else:
                deco = "@lazy " if py_path(sp[1]) == "_" and (outer.startswith("@if") and sp[0]) else outer
                if deco.startswith("@if") and py_path(sp[1]) == "_":
                    evs = [D("plain", "", (ctx, "m0"), [D("template", deco, sp, [inner]), _use(rng, path, ctx, "stmt")])]
                else:
                    evs = [D("template", deco, sp, [inner])]
                    evs.append(D("plain", "", ([], "m1"), [_use(rng, path, [], "stmt") for _ in range(rng.choice([1, 2]))]))
            out.append((f"self:{path}:{outer.strip()}", evs))
    return out


def load_sequences(rng, tier):
    """S4: everything at the top level of the file (declarations, load statements, instant calls), in source order"""
    out = []
    for path in GROUPS:
        sps = [s for s in SPELL[path] if not s[0]]
        if not sps:
            continue
        for tdeco in T_DECOS:
            sp = rng.choice(sps)
            name = ".".join(sp[0] + [sp[1]])
            evs = []
            if rng.random() < 0.3:
                evs.append(U("stmt", [], name))                         # used before the declaration
            evs.append(D("template", tdeco, sp))
            evs += [U(rng.choice(["stmt", "stmt", "exec"]), [], name) for _ in range(rng.choice([1, 2, 3]))]
            x = rng.random()
            if x < 0.35:
                evs.append(_redecl(rng, path, [], rng.choice(["plain", "@lazy ", "@if(1) ", "saved"]), False))
                evs.append(U("stmt", [], name))
            elif x < 0.6:
                evs.append(D("plain", "", ([], "m0"), [_use(rng, path, [], "stmt"), _use(rng, path, [], "stmt")]))
            out.append((f"load:{path}:{tdeco.strip()}", evs))
    return out


class RandomUses:
    """S5: random nested programs over 2-3 path groups.  A template body only uses / declares groups of a higher rank, so no
    template expands itself."""

    def __init__(self, rng):
        self.rng = rng

    def program(self):
        rng = self.rng
        gs = rng.sample(GROUPS, rng.choice([2, 2, 3]))
        if rng.random() < 0.5 and not any(is_instant_path(g) for g in gs):
            gs[0] = rng.choice([g for g in GROUPS if is_instant_path(g)])
            rng.shuffle(gs)
        self.gs = gs
        param = {g: rng.random() < 0.2 for g in gs}
        evs = []
        n_top = rng.randint(3, 7)
        declared = set()
        if rng.random() < 0.6:                   # the groups a body may use are declared before it (fewer `never defined` programs)
            for g in reversed(gs):
                evs.append(self.decl(g, gs, param, [], 0, top=True))
                declared.add(g)
            n_top = rng.randint(2, 5)
        for i in range(n_top):
            x = rng.random()
            g = rng.choice(gs)
            if x < 0.35 or not declared:
                fresh = [h for h in gs if h not in declared]
                if fresh and rng.random() < 0.8:
                    g = rng.choice(fresh)
                redeclare = g in declared and (is_instant_path(g) or rng.random() < 0.35)
                if g not in declared or redeclare:
                    evs.append(self.decl(g, gs, param, [], 0, top=True))
                    declared.add(g)
                    continue
            if x < 0.85:
                ctx = rng.choice([[], [], rng.choice(SPELL[g])[0], ["other"]])
                body = [self.use(rng.choice(sorted(declared)) if declared and rng.random() < 0.8 else rng.choice(gs), ctx, param)
                        for _ in range(rng.randint(1, 3))]
                if rng.random() < 0.2:
                    d = self.nested_decl(rng.choice(gs), gs, param, ctx, 1)
                    if d:
                        body.insert(rng.randint(0, len(body)), d)
                evs.append(D("plain", "", (ctx, f"c{i}"), body))
            else:
                forms = ["args"] if param[g] else ["stmt", "stmt", "exec"]
                evs.append(U(rng.choice(forms), [], rng.choice(spellings_for(g, []))))
        return evs

    def use(self, g, ctx, param):
        forms = ["args", "args", "args", "execargs"] if param[g] else ["stmt"] * 5 + ["exec"]
        return U(self.rng.choice(forms), ctx, self.rng.choice(spellings_for(g, ctx)))

    def kind(self):
        return self.rng.choice([("plain", ""), ("saved", "@add(__tick__) "), ("template", "@lazy "), ("template", "@lazy "), ("template", "@if(1) ")])

    def body_for(self, g, allowed, param, ctx, depth, template):
        """events of a body; `allowed`: the groups it may use / declare (a template body: only groups ranked after the template, and so for
        everything nested in it)"""
        rng = self.rng
        inner = [x for x in allowed if x != g]
        if template:
            inner = [x for x in inner if self.gs.index(x) > self.gs.index(g)]
        body = []
        if inner and rng.random() < 0.6 and depth < 2:
            for _ in range(rng.randint(1, 2)):
                body.append(self.use(rng.choice(inner), ctx, param))
            if rng.random() < 0.15:
                d = self.nested_decl(rng.choice(inner), inner, param, ctx, depth + 1)
                if d:
                    body.insert(rng.randint(0, len(body)), d)
        return body

    def decl(self, g, allowed, param, ctx, depth, top):
        rng = self.rng
        kind, deco = self.kind()
        sp = rng.choice(SPELL[g])
        if deco.startswith("@if") and py_path(sp[1]) == "_" and (sp[0] or top):
            deco = "@lazy "
        return D(kind, deco, sp, self.body_for(g, allowed, param, sp[0], depth, kind == "template"), param=param[g] and kind == "template")

    def nested_decl(self, g, allowed, param, ctx, depth):
        rng = self.rng
        names = nested_names_for(g, ctx)
        if not names:
            return None
        kind, deco = self.kind()
        return D(kind, deco, (ctx, rng.choice(names)), self.body_for(g, allowed, param, ctx, depth, kind == "template"),
                 param=param[g] and kind == "template")


# hand cases the generators do not make: instant calls at the top level and in class bodies (the latter refused: plain oracle)
HAND = [
    ("top-level-instant-call", [U("stmt", [], "foo"), D("template", "@if(1) ", ([], "_")), D("plain", "", ([], "foo")), U("stmt", [], "_"),
                                D("plain", "", ([], "_"))]),
    ("put-underscore-twice", [D("template", "@lazy ", ([], "put_")), D("plain", "", ([], "m"), [U("stmt", [], "put_"), U("stmt", [], "put_")])]),
    ("box-emit-this-twice", [D("template", "@lazy ", (["box"], "emit_")), D("plain", "", (["box"], "m"), [U("stmt", ["box"], "this.emit_"), U("stmt", ["box"], "box.emit_")])]),
    ("dunder-redeclared-after-use", [D("template", "@lazy ", ([], "__x__")), D("plain", "", ([], "m"), [U("stmt", [], "__x__")]), D("plain", "", ([], "__X__"))]),
    ("underscore-redeclared-after-use", [D("plain", "", ([], "m"), [D("template", "@lazy ", ([], "_")), U("stmt", [], "_"), D("template", "@lazy ", ([], "_")),
                                                                    U("exec", [], "_"), D("plain", "", ([], "_")), U("stmt", [], "_")])]),
    ("member-underscore-this", [D("template", "@lazy ", (["a"], "_")), D("plain", "", (["a"], "m"), [U("stmt", ["a"], "this._")]),
                                D("template", "@if(1) ", ([], "a._")), D("plain", "", (["a"], "n"), [U("stmt", ["a"], "a._"), U("stmt", ["a"], "this._")]),
                                D("saved", "@add(__tick__) ", (["A"], "_"))]),
    ("instant-call-in-method", [D("plain", "", (["a"], "m"), [D("template", "@if(1) ", (["a"], "_")), U("stmt", ["a"], "this._")]), D("plain", "", (["a"], "_"))]),
    ("if-template-named-put-underscore", [D("plain", "", ([], "m"), [D("template", "@if(1) ", ([], "put_")), U("stmt", [], "put_"), U("exec", [], "put_")])]),
    ("args-site-twice", [D("template", "@lazy ", ([], "put_"), param=True), D("plain", "", ([], "m"), [U("args", [], "put_"), U("args", [], "Put_"), U("execargs", [], "put_")])]),
    ("template-body-uses-underscore-twice", [D("template", "@lazy ", ([], "_")), D("template", "@lazy ", ([], "w"), [U("stmt", [], "_")]),
                                             D("plain", "", ([], "m"), [U("stmt", [], "w"), U("stmt", [], "w")]), D("plain", "", ([], "_"))]),
]


def cases(rng, tier):
    seqs = [("hand:" + n, e) for n, e in HAND]
    seqs += body_sequences(rng, tier)
    seqs += top_sequences(rng, tier)
    seqs += via_template_sequences(rng, tier)
    seqs += self_declaring_sequences(rng, tier)
    seqs += load_sequences(rng, tier)
    rg = RandomUses(rng)
    for i in range(160 if tier == "quick" else 2000):
        seqs.append((f"random:{i}", rg.program()))
    out = []
    for origin, evs in seqs:
        evs = number([e for e in evs if e is not None])
        out.append(dict(origin="uses:" + origin, evs=evs, job=job_of(evs)))
    return out


def classify(sp, rl) -> str:
    if rl[0] == "other" and not rl[3]:
        return "internal-error"
    if sp[0] == "dup" and rl[0] != "dup":
        return "equal-paths-both-accepted"
    if sp[0] == "dup":
        return "wrong-declaration-cited"
    if sp[0] == "ok" and rl[0] == "undef":
        return "definition-forgotten-after-use"
    if sp[0] == "ok" and rl[0] != "ok":
        return "distinct-definitions-refused"
    if sp[0] == "ok":
        return "call-site-misdirected-or-definition-lost"
    return "verdict-differs"


EXPECTED_TEXT = ("everything happens in source order; two declarations of one path (function, @add/@root function, @lazy/@if template) are never both "
                 "accepted, however often the path was used in between - only a template whose LAST path segment is exactly `_` is forgotten after its "
                 "use, and `@if(..) function _()` is expanded where it is written; every use of a known template prints its body (also the 2nd, 3rd … "
                 "use, in every call form), any other use prints `function <ns>:<path>` naming a written file")
