"""C01, narrow addition (strengthening round 4): assignment statements in a position that takes ONE command —
`execute if/unless score … run S;`, `return run S;`, `execute … run return run S;`, `$o = S;`, a braces-less `if (…) S`,
`execute as @s at @s … run S;` — compiled by the real compiler and run (c02_ctx.RVM) against the reference semantics
"the whole statement runs iff the tests of its prefix hold on the state before it; it does nothing otherwise".
No model of its own: the placement is modelled and proved for C02 (Model/ExprCtx.v, Props/C02.v C02_context_*)."""
from __future__ import annotations

import re

from lib import compile_batch, functions_of
import c02_ctx as X

KINDS = ["E", "U", "E2", "R", "ER", "C", "EC", "RC", "AS", "IFB", "E", "ER"]
# the value of these as a command (what `$o = S` stores / `return run S` returns) is the new value of the target
VALUE_OPS = {"=", "+=", "-=", "*=", "<", ">", "++", "--", "= true", "= false"}
COND = {"$g >= 1": lambda e: e["$g"] >= 1, "$g < 0": lambda e: e["$g"] < 0, "$g == $h": lambda e: e["$g"] == e["$h"],
        "$g >= 1 && $h < 3": lambda e: e["$g"] >= 1 and e["$h"] < 3}
VALUES = [None, 0, 1, -1, 7, -7, 2147483647, -2147483648, 46341]


def probe(ck, cases, certs, score_of, meaning, tier):
    """cases: C01's own cases (dict target/op/vop/operand/stmt/cert/real).  Reports violations on ck; -> coverage dict"""
    rng = ck.rng
    ok = [c for c in cases if not c.get("real", "<").startswith("<") and not c.get("solo")]
    n = 360 if tier == "quick" else 2400
    progs = []
    for k in range(n):
        c = rng.choice(ok)
        kind = KINDS[k % len(KINDS)]
        if c["op"] not in VALUE_OPS and kind in ("C", "EC", "RC"):
            kind = "E"                     # the result of `??=`, `><`, `/=`, `%=` as a command is not the target's value
        operands = {c["operand"][1]} if c["operand"][0] == "score" else set()
        if kind == "IFB":
            ctx = dict(kind=kind, guard=[], ret=False, chain=[], prefix="", cond=rng.choice(sorted(COND)))
        else:
            ctx = X.gen_ctx(rng, kind, "$g", set())      # tests read $g / $h only: a test on an unset score is another matter
            ctx["chain"] = ["$o" for _ in ctx["chain"]]
        cert = certs[c["cert"]]
        stmt = c["stmt"][:-1]
        src = (f"if ({ctx['cond']}) {c['stmt']}" if kind == "IFB" else X.place_src(ctx, stmt, cert["VAR"], lambda s: s))
        progs.append(dict(case=c, ctx=ctx, cert=cert,
                          src="function f() { " + src + " $after = 7; }\nfunction main() { $r = f(); }"))
    results = compile_batch([dict(src=p["src"], cert="\n".join(f"{k}={v}" for k, v in p["cert"].items())) for p in progs])
    n_runs, kinds, seen = 0, {}, set()
    for p, r in zip(progs, results):
        c, ctx, cert = p["case"], p["ctx"], p["cert"]
        kinds[ctx["kind"]] = kinds.get(ctx["kind"], 0) + 1
        if not r["ok"]:
            if r["jmc"] and ctx["chain"]:
                continue                   # a chained form the language does not accept
            key = (ctx["kind"], "compile")
            if key not in seen:
                seen.add(key)
                ck.violation(dict(kind="context-rejected" if r["jmc"] else "context-internal-error", mode="context", source=p["src"],
                                  jmc_txt=cert, statement=c["stmt"], exception=dict(cls=r["exc"], msg=r["msg"][:300]),
                                  note="the statement compiles on its own"))
            continue
        fns = functions_of(r["files"])
        ints = {int(m.group(1)) for m in re.finditer(
            r"^scoreboard players set (-?\d+) %s (-?\d+)$" % re.escape(cert["INT"]), fns.get(cert["LOAD"], ""), re.M)}
        t = c["target"]
        kind_o, v_o = c["operand"]
        o = v_o if kind_o == "score" else None
        for _ in range(6):
            env = {"$g": rng.choice([0, 1, -1, 2, 3, 5]), "$h": rng.choice([0, 1, -1, 2, 3, 5]), "$o": 11, "$p": 12, "$r": 13,
                   "$after": 14, "$bystander": 12345, t: rng.choice(VALUES)}
            if o is not None and o != t:
                env[o] = rng.choice(VALUES)

            def value(view, c=c, t=t, o=o, kind_o=kind_o, v_o=v_o):
                y = v_o if kind_o == "lit" else (view[o] if o is not None else None)
                return ("set", meaning(c["vop"], view[t], y))

            def also(view, c=c, t=t, o=o):
                if c["vop"] == "VSwap" and o is not None and o != t:
                    return [(o, view[t] or 0)]
                return []
            holds = COND[ctx["cond"]](env) if ctx["kind"] == "IFB" else True
            st = [dict(ctx=dict(ctx, guard=ctx["guard"] if holds else [(True, "$g", "m", (1, 0))]), target=t,
                       value=lambda view: value(view)[1], also=also, has_commands=c["op"] in VALUE_OPS)]
            # a statement whose new value is "unset" (`??=` family never gives that; x None only when nothing runs) is fine:
            # ref_run treats None as "no defined meaning", so map it through a wrapper
            new = value(dict(env))[1]
            if new is None:
                continue
            exp, returned = X.ref_run(st, env, lambda k: k)
            vm = X.RVM(fns, max_steps=20000)
            for z in ints:
                vm.s[(str(z), cert["INT"])] = z
            for name, val in env.items():
                if val is not None:
                    vm.s[score_of(name, cert)] = val
            n_runs += 1
            fail = None
            try:
                vm.call("TEST:main")
            except X.Invalid as e:
                fail = dict(kind="invalid-command", detail=str(e))
            except X.OutOfFuel:
                fail = dict(kind="no-termination")
            if fail is None:
                if isinstance(returned, int):
                    exp["$r"] = returned
                for name in env:
                    if name == "$r" and returned == "unknown":
                        continue
                    got, want = vm.s.get(score_of(name, cert)), exp[name]
                    same = got == want if name == t else (got or 0) == (want or 0)
                    if not same:
                        fail = dict(kind="wrong-value-in-context", variable=name, expected=want, actual=got)
                        break
            if fail:
                key = (ctx["kind"], c["op"], fail["kind"])
                if key not in seen and len(seen) < 6:
                    seen.add(key)
                    fail["init"] = env
                    ck.violation(dict(kind=fail["kind"], mode="context", source=p["src"], jmc_txt=cert, statement=c["stmt"],
                                      context=ctx["kind"], emitted={k: v for k, v in fns.items() if k in ("f", "main") or "/anonymous/" in k or "/if_else/" in k},
                                      failure=fail,
                                      expected="the whole statement runs iff the tests of its prefix hold on the state before it, and nothing "
                                               "happens otherwise; `return run` leaves f with the statement's value; `$o = S` stores it"))
                break
    return dict(context_programs=len(progs), context_runs=n_runs, context_kinds=kinds)


def replay(r, score_of) -> int:
    cert = r["jmc_txt"]
    res = compile_batch([dict(src=r["source"], cert="\n".join(f"{k}={v}" for k, v in cert.items()))])[0]
    print("program :", r["source"])
    if not res["ok"]:
        print("compile failed:", res["exc"], res["msg"][:300])
        return 1
    fns = functions_of(res["files"])
    for k in sorted(fns):
        if k in ("f", "main") or "/anonymous/" in k or "/if_else/" in k:
            print(f"-- {k}\n{fns[k]}")
    f = r.get("failure") or {}
    if "init" not in f or "variable" not in f:
        print("failure :", f)
        return 1
    vm = X.RVM(fns, max_steps=20000)
    for m in re.finditer(r"^scoreboard players set (-?\d+) %s (-?\d+)$" % re.escape(cert["INT"]), fns.get(cert["LOAD"], ""), re.M):
        vm.s[(m.group(1), cert["INT"])] = int(m.group(2))
    for name, val in f["init"].items():
        if val is not None:
            vm.s[score_of(name, cert)] = val
    try:
        vm.call("TEST:main")
        got = vm.s.get(score_of(f["variable"], cert))
    except X.Invalid as e:
        got = f"invalid command: {e}"
    print("initial :", f["init"])
    print(f"expected {f['variable']}:", f.get("expected"), " actual:", got)
    return 0 if got == f.get("expected") else 1
