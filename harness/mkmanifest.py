"""Regenerates /verif/MANIFEST.json from the table below (python3 harness/mkmanifest.py)."""
import json
import os

HERE = os.path.dirname(os.path.dirname(os.path.abspath(__file__)))
TITLES = {l["id"]: l["title"] for l in map(json.loads, open(os.path.join(HERE, "properties.jsonl")))}

# id -> (category, technique, level text, level note, design_ref)
CHECKS = {
    "C01": ("proof", "Coq theorem over a Gallina port of variable_operation + exact-text correspondence with /repo",
            "Coq theorem C01_varop_correct: for every names configuration, target, operator, operand (any int32 literal, $var, obj:sel, incl. operand = target), "
            "function table and initial state, the emitted commands are well-formed, terminate, leave the operator's Minecraft meaning in the target and change nothing else; "
            "the one false point of the pinned tree (+=/-= INT_MIN) is proved refuted and listed as a known finding. The model is tied to /repo on every run by exact equality of "
            "the emitted text for ~4000 generated statements (all operator x operand-kind x target-kind shapes x 3 jmc.txt name sets, boundary and random literals).",
            "Trusted: Coq kernel; MC/Sem.v (hand-written Minecraft semantics); printer; the correspondence harness. Model/VarOp.v is hand-written; command statements (`$x = <command>`) and vanilla-macro casts are outside the model.",
            "DESIGN.md 6 C01"),
    "C18": ("proof", "Coq theorems over a folder/feature model whose site tables are regenerated from the source by a fail-closed ast translator + probe-compile correspondence",
            "Coq theorems C18_folders/C18_paths: for every pack format (all of Z x 0.1, incl. -1) and every JSON/function/tag call site and lookup of JMC - table regenerated "
            "from the source on each run - the folder JMC uses equals the folder Minecraft reads, hence every emitted reference resolves; C18_require (raises iff pf<>-1 and pf<f); "
            "C18_features (accepted => expressible on the version table). Tied to /repo by regeneration plus ~830 probe compiles per run (every site x every table format x 2 name sets) "
            "whose real paths, references and diagnostics are compared with the model in Coq.",
            "Trusted: Coq kernel, the Minecraft folder/feature specification in Model/PackFmt.v, translate_sites.py, the reference scanner. User-written JSON types and verbatim vanilla commands are outside. "
            "Feature list = the gated features of the source + JMC.require.",
            "DESIGN.md 6 C18"),
}

NOT_APPLICABLE = {}


def main():
    checks = []
    for pid, (cat, tech, text, note, ref) in sorted(CHECKS.items()):
        checks.append({
            "property_id": pid,
            "quick_cmd": f"./check {pid} --tier quick",
            "thorough_cmd": f"./check {pid} --tier thorough",
            "evidence_file": f"evidence/{pid}.json",
            "replay_cmd_template": f"./check {pid} --replay {{path}}",
            "engine": "coq-model+correspondence",
            "level_claimed": {"category": cat, "text": text, "design_ref": ref},
            "level_note": note,
            "technique": tech,
        })
    na = [{"property_id": k, "reason": v} for k, v in sorted(NOT_APPLICABLE.items())]
    for pid in sorted(TITLES):
        if pid not in CHECKS and pid not in NOT_APPLICABLE:
            na.append({"property_id": pid, "reason": "check not built yet (work in progress; planned in DESIGN.md section 6)"})
    m = {
        "version": 1,
        "setup_cmd": "sh setup.sh",
        "hooks": {
            "guard": "JMC_VERIF",
            "enable": "no source hooks: all instrumentation is done by wrapping jmc from the harness process (PYTHONPATH=/repo/src)",
            "baseline_off_cmd": "cd /repo && /venv/bin/python -m pytest -ra -q -p no:cacheprovider --timeout=900 --continue-on-collection-errors",
            "source_commits": [],
            "add_only": True,
        },
        "engines": [{
            "name": "coq-model+correspondence", "path": "coq/ + harness/",
            "serves_properties": sorted(CHECKS),
            "kind_free_text": "Coq 8.16.1 development (models, theorems) tied to /repo by differential correspondence checks and regenerated obligations",
        }],
        "checks": checks,
        "not_applicable": sorted(na, key=lambda d: d["property_id"]),
        "notes": "See DESIGN.md. ./check <id> --tier quick|thorough; JMC_REPO=<path> points the checks at another tree (default /repo).",
    }
    json.dump(m, open(os.path.join(HERE, "MANIFEST.json"), "w"), indent=1)


if __name__ == "__main__":
    main()
