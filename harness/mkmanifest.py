"""Regenerates /verif/MANIFEST.json from the table below (python3 harness/mkmanifest.py)."""
import json
import os

HERE = os.path.dirname(os.path.dirname(os.path.abspath(__file__)))
TITLES = {l["id"]: l["title"] for l in map(json.loads, open(os.path.join(HERE, "properties.jsonl")))}

# one JSON file per claimed property under harness/manifest/: category, technique, text, note, design_ref
import glob
CHECKS = {}
for _f in sorted(glob.glob(os.path.join(HERE, "harness", "manifest", "C*.json"))):
    _d = json.load(open(_f))
    CHECKS[os.path.basename(_f)[:-5]] = (_d["category"], _d["technique"], _d["text"], _d["note"], _d.get("design_ref", "DESIGN.md 6"))

NOT_APPLICABLE = {}


def main():
    checks = []
    for pid, (cat, tech, text, note, ref) in sorted(CHECKS.items()):
        checks.append({
            "property_id": pid,
            "quick_cmd": f"./check {pid} --tier quick",
            "thorough_cmd": f"./check {pid} --tier thorough",
            "evidence_file": f"evidence/{pid}.json",
            "replay_cmd_template": f"./check {pid} --replay {{path}}",
            "engine": "coq-model+correspondence",
            "level_claimed": {"category": cat, "text": text, "design_ref": ref},
            "level_note": note,
            "technique": tech,
        })
    na = [{"property_id": k, "reason": v} for k, v in sorted(NOT_APPLICABLE.items())]
    for pid in sorted(TITLES):
        if pid not in CHECKS and pid not in NOT_APPLICABLE:
            na.append({"property_id": pid, "reason": "check not built yet (work in progress; planned in DESIGN.md section 6)"})
    m = {
        "version": 1,
        "setup_cmd": "sh setup.sh",
        "hooks": {
            "guard": "JMC_VERIF",
            "enable": "no source hooks: all instrumentation is done by wrapping jmc from the harness process (PYTHONPATH=/repo/src)",
            "baseline_off_cmd": "cd /repo && /venv/bin/python -m pytest -ra -q -p no:cacheprovider --timeout=900 --continue-on-collection-errors",
            "source_commits": [],
            "add_only": True,
        },
        "engines": [{
            "name": "coq-model+correspondence", "path": "coq/ + harness/",
            "serves_properties": sorted(CHECKS),
            "kind_free_text": "Coq 8.16.1 development (models, theorems) tied to /repo by differential correspondence checks and regenerated obligations",
        }],
        "checks": checks,
        "not_applicable": sorted(na, key=lambda d: d["property_id"]),
        "notes": "See DESIGN.md. ./check <id> --tier quick|thorough; JMC_REPO=<path> points the checks at another tree (default /repo).",
    }
    json.dump(m, open(os.path.join(HERE, "MANIFEST.json"), "w"), indent=1)


if __name__ == "__main__":
    main()
