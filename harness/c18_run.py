"""C18 runner: executed with /venv/bin/python and PYTHONPATH=<repo>/src by harness/c18.py.

stdin : JSON list of jobs
   {"kind": "compile", "src", "header"?, "cert", "pack_format": "<text>", "namespace"?, "copy_tree"?: {relpath: content}}
       virtual build (JMCTestPack); with copy_tree the job runs inside a fresh temporary directory
       that contains these files (for `#copy`), removed afterwards
   {"kind": "disk", "src", "header"?, "namespace"?, "pre": {relpath under the output dir: content}, "builds": ["<pack format>", …]}
       REAL disk builds (compile_jmc, what the CLI does) into one temporary output directory that first receives the
       files of "pre"; one build per entry of "builds", in order; result = every file of the output directory afterwards
   {"kind": "require", "pf": "<text>", "f": "<text>", "lower": bool, "as_version": bool}
       PackVersion(float(pf)).require(f | PackVersion(f), token, tokenizer, is_lower=lower)
stdout: JSON list of results
   compile: {"ok": true, "files": {...}} | {"ok": false, "exc", "jmc", "msg"}
   require: {"r": 0 | 1 | 2 | "<other exception>"}
"""
import json
import os
import shutil
import signal
import sys
import tempfile


class _Timeout(BaseException):
    pass


def _alarm(signum, frame):
    raise _Timeout()


def compile_job(job, JMCTestPack):
    cwd = os.getcwd()
    tmp = None
    signal.alarm(int(job.get("timeout", 20)))
    try:
        if job.get("copy_tree") is not None:
            tmp = tempfile.mkdtemp(prefix="c18_")
            for rel, content in job["copy_tree"].items():
                p = os.path.join(tmp, rel)
                os.makedirs(os.path.dirname(p), exist_ok=True)
                with open(p, "w", encoding="utf-8") as f:
                    f.write(content)
            os.chdir(tmp)
        p = JMCTestPack(namespace=job.get("namespace", "TEST"))
        p.set_jmc_file(job["src"])
        if job.get("header") is not None:
            p.set_header_file(job["header"])
        p.set_cert(job["cert"])
        p.config.pack_format = job["pack_format"]
        return {"ok": True, "files": p.build().built}
    except _Timeout:
        return {"ok": False, "exc": "Timeout", "jmc": False, "msg": ""}
    except BaseException as e:  # noqa
        signal.alarm(0)
        return {"ok": False, "exc": type(e).__name__, "jmc": type(e).__module__.startswith("jmc."), "msg": str(e)[:1500]}
    finally:
        signal.alarm(0)
        os.chdir(cwd)
        if tmp:
            shutil.rmtree(tmp, ignore_errors=True)


def disk_job(job):
    from pathlib import Path
    from jmc.terminal import GlobalData, Configuration
    from jmc.compile import compile_jmc
    from jmc.compile.header import Header
    cwd = os.getcwd()
    tmp = tempfile.mkdtemp(prefix="c18d_")
    signal.alarm(int(job.get("timeout", 30)))
    try:
        os.chdir(tmp)
        try:
            GlobalData().init("x", "jmc_config.json")
        except Exception:  # noqa
            pass
        proj = Path(tmp) / "proj"
        proj.mkdir()
        (proj / "main.jmc").write_text(job["src"], encoding="utf-8")
        if job.get("header") is not None:
            (proj / "main.hjmc").write_text(job["header"], encoding="utf-8")
        out = Path(tmp) / "out"
        out.mkdir()
        for rel, content in (job.get("pre") or {}).items():
            q = out / rel
            q.parent.mkdir(parents=True, exist_ok=True)
            q.write_text(content, encoding="utf-8")
        for pf in job["builds"]:
            cfg = Configuration(GlobalData(), namespace=job.get("namespace", "TEST"), description="d", pack_format=pf,
                                target=proj / "main.jmc", output=out)
            Header().envs = []
            compile_jmc(cfg)
        files = {}
        for f in sorted(out.rglob("*")):
            if f.is_file():
                files[f.relative_to(out).as_posix()] = f.read_text(encoding="utf-8")
        return {"ok": True, "files": files}
    except _Timeout:
        return {"ok": False, "exc": "Timeout", "jmc": False, "msg": ""}
    except BaseException as e:  # noqa
        signal.alarm(0)
        return {"ok": False, "exc": type(e).__name__, "jmc": type(e).__module__.startswith("jmc."), "msg": str(e)[:1500]}
    finally:
        signal.alarm(0)
        os.chdir(cwd)
        shutil.rmtree(tmp, ignore_errors=True)


def require_job(job, PackVersion, Token, TokenType, Tokenizer, TooLow, TooHigh):
    try:
        tokenizer = Tokenizer("x;", "probe.jmc")
        token = Token(TokenType.KEYWORD, 1, 1, "x")
        f = float(job["f"])
        arg = PackVersion(f) if job.get("as_version") else f
        PackVersion(float(job["pf"])).require(arg, token, tokenizer, is_lower=bool(job["lower"]))
        return {"r": 0}
    except TooLow:
        return {"r": 1}
    except TooHigh:
        return {"r": 2}
    except BaseException as e:  # noqa
        return {"r": type(e).__name__ + ": " + str(e)[:200]}


def main():
    import logging
    logging.disable(logging.CRITICAL)
    from jmc.compile.test_compile import JMCTestPack
    from jmc.compile.pack_version import PackVersion
    from jmc.compile.tokenizer import Token, TokenType, Tokenizer
    from jmc.compile.exception import MinecraftVersionTooLow, MinecraftVersionTooHigh
    signal.signal(signal.SIGALRM, _alarm)
    jobs = json.load(sys.stdin)
    real_stdout = sys.stdout
    sys.stdout = open(os.devnull, "w")
    out = []
    for j in jobs:
        if j["kind"] == "compile":
            out.append(compile_job(j, JMCTestPack))
        elif j["kind"] == "disk":
            out.append(disk_job(j))
        else:
            out.append(require_job(j, PackVersion, Token, TokenType, Tokenizer, MinecraftVersionTooLow, MinecraftVersionTooHigh))
    sys.stdout = real_stdout
    json.dump(out, sys.stdout)


if __name__ == "__main__":
    main()
