"""C15 round 5 — gap families: a STRING literal whose repr() is LONGER than its source text (raw TAB, NBSP, soft hyphen,
DEL, control / zero-width / private-use / non-printable astral characters; no backslash in the literal, one line)
followed ON THE SAME LINE by another token exactly k columns after the closing quote, k = 0..8, plus a tab and a line
break as the gap.  All layouts with a non-empty gap are re-layouts of each other (byte-identical output demanded);
k = 0 is the genuinely glued layout (a different program, used by the is_connected tie only).

Token.end of such a literal is its RECORDED source end (`_macro_end`, Tokenizer.append_token); were it computed as
col + len(repr(string)) it would lie 1..9 columns too far right and a token that many blanks away would be judged glued.
"""
from __future__ import annotations

SPECIAL = [("tab", "\t"), ("nbsp", "\u00a0"), ("shy", "\u00ad"), ("del", "\x7f"), ("ctl1", "\x01"), ("zwsp", "\u200b"),
           ("bom", "\ufeff"), ("pua", "\ue000"), ("tag", "\U000e0001"), ("esc", "\x1b")]
COMBOS = [("tab+nbsp", "\tx\u00a0"), ("tab+tab", "\t\t"), ("nbsp+shy+zwsp", "\u00a0\u00ad\u200b"), ("tab+sq", "it's\t")]
FOLLOWERS = [("curly", "{b:1}"), ("square", "[1,2]"), ("round", "(1)"), ("keyword", "foo"), ("number", "12"),
             ("dq-string", '"b"'), ("sq-string", "'b'")]
CARRIERS = ["tellraw @a ", "data merge storage a:b "]
GAPS = [("k%d" % k, " " * k) for k in range(0, 9)] + [("tabgap", "\t"), ("newline", "\n"), ("k12", " " * 12)]
REFERENCE = "newline"          # the next token on another line can never be judged glued by a column computation


def literals():
    out = []
    for n, (name, c) in enumerate(SPECIAL):
        assert len(repr(c)) - 2 > 1, name
        places = ("start", "middle", "end") if name in ("tab", "nbsp", "shy") else (("start", "middle", "end")[n % 3],)
        for pl in places:
            body = {"start": c + "key", "middle": "a" + c + "key", "end": "key" + c}[pl]
            out.append((f"{name}@{pl}", body))
    for name, body in COMBOS:
        out.append((name, "a" + body + "z"))
    return out


def families():
    """-> list of dict(name, literal(body), quote, follower kind/text, carrier, variants={gap name: (src, lit_line, lit_col,
    end_col, k or None)})"""
    fams = []
    n = 0
    for lname, body in literals():
        for fname, ftext in FOLLOWERS:
            quote = "'" if (n % 3 == 2 and "'" not in body) else '"'
            carrier = CARRIERS[n % len(CARRIERS)]
            n += 1
            lit = quote + body + quote
            assert "\\" not in lit and "\n" not in lit
            variants = {}
            for gname, gap in GAPS:
                src = carrier + lit + gap + ftext + ";"
                col = len(carrier) + 1
                variants[gname] = dict(src=src, line=1, col=col, end_col=col + len(lit),
                                       k=(len(gap) if "\n" not in gap else None))
            fams.append(dict(name=f"{lname}/{fname}", body=body, excess=len(repr(body)) - len(lit), follower=fname,
                             follower_text=ftext, carrier=carrier.strip(), variants=variants))
    return fams
