"""C08 (round 5): JSON definitions made with `new <type>(<child>) extends (<base>) { .. }` against Model/JsonExtends.v.

A case is a list of declarations
    ["new", type, name, body]            new <type>(<name>) <body>
    ["ext", type, name, base, body]      new <type>(<name>) extends (<base>) <body>
(names as spelled, dots allowed; bodies are JSON values with natural numbers only).  `spec` (plain Python, written from the
documentation of `extends`: the child is the recursive merge of the base and its body, the base keeps its own body) is the
documented verdict that classifies a failing input; the Gallina model is compared with the real compiler through Run/C08Ext.v.
EVERY emitted user JSON file (bases and children) is compared, as parsed JSON (key order not significant)."""
import copy
import json
import re

CERT = None
TYPES = ["advancement", "predicate", "loot_table", "item_modifier"]
KEYS = ["display", "title", "criteria", "conditions", "k0", "k1", "k2", "n"]
EXPECTED_TEXT = ("every `new` definition is emitted once with its own body: a child made with `extends` is the recursive merge "
                 "(child keys override / are added inside nested objects; lists and scalars replace), the base's file stays exactly "
                 "the base's own JSON, and siblings extending one base do not see each other")
ERR = {1: "Duplicate JSON", 2: "JSON content cannot be empty", 3: "base path doesn't exist", 4: "child body is not an object",
       5: "base is not an object"}


def conv(name):
    return name.replace(".", "/")


def path_of(d):
    return d[1] + "/" + conv(d[2])


def _body(j):
    # a list body does not end the statement by itself (an object body does, and refuses a `;`)
    return json.dumps(j) + (";" if isinstance(j, list) else "")


def render(decls):
    out = []
    for d in decls:
        if d[0] == "new":
            out.append("new %s(%s) %s" % (d[1], d[2], _body(d[3])))
        else:
            out.append("new %s(%s) extends (%s) %s" % (d[1], d[2], d[3], _body(d[4])))
    return "\n".join(out) + "\n"


def job_of(decls):
    return dict(src=render(decls), pack_format=48, namespace="TEST")


# ------------------------------------------------------------------ documented verdict (plain Python)
def py_merge(base, child):
    if isinstance(base, dict) and isinstance(child, dict):
        out = {k: copy.deepcopy(v) for k, v in base.items()}
        for k, v in child.items():
            out[k] = py_merge(out[k], v) if k in out else copy.deepcopy(v)
        return out
    return copy.deepcopy(child)


def spec(decls):
    table = {}
    for i, d in enumerate(decls):
        p = path_of(d)
        body = d[-1]
        if p in table:
            return ["err", 1, i]
        if not body:
            return ["err", 2, i]
        if d[0] == "ext":
            bp = d[1] + "/" + conv(d[3])
            if bp not in table:
                return ["err", 3, i]
            if not isinstance(body, dict):
                return ["err", 4, i]
            if not isinstance(table[bp], dict):
                return ["err", 5, i]
            body = py_merge(table[bp], body)
        table[p] = copy.deepcopy(body)
    return ["ok", table]


def real(res):
    if not res["ok"]:
        msg = res.get("msg") or ""
        if res.get("jmc"):
            for code, pat in ((1, r"Duplicate JSON\("), (2, r"JSON content cannot be empty"), (3, r"from path doesn't exist"),
                              (4, r"Extending path that isn't JSON"), (5, r"from path that isn't JSON")):
                if re.search(pat, msg):
                    return ["err", code]
        return ["other", res.get("exc"), msg[:300]]
    files = {}
    for path, content in res["files"].items():
        m = re.match(r"^VIRTUAL/data/TEST/(.*)\.json$", path)
        if not m or "/__private__/" in path:
            continue
        try:
            files[m.group(1)] = json.loads(content)
        except ValueError:
            files[m.group(1)] = ["<unparsable>", content[:200]]
    return ["ok", files]


def canon(j):
    return json.dumps(j, sort_keys=True)


def same(rl, sp):
    if rl[0] != sp[0]:
        return False
    if sp[0] == "err":
        return rl[1] == sp[1]
    return sp[0] == "ok" and canon(rl[1]) == canon(sp[1])


def classify(decls, sp, rl):
    if sp[0] != rl[0] or sp[0] == "err":
        return "extends-verdict-differs"
    kinds = {d and path_of(d): d[0] for d in decls}
    for p, v in sp[1].items():
        if p not in rl[1]:
            return "definition-lost-or-duplicated"
        if canon(rl[1][p]) != canon(v):
            return "base-definition-overwritten-by-child" if kinds.get(p) == "new" else "extends-child-is-not-the-merge"
    return "unexpected-json-file"


# ------------------------------------------------------------------ Coq terms
def _s(s):
    return '"' + s.replace('"', '""') + '"'


def jterm(j):
    if j is None:
        return "JNull"
    if j is True or j is False:
        return "(JBool %s)" % ("true" if j else "false")
    if isinstance(j, int) and j >= 0:
        return "(JNum %d)" % j
    if isinstance(j, str) and all(32 <= ord(c) < 127 for c in j):
        return "(JStr %s)" % _s(j)
    if isinstance(j, list):
        return "(JList [" + "; ".join(jterm(x) for x in j) + "])"
    if isinstance(j, dict):
        return "(JObj [" + "; ".join("(%s, %s)" % (_s(k), jterm(v)) for k, v in j.items()) + "])"
    return '(JStr "<outside the modelled JSON values>")'


def case_term(c):
    ds = []
    for d in c["decls"]:
        if d[0] == "new":
            ds.append("DNew %s %s %s" % (_s(d[1]), _s(conv(d[2])), jterm(d[3])))
        else:
            ds.append("DExt %s %s %s %s" % (_s(d[1]), _s(conv(d[2])), _s(conv(d[3])), jterm(d[4])))
    rl = c["real"]
    if rl[0] == "ok":
        r = "ROk [" + "; ".join("(%s, %s)" % (_s(p), jterm(v)) for p, v in rl[1].items()) + "]"
    elif rl[0] == "err":
        r = "RErr %d" % rl[1]
    else:
        r = "ROther"
    return "([" + "; ".join(ds) + "], " + r + ")"


HEADER = ("From Coq Require Import String List.\nFrom JMCV Require Import Model.JsonExtends Run.C08Ext.\n"
          "Import ListNotations.\nOpen Scope string_scope.\n")


# ------------------------------------------------------------------ generators
def scalar(rng):
    return rng.choice(["s", "minecraft:stone", 0, 1, 7, True, False, None, "x y"])


def value(rng, depth):
    """A JSON value with objects nested up to `depth` levels."""
    r = rng.random()
    if depth <= 0 or r < 0.25:
        return scalar(rng)
    if r < 0.4:
        return [value(rng, depth - 1) for _ in range(rng.randint(0, 3))]
    return obj(rng, depth)


def obj(rng, depth, nonempty=False):
    n = rng.randint(1 if nonempty else 0, 3)
    return {k: value(rng, depth - 1) for k in rng.sample(KEYS, n)}


def deep_base(rng, depth):
    """An object that certainly has a chain of nested objects `depth` levels deep, next to other members."""
    o = obj(rng, 2, nonempty=True)
    if depth > 0:
        o[rng.choice(KEYS[:4])] = deep_base(rng, depth - 1)
    return o


def obj_paths(j, pre=()):
    """Every key path of j (through objects only)."""
    out = []
    if isinstance(j, dict):
        for k, v in j.items():
            out.append(pre + (k,))
            out.extend(obj_paths(v, pre + (k,)))
    return out


def get_at(j, p):
    for k in p:
        j = j[k]
    return j


def child_body(rng, base, n_edits, min_depth=1):
    """A body overriding / adding keys at chosen depths inside what `base` (the merged value it extends) has."""
    body = {}
    paths = [p for p in obj_paths(base) if len(p) >= min_depth] or obj_paths(base)
    for _ in range(n_edits):
        p = rng.choice(paths) if paths else ()
        old = get_at(base, p) if p else None
        op = rng.choice(["scalar", "list", "object", "addkey", "same", "emptyobj"])
        if op == "addkey" and isinstance(old, dict):
            fresh = [k for k in KEYS + ["z0", "z1"] if k not in old]
            p, new = p + (rng.choice(fresh),), value(rng, 1)
        elif op == "addkey":
            p, new = p[:-1] + (rng.choice(["z0", "z1"]),), value(rng, 2)
        elif op == "scalar":
            new = scalar(rng)
        elif op == "list":
            new = [scalar(rng) for _ in range(rng.randint(0, 2))]
        elif op == "object":
            new = obj(rng, 2)
        elif op == "emptyobj":
            new = {}
        else:
            new = copy.deepcopy(old)
        cur = body
        ok = True
        for k in p[:-1]:
            if not isinstance(cur.setdefault(k, {}), dict):
                ok = False
                break
            cur = cur[k]
        if ok and p:
            cur[p[-1]] = new
    return body or {"z0": 1}


def family(rng, shape, depth):
    """One program: a base with nested objects and 1..3 definitions extending it (or each other)."""
    ty = rng.choice(TYPES)
    names = rng.sample(["base", "a.b", "root", "x.y.z", "p0"], 1) + rng.sample(["c1", "kid.one", "c2", "c.d", "c3", "leaf"], 3)
    base = deep_base(rng, depth)
    decls = [["new", ty, names[0], base]]
    table = {names[0]: base}
    n_children = {"single": 1, "siblings": rng.randint(2, 3), "chain": rng.randint(2, 3), "mixed": 3}[shape]
    for i in range(n_children):
        if shape in ("single", "siblings"):
            parent = names[0]
        elif shape == "chain":
            parent = names[i]
        else:
            parent = rng.choice(names[:i + 1])
        body = child_body(rng, table[parent], rng.randint(1, 3), min_depth=rng.choice([1, 2, 2, 3]))
        decls.append(["ext", ty, names[i + 1], parent, body])
        table[names[i + 1]] = py_merge(table[parent], body)
    if rng.random() < 0.3:
        decls.insert(rng.randint(0, len(decls)), ["new", rng.choice(TYPES), "other", obj(rng, 2, nonempty=True)])
    return decls


HAND = [
    ("nested-title", [["new", "advancement", "base", {"display": {"title": "base", "icon": {"id": "stone"}}, "criteria": {"x": {"trigger": "t", "conditions": {"a": 1}}}}],
                      ["ext", "advancement", "kid", "base", {"display": {"title": "kid"}, "criteria": {"x": {"conditions": {"a": 2, "b": [1]}}}}]]),
    ("second-child-after-first", [["new", "predicate", "b", {"o": {"p": {"q": 1}}}], ["ext", "predicate", "c1", "b", {"o": {"p": {"q": 2}}}],
                                  ["ext", "predicate", "c2", "b", {"o": {"r": 3}}]]),
    ("grandchild", [["new", "predicate", "b", {"o": {"p": {"q": 1}}}], ["ext", "predicate", "c1", "b", {"o": {"p": {"z": 2}}}],
                    ["ext", "predicate", "c2", "c1", {"o": {"p": {"q": [0]}}}]]),
    ("object-over-scalar", [["new", "loot_table", "b", {"o": {"p": 1}}], ["ext", "loot_table", "c", "b", {"o": {"p": {"q": 1}}}]]),
    ("scalar-over-object", [["new", "loot_table", "b", {"o": {"p": {"q": 1}}}], ["ext", "loot_table", "c", "b", {"o": {"p": None}}]]),
    ("empty-nested-object", [["new", "loot_table", "b", {"o": {"p": {"q": 1}}}], ["ext", "loot_table", "c", "b", {"o": {}}]]),
    ("top-level-only", [["new", "loot_table", "b", {"o": {"p": 1}, "n": 1}], ["ext", "loot_table", "c", "b", {"n": 2}]]),
    ("missing-base", [["new", "advancement", "b", {"o": 1}], ["ext", "advancement", "c", "nope", {"o": 2}]]),
    ("base-of-another-type", [["new", "advancement", "b", {"o": 1}], ["ext", "predicate", "c", "b", {"o": 2}]]),
    ("base-declared-later", [["ext", "advancement", "c", "b", {"o": 2}], ["new", "advancement", "b", {"o": 1}]]),
    ("base-is-a-list", [["new", "predicate", "b", [{"o": 1}]], ["ext", "predicate", "c", "b", {"o": 2}]]),
    ("child-is-a-list", [["new", "predicate", "b", {"o": 1}], ["ext", "predicate", "c", "b", [{"o": 2}]]]),
    ("child-empty", [["new", "predicate", "b", {"o": 1}], ["ext", "predicate", "c", "b", {}]]),
    ("extends-itself", [["new", "predicate", "b", {"o": 1}], ["ext", "predicate", "b", "b", {"o": 2}]]),
    ("duplicate-child", [["new", "predicate", "b", {"o": {"p": 1}}], ["ext", "predicate", "c", "b", {"o": {"p": 2}}],
                         ["ext", "predicate", "c", "b", {"o": {"p": 3}}]]),
    ("dotted-base", [["new", "predicate", "a.b", {"o": {"p": 1}}], ["ext", "predicate", "a.c", "a.b", {"o": {"p": 2}}]]),
]


def cases(rng, tier):
    out = [dict(origin="extends:hand:" + n, decls=d) for n, d in HAND]
    n = 30 if tier == "quick" else 300
    for shape in ("single", "siblings", "chain", "mixed"):
        for i in range(n):
            out.append(dict(origin="extends:%s:%d" % (shape, i), decls=family(rng, shape, depth=1 + i % 3)))
    # siblings in both orders (the model's C08_extends_siblings_independent, on the real compiler)
    for i in range(n // 2):
        d = family(rng, "siblings", depth=1 + i % 3)
        ext = [x for x in d if x[0] == "ext"]
        rest = [x for x in d if x[0] != "ext"]
        out.append(dict(origin="extends:swap:%d" % i, decls=rest + ext))
        out.append(dict(origin="extends:swap:%d:reversed" % i, decls=rest + ext[::-1]))
    # refusals made from generated programs
    for i in range(n // 3):
        d = family(rng, rng.choice(["siblings", "chain"]), depth=2)
        k = rng.choice(["type", "order", "dup", "listbase"])
        ext = [j for j, x in enumerate(d) if x[0] == "ext"]
        j = rng.choice(ext)
        if k == "type":
            d[j][1] = rng.choice([t for t in TYPES if t != d[j][1]])
        elif k == "order":
            d = d[j:] + d[:j]
        elif k == "dup":
            d.append(copy.deepcopy(d[j]))
        else:
            d[0][3] = [d[0][3]]
        out.append(dict(origin="extends:refuse:%s:%d" % (k, i), decls=d))
    for c in out:
        c["job"] = job_of(c["decls"])
    return out


def coverage(cs):
    def depth_of_override(c):
        best = 0
        for d in c["decls"]:
            if d[0] == "ext" and isinstance(d[4], dict):
                best = max([best] + [len(p) for p in obj_paths(d[4])])
        return best
    acc = [c for c in cs if c["spec"][0] == "ok"]
    return dict(programs=len(cs), accepted=len(acc), refused={ERR[k]: sum(1 for c in cs if c["spec"][0] == "err" and c["spec"][1] == k) for k in ERR},
                extends_declarations=sum(1 for c in cs for d in c["decls"] if d[0] == "ext"),
                json_files_compared=sum(len(c["spec"][1]) for c in acc),
                accepted_with_override_at_depth=dict({str(k): sum(1 for c in acc if depth_of_override(c) == k) for k in (1, 2, 3, 4)},
                                                    **{"5+": sum(1 for c in acc if depth_of_override(c) >= 5)}),
                bases_with_two_or_more_children=sum(1 for c in acc if any(sum(1 for d in c["decls"] if d[0] == "ext" and d[3] == b[2]) >= 2
                                                                          for b in c["decls"])),
                child_of_child=sum(1 for c in acc if any(d[0] == "ext" and any(e[0] == "ext" and e[2] == d[3] for e in c["decls"]) for d in c["decls"])))


# ------------------------------------------------------------------ a JSON body that is not the end of its statement
# A list body does not end the statement.  Written without `;`, the tokens of the next statement belong to the same `new`
# statement: before jmc d89f0a8 parse_new took the LAST token as the body, so `new predicate(b) [..]` + newline + `new predicate(c) {..}`
# gave b the body of c, lost b's body and never defined c.  Property-level oracle (no model needed): such a program is refused
# with a JMC diagnostic, or every declaration is emitted with its own body.
def render_nosemi(decls):
    out = []
    for d in decls:
        head = "new %s(%s) " % (d[1], d[2]) + ("extends (%s) " % d[3] if d[0] == "ext" else "")
        out.append(head + json.dumps(d[-1]))
    return "\n".join(out) + "\n"


def nosemi_cases(rng):
    lst = [[{"o": 1}], [1, 2], [{"a": {"b": 1}}, {"c": 2}]]
    objs = [{"o": 2}, {"p": {"q": 1}}]
    out = []
    for i, l in enumerate(lst):
        for j, o in enumerate(objs):
            ty = rng.choice(TYPES)
            out.append(dict(origin="nosemi:list-then-object:%d:%d" % (i, j), decls=[["new", ty, "b", l], ["new", ty, "c", o]]))
            out.append(dict(origin="nosemi:list-then-list-then-object:%d:%d" % (i, j), decls=[["new", ty, "b", l], ["new", ty, "c", lst[(i + 1) % 3]], ["new", ty, "d", o]]))
            out.append(dict(origin="nosemi:object-base-list-then-extends:%d:%d" % (i, j), decls=[["new", ty, "base", o], ["new", ty, "b", l], ["ext", ty, "c", "base", {"z": 1}]]))
    for c in out:
        c["job"] = dict(src=render_nosemi(c["decls"]), pack_format=48, namespace="TEST")
    return out


def nosemi_failure(res, decls):
    """None if the program was refused by a JMC diagnostic or every declaration has its own body; else what went wrong"""
    if not res["ok"]:
        return None if res.get("jmc") else "internal error %s" % res.get("exc")
    sp = spec(decls)
    rl = real(res)
    if sp[0] == "ok" and same(rl, sp):
        return None
    return "accepted, but not every definition has its own body: " + json.dumps(rl[1] if rl[0] == "ok" else rl)[:400]
