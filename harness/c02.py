"""C02 — expression assignment `:=` / `:+= :-= :*= :/= :%=`.

Proof step (Props/C02.vo) + correspondence (exact emitted text / exception class, model vs real compiler)
+ oracle (the real text run in mcvm against the source-level meaning) with known-finding classification
by the tags the model run fired."""
from __future__ import annotations

import json
import re
import sys

from concurrent.futures import ThreadPoolExecutor

from lib import (Check, COMMON_TRUSTED, INT_MAX, INT_MIN, NCPU, REPO, VERIF, compile_batch, coq_list, coq_str, coq_z,
                 functions_of, known_for, run_coq_files, run_py)
from mcvm import VM, Invalid, OutOfFuel, wrap
import c02_gen as G
import c02_ctx as X

PROP = "C02"

CERTS = [
    dict(LOAD="__load__", TICK="__tick__", PRIVATE="__private__", VAR="__variable__", INT="__int__", STORAGE="__storage__"),
    dict(LOAD="init", TICK="loop", PRIVATE="priv", VAR="v", INT="i", STORAGE="stor"),
]
ALL_TAGS = ["pow_nonconst", "const_range"]

HEADER = ("From Coq Require Import ZArith String List.\n"
          "From JMCV Require Import MC.Syntax Model.Names Model.Expr Model.ExprSpec Run.C02.\n"
          "Import ListNotations.\nOpen Scope string_scope.\n")


def cert_text(c):
    return "\n".join(f"{k}={v}" for k, v in c.items())


def names_term(c, ns="TEST"):
    return (f'(mkNames {coq_str(ns)} {coq_str(c["VAR"])} {coq_str(c["INT"])} {coq_str(c["PRIVATE"])} '
            f'{coq_str(c["LOAD"])} {coq_str(c["TICK"])} {coq_str(c["STORAGE"])})')


def score_of(text, cert):
    """(holder, objective) of a variable as written in the source: the selector is CLEANED (ExprSpec.score_of)"""
    if text.startswith("$"):
        return (text, cert["VAR"])
    obj, sel = text.split(":", 1)
    return (G.clean_sel(sel), obj)


# mcvm splits a command on single blanks.  A holder may contain one (`@e[name="a b",limit=1]`), and Minecraft
# itself skips blanks between selector arguments: the emitted text is re-worded for the VM — words are split
# outside brackets / quoted strings, every bracketed word is cleaned, its remaining blanks protected.
BLANK = "\u2423"


def vm_holder(h: str) -> str:
    return G.clean_sel(h).replace(" ", BLANK) if "[" in h else h


def vm_text(text: str) -> str:
    lines = []
    for line in text.split("\n"):
        words, cur, depth, in_string = [], "", 0, False
        for ch in line:
            if in_string:
                in_string = ch != '"'
            elif ch == '"':
                in_string = True
            elif ch in "[{":
                depth += 1
            elif ch in "]}":
                depth -= 1
            elif ch == " " and depth <= 0:
                words.append(cur)
                cur = ""
                continue
            cur += ch
        words.append(cur)
        lines.append(" ".join(vm_holder(w) for w in words))
    return "\n".join(lines)


def vm_key(score):
    return (vm_holder(score[0]), score[1])


# ------------------------------------------------------------------ cases
def mk_case(e, target, form, cert, rng, style):
    toks = G.render(e)
    text = G.layout(toks, rng, style)
    return dict(e=e, target=target, form=form, cert=cert, src=G.show_toks(toks), text=text,
                stmt=f"{target} :{form}= {text};")


CONSTS_SMALL = [0, 1, 2, 3, -3, 5, 7, -1, 10, -2, 4, 6]
CONSTS_EDGE = [0, 1, -1, 2, 65536, 46341, INT_MAX, INT_MIN, -65536, 1000000, 3, 7]


def gen_cases(rng, tier):
    cases = []
    # (i) exhaustive: every tree of depth <= 1 over the 9 leaves x 6 operators x 6 forms
    for form in G.FORMS:
        for e in G.exhaustive_depth1("$x"):
            cases.append(mk_case(e, "$x", form, 0, rng, 0))
    n_exh = len(cases)
    # unary minus / parentheses on depth-1 trees and leaves, all forms
    L = G.leaves("$x")
    for form in G.FORMS:
        for l in L:
            cases.append(mk_case(("neg", l), "$x", form, 0, rng, 0))
            cases.append(mk_case(("par", l), "$x", form, 0, rng, 0))
            for op in G.OPS:
                for r in (("v", "$a"), ("c", 2)):
                    cases.append(mk_case(("bin", op, ("neg", l), r), "$x", form, 0, rng, 0))
                    cases.append(mk_case(("bin", op, r, ("neg", l)), "$x", form, 0, rng, 0))
    # powers: every exponent 0..9 on a variable, the target, a compound base; parenthesised operands next to - and /
    for k in range(10):
        for base in (("v", "$a"), ("v", "$x"), ("bin", "+", ("v", "$a"), ("v", "$b")), ("bin", "*", ("v", "$x"), ("c", 2))):
            cases.append(mk_case(("bin", "**", base, ("c", k)), "$x", "", 0, rng, 0))
            cases.append(mk_case(("bin", "+", ("bin", "**", base, ("c", k)), ("v", "$b")), "$x", rng.choice(G.FORMS), 0, rng, 0))
    for op in G.OPS[:5]:
        for l in L:
            for r in (("v", "$a"), ("c", 2), ("v", "$x")):
                cases.append(mk_case(("bin", op, ("par", l), r), "$x", "", 0, rng, 0))
                cases.append(mk_case(("bin", op, r, ("par", ("bin", "-", l, ("v", "$b")))), "$x", "", 0, rng, 0))
    # (ii) depth 2, sampled exhaustively-shaped: op(d1, leaf), op(leaf, d1), op(d1, d1)
    n2 = 700 if tier == "quick" else 12000
    d1 = [e for e in G.exhaustive_depth1("$x") if e[0] == "bin"]
    for _ in range(n2):
        op = rng.choice(G.OPS)
        shape = rng.randrange(3)
        l = rng.choice(d1) if shape != 1 else rng.choice(L)
        r = rng.choice(d1) if (shape != 0 and op != "**") else rng.choice(L)   # exponents stay literals/variables
        form = rng.choice(["", "", "", "+", "-", "*", "/", "%"])
        cases.append(mk_case(("bin", op, l, r), "$x", form, 0, rng, rng.choice([0, 1])))
    # (i') bracketed selectors: every (target spelling, operand spelling) pair of one holder in thirteen shapes
    for k, (e, target, form, _pair) in enumerate(G.spelling_cases()):
        cases.append(mk_case(e, target, form, 1 if k % 7 == 3 else 0, rng, [0, 0, 1, 2][k % 4]))
        cases[-1]["pair"] = _pair
    # (iii) flat chains (shunting-yard / optimize_const grouping)
    nch = 500 if tier == "quick" else 8000
    for _ in range(nch):
        target = rng.choice(["$x", "$x", "obj:@s"])
        pool = ["$a", "$b", target, "obj2:@p"]
        if rng.random() < 0.12:
            target, same, diff = G.spelled_pool(rng)
            pool = ["$a", "$b"] + same + diff[:1]
        e = G.chain_expr(rng, target, rng.choice([CONSTS_SMALL, CONSTS_SMALL, CONSTS_EDGE]), pool)
        form = rng.choice(["", "", "", "+", "-", "*", "/", "%"])
        cases.append(mk_case(e, target, form, rng.choice([0, 0, 1]), rng, rng.choice([0, 1, 2])))
    # (iv) random trees to depth 5
    nr = 700 if tier == "quick" else 16000
    for _ in range(nr):
        target = rng.choice(["$x", "$x", "$x", "obj:@s", "obj_3:@e[tag=t,limit=1]"])
        pool = ["$a", "$b", "$c", target, target, "obj2:@p"]
        if rng.random() < 0.12:
            t2, same, diff = G.spelled_pool(rng)
            if rng.random() < 0.3:          # bracketed operands of a plain target
                pool = ["$a", target, target] + same + diff
            else:
                target, pool = t2, ["$a", "$b", "$c"] + same + diff
        consts = rng.choice([CONSTS_SMALL, CONSTS_SMALL, CONSTS_SMALL, CONSTS_EDGE])
        e = G.random_expr(rng, target, rng.choice([2, 3, 3, 4, 5]), consts, pool)
        form = rng.choice(["", "", "", "+", "-", "*", "/", "%"])
        cases.append(mk_case(e, target, form, rng.choice([0, 0, 1]), rng, rng.choice([0, 1, 2])))
    # (iv') the fragment of C02_partial: variable-only trees to depth 6, the target in 0..n places, all forms
    na = 400 if tier == "quick" else 6000
    for _ in range(na):
        target = rng.choice(["$x", "$x", "obj:@s"])
        pool = rng.choice([["$a", "$b", "$c"], ["$a", "$b", target], ["$a", target, target], [target]])
        if rng.random() < 0.15:
            target, same, diff = G.spelled_pool(rng)
            pool = rng.choice([["$a", "$b"] + same, ["$a"] + same + diff, same, same + diff[:1]])
        e = G.random_arith(rng, rng.choice([2, 3, 4, 5, 6]), pool)
        cases.append(mk_case(e, target, rng.choice(G.FORMS), rng.choice([0, 0, 1]), rng, rng.choice([0, 1, 2])))
    # (v) adversarial: boundary literals in every position of a binary operation, all forms
    for z in [INT_MIN, INT_MAX, INT_MIN + 1, -1, 0, 1, 65536, 2147483648 // 2]:
        for form in G.FORMS:
            cases.append(mk_case(("c", z), "$x", form, 0, rng, 0))
            for op in G.OPS[:5]:
                cases.append(mk_case(("bin", op, ("v", "$a"), ("c", z)), "$x", form, 0, rng, 0))
                cases.append(mk_case(("bin", op, ("c", z), ("v", "$a")), "$x", form, 0, rng, 0))
                cases.append(mk_case(("bin", op, ("bin", op, ("v", "$a"), ("c", z)), ("c", 2)), "$x", form, 0, rng, 0))
    for c in cases:
        vs = G.vars_of(c["e"]) | {c["target"]}
        c["bracketed"] = any(G.is_bracketed(v) for v in vs)
        # the target occurs in the expression under a spelling that is not the target's own
        c["respelled"] = any(v != c["target"] and G.canon_var(v) == G.canon_var(c["target"]) for v in G.vars_of(c["e"]))
    return cases, n_exh


# ------------------------------------------------------------------ real compiler
def compile_cases(cases):
    jobs = [dict(src="function f() { " + c["stmt"] + " }", cert=cert_text(CERTS[c["cert"]])) for c in cases]
    chunks = [jobs[i:i + 150] for i in range(0, len(jobs), 150)]
    with ThreadPoolExecutor(max_workers=NCPU) as ex:
        results = [r for rs in ex.map(lambda ch: run_py(VERIF / "harness" / "c02_run.py", ch, timeout=900), chunks) for r in rs]
    for c, r in zip(cases, results):
        cert = CERTS[c["cert"]]
        if r["ok"]:
            fns = functions_of(r["files"])
            c["real"] = fns.get("f", "<missing function>")
            if len(c["real"]) > 40000:      # e.g. `$a ** 100000`: legitimate but enormous; outside the model (POW_CAP)
                c["real"] = f"<long output: {c['real'].count(chr(10)) + 1} lines>"
            load = fns.get(cert["LOAD"], "")
            c["ints"] = sorted({int(m.group(1)) for m in re.finditer(
                r"^scoreboard players set (-?\d+) %s (-?\d+)$" % re.escape(cert["INT"]), load, re.M)})
            c["exc"] = None
        else:
            c["real"] = "<diag>" if r["jmc"] else f"<crash {r['exc']}>"
            c["ints"] = []
            c["exc"] = dict(cls=r["exc"], msg=r["msg"][:300], frame=r["frame"])


# ------------------------------------------------------------------ oracle on the real text
GRID = [0, 1, -1, 2, 3, -3, 7, 100, -100, INT_MAX, INT_MIN, 46341, -5]


def states_for(c, rng, n=12):
    names = sorted(G.vars_of(c["e"]) | {c["target"], "$bystander"})
    # spellings that clean to the same holder are ONE score: values are chosen per canonical variable
    vs = sorted({G.canon_var(v) for v in names})
    out = [{v: 0 for v in vs}, {v: 1 for v in vs}, {v: k + 2 for k, v in enumerate(vs)},
           {v: -(k + 3) for k, v in enumerate(vs)}]
    while len(out) < n:
        out.append({v: (rng.choice(GRID) if rng.random() < 0.8 else rng.randint(-50, 50)) for v in vs})
    return [{v: env[G.canon_var(v)] for v in names} for env in out]


def run_state(c, env):
    """-> None if fine / no defined meaning, else a failure description"""
    cert = CERTS[c["cert"]]
    v = G.eval_expr(c["e"], env)
    v2 = G.eval_text(c["text"], env)
    if v != v2:
        raise AssertionError(f"harness renderer disagrees with Python's grammar on {c['text']!r}: {v} vs {v2}")
    exp = G.form_sem(c["form"], env[c["target"]], v)
    if exp is None:
        return None
    if c["real"].startswith("<long output"):
        return None
    if c["real"].startswith("<crash"):
        return dict(kind="internal-error", exception=c["exc"], expected=exp, init=env)
    if c["real"] == "<diag>":
        return dict(kind="rejected-with-diagnostic", exception=c["exc"], expected=exp, init=env)
    if c["real"].startswith("<"):
        return dict(kind="no-output", detail=c["real"], expected=exp, init=env)
    vm = VM({}, max_steps=20000)
    for n in c["ints"]:
        vm.s[(str(n), cert["INT"])] = n
    for name, val in env.items():
        vm.s[vm_key(score_of(name, cert))] = val
    before = dict(vm.s)
    try:
        vm.run_lines(vm_text(c["real"]))
    except Invalid as e:
        return dict(kind="invalid-command", detail=str(e), expected=exp, init=env)
    except OutOfFuel:
        return dict(kind="no-termination", init=env)
    t = vm_key(score_of(c["target"], cert))
    got = vm.s.get(t)
    if got != exp:
        return dict(kind="wrong-value", expected=exp, actual=got, init=env)
    for name in env:
        k = vm_key(score_of(name, cert))      # canonical holder: another spelling of the target IS the target
        if k != t and vm.s.get(k) != before.get(k):
            return dict(kind="other-variable-changed", variable=name, before=before.get(k), after=vm.s.get(k), init=env)
    return None


def oracle(c, rng, n=12):
    if c["real"].startswith("<crash"):
        # an internal error is a violation whatever the value of the expression (even `1 / 0`)
        return dict(kind="internal-error", exception=c["exc"])
    for env in states_for(c, rng, n):
        f = run_state(c, env)
        if f:
            return f
    return None


# ------------------------------------------------------------------ Coq evaluation
def case_term(c):
    cert = CERTS[c["cert"]]
    return (f"mkCase nm{c['cert']} {G.svar_term(c['target'])} {G.OPC[c['form']]} {G.expr_term(c['e'])} "
            f"{coq_str(c['src'])} {coq_str(c['real'])} {coq_list(coq_z(n) for n in c['ints'])} "
            f"{'true' if c.get('fail') else 'false'}")


def coq_header(known_tags):
    h = HEADER
    for i, cert in enumerate(CERTS):
        h += f"Definition nm{i} := {names_term(cert)}.\n"
    h += f"Definition known : list string := {coq_list(coq_str(t) for t in known_tags)}.\n"
    return h


def parse_nested(out: str):
    m = re.search(r"=\s*(\[.*\])\s*:\s*list \(list nat\)", out, re.S)
    if not m:
        raise ValueError("no summary in coq output: " + out[-2000:])
    txt = m.group(1).replace("%nat", "").replace(";", ",")
    return json.loads(txt)


def coq_summaries(cases, known_tags, per_file=300):
    files = []
    for fi, start in enumerate(range(0, len(cases), per_file)):
        chunk = cases[start:start + per_file]
        body = coq_header(known_tags) + "Definition cases := [\n" + ";\n".join(case_term(c) for c in chunk) + \
            "\n].\nEval vm_compute in summarize known cases.\n"
        files.append((f"cases_{fi}.v", body))
    outs = run_coq_files(PROP, files, timeout=900)
    res = dict(mismatch=[], render=[], unmodelled=[], unexplained=[], explained=[], tagcount=[0] * len(ALL_TAGS), errors=[])
    for fi, (ok, out) in enumerate(outs):
        base = fi * per_file
        if not ok:
            res["errors"].append(f"{files[fi][0]}: {out[-2500:]}")
            continue
        mm, rd, um, ux, ex, tc = parse_nested(out)
        res["mismatch"] += [base + i for i in mm]
        res["render"] += [base + i for i in rd]
        res["unmodelled"] += [base + i for i in um]
        res["unexplained"] += [base + i for i in ux]
        res["explained"] += [(base + ex[j], ex[j + 1]) for j in range(0, len(ex), 2)]
        res["tagcount"] = [a + b for a, b in zip(res["tagcount"], tc)]
    return res


def model_outputs(cases, idxs):
    """model text and fired tags for a few cases (for replay files)"""
    if not idxs:
        return {}
    body = coq_header([])
    for i in idxs:
        body += f"Eval vm_compute in (model_text ({case_term(cases[i])}), model_tag_names ({case_term(cases[i])})).\n"
    (ok, out), = run_coq_files(PROP, [("show.v", body)], clean=False, timeout=200)
    res = {}
    if not ok:
        return {i: ("<coq evaluation failed>", out[-500:]) for i in idxs}
    blocks = re.split(r"\n\s*=\s", "\n" + out)[1:]
    for i, blk in zip(idxs, blocks):
        ss = [m.group(1).replace('""', '"') for m in re.finditer(r'"((?:[^"]|"")*)"', blk, re.S)]
        res[i] = (ss[0] if ss else "", ss[1] if len(ss) > 1 else "")
    return res


def selectors_of(cases):
    """every selector text (as written) of the run"""
    return sorted({v.split(":", 1)[1] for c in cases for v in (G.vars_of(c["e"]) | {c["target"]}) if not v.startswith("$")})


def eval_check(cases, rng, n):
    """Coq's `eval` (the specification in the theorems) against the Python oracle on sampled states, and
    Coq's `clean_sel` against the harness's on every selector spelling of the run.
    -> (statements with a different value, selectors cleaned differently, error text)"""
    br = [i for i, c in enumerate(cases) if c.get("bracketed")]
    pick_idx = set(rng.sample(range(len(cases)), min(n, len(cases)))) | set(rng.sample(br, min(n // 3, len(br))))
    picks = [cases[i] for i in sorted(pick_idx)]
    terms, exps = [], []
    kept = []
    for c in picks:
        env = states_for(c, rng, 6)[-1]
        if G.max_exponent(c["e"], env) > 64:
            continue
        kept.append(c)
        cert = CERTS[c["cert"]]
        pairs = coq_list(f"(({coq_str(score_of(k, cert)[0])}, {coq_str(score_of(k, cert)[1])}), {coq_z(v)})" for k, v in env.items())
        v = G.eval_expr(c["e"], env)
        terms.append(f"(nm{c['cert']}, {G.expr_term(c['e'])}, {pairs}, {'None' if v is None else '(Some ' + coq_z(v) + ')'})")
    body = coq_header([]) + (
        "Definition lookup (l : list (score * Z)) (k : score) : Z :=\n"
        "  match find (fun p => score_eqb (fst p) k) l with Some p => snd p | None => 0%Z end.\n"
        "Definition okc (c : names * expr * list (score * Z) * option Z) : bool :=\n"
        "  let '(nm, e, env, exp) := c in\n"
        "  match eval nm (lookup env) e, exp with Some a, Some b => Z.eqb a b | None, None => true | _, _ => false end.\n"
        "Definition cs := [\n" + ";\n".join(terms) + "\n].\n"
        "Eval vm_compute in Run.Common.bad_indices okc cs.\n")
    sels = selectors_of(cases)
    body += ("Definition sels : list (string * string) := " +
             coq_list(f"({coq_str(x)}, {coq_str(G.clean_sel(x))})" for x in sels) + ".\n"
             "Eval vm_compute in Run.Common.bad_indices (fun p => String.eqb (clean_sel (fst p)) (snd p)) sels.\n")
    (ok, out), = run_coq_files(PROP, [("evalcheck.v", body)], clean=False, timeout=200)
    if not ok:
        return None, None, out[-2000:]
    ms = re.findall(r"=\s*(\[[^\]]*\]|nil)\s*:\s*list nat", out, re.S)
    if len(ms) != 2:
        return None, None, "unexpected output of evalcheck.v: " + out[-2000:]
    bad, bad_sel = ([int(x) for x in re.findall(r"\d+", m)] for m in ms)
    return [kept[i]["stmt"] for i in bad], [sels[i] for i in bad_sel], ""


# ------------------------------------------------------------------ statements in a one-command position
XHEADER = ("From Coq Require Import ZArith String List Bool.\n"
           "From JMCV Require Import MC.Syntax Model.Names Model.Expr Model.ExprSpec Model.ExprCtx Run.C02.\n"
           "Import ListNotations.\nOpen Scope string_scope.\n")
CTX_USER = ["$g", "$h", "$o", "$p", "$r", "$after", "$bystander"]


def stmt_src(c):
    """the statement without its final `;`"""
    return c["stmt"][:-1]


def gen_ctx_programs(cases, rng, tier):
    """-> list of programs: dict(stmts=[dict(case=index, ctx=...)], cert=int, coq=bool, src=str)"""
    ok = [i for i, c in enumerate(cases) if not c["real"].startswith("<") and len(c["stmt"]) < 400]
    multi = [i for i in ok if cases[i]["real"].count("\n") >= 1 or cases[i]["real"] == ""]
    empty = [i for i in ok if cases[i]["real"] == ""]
    single = [i for i in ok if i not in set(multi)]
    if not ok:
        return []

    def pick():
        r = rng.random()
        pool = multi if (r < 0.72 and multi) else empty if (r < 0.8 and empty) else single if single else ok
        return rng.choice(pool)
    n_coq = 900 if tier == "quick" else 5200
    n_py = 240 if tier == "quick" else 1400
    progs = []
    for k in range(n_coq + n_py):
        coq = k < n_coq
        kinds = X.KINDS_COQ if coq else X.KINDS_PY
        n_st = 2 if (coq and rng.random() < 0.2) else 1
        idx = [pick() for _ in range(n_st)]
        cert = cases[idx[0]]["cert"]
        idx = [i for i in idx if cases[i]["cert"] == cert] or idx[:1]
        stmts = []
        for j, i in enumerate(idx):
            c = cases[i]
            kind = kinds[(k + j) % len(kinds)] if rng.random() < 0.8 else rng.choice(kinds)
            if not coq and kind != "AS":
                ctx = dict(kind=kind, guard=[], ret=False, chain=[], prefix="",
                           cond=rng.choice(["$g >= 1", "$g < 0", "$g >= 1 && $h < 3", "$g == $h", "!($g > 2)"]))
                if kind == "IFELSE":
                    ctx["other"] = rng.choice(single + multi)
            else:
                ctx = X.gen_ctx(rng, kind, c["target"], G.vars_of(c["e"]))
            stmts.append(dict(case=i, ctx=ctx))
        progs.append(dict(stmts=stmts, cert=cert, coq=coq))
    for p in progs:
        var = CERTS[p["cert"]]["VAR"]
        parts = []
        for s in p["stmts"]:
            c, ctx = cases[s["case"]], s["ctx"]
            if ctx["kind"] == "IFB":
                parts.append(f"if ({ctx['cond']}) {c['stmt']}")
            elif ctx["kind"] == "IFELSE":
                parts.append(f"if ({ctx['cond']}) {c['stmt']} else {cases[ctx['other']]['stmt']}")
            else:
                parts.append(X.place_src(ctx, stmt_src(c), var, G.clean_sel))
        p["src"] = "function f() { " + " ".join(parts) + " $after = 7; }\nfunction main() { $r = f(); }"
    return progs


COND_PY = {"$g >= 1": lambda e: e["$g"] >= 1, "$g < 0": lambda e: e["$g"] < 0,
           "$g >= 1 && $h < 3": lambda e: e["$g"] >= 1 and e["$h"] < 3, "$g == $h": lambda e: e["$g"] == e["$h"],
           "!($g > 2)": lambda e: not e["$g"] > 2}


def compile_ctx(progs):
    jobs = [dict(src=p["src"], cert=cert_text(CERTS[p["cert"]])) for p in progs]
    chunks = [jobs[i:i + 150] for i in range(0, len(jobs), 150)]
    with ThreadPoolExecutor(max_workers=NCPU) as ex:
        results = [r for rs in ex.map(lambda ch: run_py(VERIF / "harness" / "c02_run.py", ch, timeout=900), chunks) for r in rs]
    for p, r in zip(progs, results):
        cert = CERTS[p["cert"]]
        if r["ok"]:
            p["fns"] = functions_of(r["files"])
            p["real"] = p["fns"].get("f", "<missing function>")
            p["anon"] = X.anon_functions(p["fns"], cert["PRIVATE"])
            load = p["fns"].get(cert["LOAD"], "")
            p["ints"] = sorted({int(m.group(1)) for m in re.finditer(
                r"^scoreboard players set (-?\d+) %s (-?\d+)$" % re.escape(cert["INT"]), load, re.M)})
            p["exc"] = None
        else:
            p["fns"], p["anon"], p["ints"] = {}, [], []
            p["real"] = "<diag>" if r["jmc"] else f"<crash {r['exc']}>"
            p["exc"] = dict(cls=r["exc"], msg=r["msg"][:300], frame=r["frame"])


def prog_vars(p, cases):
    names = set(CTX_USER)
    for s in p["stmts"]:
        c = cases[s["case"]]
        names |= G.vars_of(c["e"]) | {c["target"]} | X.ctx_vars(s["ctx"])
        if "other" in s["ctx"]:
            o = cases[s["ctx"]["other"]]
            names |= G.vars_of(o["e"]) | {o["target"]}
    return sorted(names)


def value_of(c):
    def f(env):
        v = G.eval_expr(c["e"], env)
        return G.form_sem(c["form"], env[c["target"]], v)
    return f


def ref_stmts(p, cases, env):
    """the program as statements for X.ref_run (braces-less if = a guard evaluated by Python)"""
    out = []
    for s in p["stmts"]:
        c, ctx = cases[s["case"]], s["ctx"]
        if ctx["kind"] in ("IFB", "IFELSE"):
            hold = COND_PY[ctx["cond"]](env)
            # an always-true / always-false guard: the condition is evaluated on the state BEFORE the statement, and
            # braces-less programs have ONE statement
            g = [] if hold else [(True, "$g", "m", (1, 0))]
            if hold or ctx["kind"] == "IFB":
                out.append(dict(ctx=dict(ctx, guard=g), target=c["target"], value=value_of(c), has_commands=True))
            else:
                o = cases[ctx["other"]]
                out.append(dict(ctx=dict(ctx, guard=[]), target=o["target"], value=value_of(o), has_commands=True))
        else:
            out.append(dict(ctx=ctx, target=c["target"], value=value_of(c), has_commands=c["real"] != ""))
    return out


def ctx_states(p, cases, rng, n=10):
    names = prog_vars(p, cases)
    vs = sorted({G.canon_var(v) for v in names})
    small = [0, 1, -1, 2, 3, -3, 5, 7]
    out, seen = [], set()
    tries = 0
    guards = [s["ctx"]["guard"] for s in p["stmts"] if s["ctx"]["guard"]]
    while len(out) < n and tries < 60:
        tries += 1
        pool = small if tries % 3 else GRID
        cv = {v: rng.choice(pool) for v in vs}
        env = {v: cv[G.canon_var(v)] for v in names}
        sig = tuple(X.guard_holds(g, env) for g in guards)
        # keep states of both outcomes of every guard: prefer a signature not seen yet, fill up with anything
        if sig in seen and len(out) >= n // 2 and tries < 40 and len(seen) < 2 ** len(guards):
            continue
        seen.add(sig)
        out.append(env)
    return out


def run_ctx_state(p, cases, env):
    cert = CERTS[p["cert"]]
    r = X.ref_run(ref_stmts(p, cases, env), env, G.canon_var)
    if r is X.UNDEF:
        return None
    exp, returned = r
    if p["real"].startswith("<"):
        kind = "internal-error" if p["real"].startswith("<crash") else "rejected-with-diagnostic"
        return dict(kind=kind, exception=p["exc"], init=env)
    vm = X.RVM(p["fns"], max_steps=40000)
    for n in p["ints"]:
        vm.s[(str(n), cert["INT"])] = n
    for name, val in env.items():
        vm.s[vm_key(score_of(name, cert))] = val
    fns = {k: vm_text(v) for k, v in p["fns"].items()}
    vm.funcs = fns
    try:
        vm.call("TEST:main")
    except Invalid as e:
        return dict(kind="invalid-command", detail=str(e), init=env)
    except OutOfFuel:
        return dict(kind="no-termination", init=env)
    if isinstance(returned, int):
        exp[G.canon_var("$r")] = returned
    for name in env:
        if name == "$r" and returned == "unknown":
            continue
        k = vm_key(score_of(name, cert))
        want = exp[G.canon_var(name)]
        got = vm.s.get(k)
        if got != want:
            return dict(kind="wrong-value-in-context", variable=name, expected=want, actual=got, init=env,
                        note="reference: the whole statement runs iff the tests of its prefix hold on the state before it; "
                             "`return run` leaves f with the statement's value; `$after = 7` runs iff f was not left")
    return None


def ctx_oracle(p, cases, rng, n=10):
    if p["real"].startswith("<crash"):
        return dict(kind="internal-error", exception=p["exc"])
    for env in ctx_states(p, cases, rng, n):
        f = run_ctx_state(p, cases, env)
        if f:
            return f
    return None


def xcase_term(p, cases):
    nm = f"nm{p['cert']}"
    stmts = coq_list(X.xstmt_term(s["ctx"], nm, G.svar_term(cases[s["case"]]["target"]), G.OPC[cases[s["case"]]["form"]],
                                  G.expr_term(cases[s["case"]]["e"]), G.svar_term) for s in p["stmts"])
    return (f"mkXCase {nm} {stmts} true {coq_str(p['real'])} {X.fns_term('TEST', p['anon'])} "
            f"{coq_list(coq_z(n) for n in p['ints'])}")


def coq_xsummaries(progs, cases, per_file=300):
    files = []
    for fi, start in enumerate(range(0, len(progs), per_file)):
        chunk = progs[start:start + per_file]
        body = XHEADER
        for i, cert in enumerate(CERTS):
            body += f"Definition nm{i} := {names_term(cert)}.\n"
        body += "Definition cases := [\n" + ";\n".join(xcase_term(p, cases) for p in chunk) + \
            "\n].\nEval vm_compute in xsummarize cases.\n"
        files.append((f"xcases_{fi}.v", body))
    outs = run_coq_files(PROP, files, clean=False, timeout=900)
    res = dict(mismatch=[], outside=[], errors=[])
    for fi, (ok, out) in enumerate(outs):
        base = fi * per_file
        if not ok:
            res["errors"].append(f"{files[fi][0]}: {out[-2500:]}")
            continue
        mm, um = parse_nested(out)
        res["mismatch"] += [base + i for i in mm]
        res["outside"] += [base + i for i in um]
    return res


def xmodel_outputs(progs, cases, idxs):
    if not idxs:
        return {}
    body = XHEADER
    for i, cert in enumerate(CERTS):
        body += f"Definition nm{i} := {names_term(cert)}.\n"
    for i in idxs:
        body += f"Eval vm_compute in xmodel_text ({xcase_term(progs[i], cases)}).\n"
    (ok, out), = run_coq_files(PROP, [("xshow.v", body)], clean=False, timeout=200)
    if not ok:
        return {i: "<coq evaluation failed> " + out[-300:] for i in idxs}
    blocks = re.split(r"\n\s*=\s", "\n" + out)[1:]
    res = {}
    for i, blk in zip(idxs, blocks):
        ss = [m.group(1).replace('""', '"') for m in re.finditer(r'"((?:[^"]|"")*)"', blk, re.S)]
        res[i] = ss[0] if ss else ""
    return res


def ctx_replay_obj(p, cases, fail, model=None):
    return dict(kind=(fail or {}).get("kind", "context-correspondence-differs"), mode="context", source=p["src"],
                jmc_txt=CERTS[p["cert"]],
                statements=[dict(statement=cases[s["case"]]["stmt"], context=s["ctx"]["kind"],
                                 placed=X.place_src(s["ctx"], stmt_src(cases[s["case"]]), CERTS[p["cert"]]["VAR"], G.clean_sel)
                                 if s["ctx"]["kind"] not in ("IFB", "IFELSE") else f"if ({s['ctx']['cond']}) …")
                            for s in p["stmts"]],
                emitted={k: v for k, v in p["fns"].items() if k in ("f", "main") or "/anonymous/" in k or "/if_else/" in k},
                emitted_f=p["real"], int_constants=p["ints"], failure=fail, model_output=model,
                expected="a statement behind `execute <tests> run` / `return run` / `$o =` / a braces-less `if` runs as a WHOLE iff "
                         "the tests hold on the state before it (and does nothing otherwise); `return run` leaves the function with "
                         "the statement's value; every target of a chained assignment receives the value",
                replay_cmd="./check C02 --replay <this file>")


def ctx_phase(ck, cases, tier, phases_lap):
    progs = gen_ctx_programs(cases, ck.rng, tier)
    compile_ctx(progs)
    phases_lap("ctx-compile")
    fails = {}
    for i, p in enumerate(progs):
        f = ctx_oracle(p, cases, ck.rng, 10)
        if f:
            fails[i] = f
    phases_lap("ctx-oracle")
    coq_idx = [i for i, p in enumerate(progs) if p["coq"]]
    res = coq_xsummaries([progs[i] for i in coq_idx], cases)
    res["mismatch"] = [coq_idx[i] for i in res["mismatch"]]
    res["outside"] = [coq_idx[i] for i in res["outside"]]
    phases_lap("ctx-coq")
    for e in res["errors"]:
        ck.violation(dict(kind="context-correspondence-file-failed", log=e), no_input=True)
    mism = res["mismatch"]
    # report: failing inputs first (one per (context kind, failure kind)), then silent text differences
    show = xmodel_outputs(progs, cases, [i for i in mism if progs[i]["coq"]][:6])
    seen = set()
    for i in sorted(fails):
        key = (tuple(s["ctx"]["kind"] for s in progs[i]["stmts"])[0], fails[i]["kind"])
        if key in seen or len(seen) >= 6:
            continue
        seen.add(key)
        ck.violation(ctx_replay_obj(progs[i], cases, fails[i], show.get(i)))
    silent = [i for i in mism if i not in fails]
    if silent and not fails:
        i = silent[0]
        o = ctx_replay_obj(progs[i], cases, None, show.get(i))
        o.update(theorem="C02_context_execute / C02_partial_in_context / C02_context_return / C02_partial_chained speak about "
                         "Model/ExprCtx.v (place, wrap_under, chain_stmt), which no longer matches the code",
                 n_differing=len(mism), others=[progs[j]["src"] for j in silent[1:5]])
        ck.violation(o, no_input=True)
    kinds = {}
    for p in progs:
        for s in p["stmts"]:
            kinds[s["ctx"]["kind"]] = kinds.get(s["ctx"]["kind"], 0) + 1
    fk = {}
    for f in fails.values():
        fk[f["kind"]] = fk.get(f["kind"], 0) + 1
    lines = {}
    for p in progs:
        for s in p["stmts"]:
            r = cases[s["case"]]["real"]
            n = 0 if r == "" else r.count("\n") + 1
            key = "0" if n == 0 else "1" if n == 1 else "2-3" if n <= 3 else "4+"
            lines[key] = lines.get(key, 0) + 1
    return dict(context_programs=len(progs), context_programs_tied_to_model=len(coq_idx),
                context_kinds=kinds, context_statement_lines=lines,
                context_two_statement_programs=sum(1 for p in progs if len(p["stmts"]) == 2),
                context_private_functions=sum(len(p["anon"]) for p in progs),
                context_disagreements=len(mism), context_outside_model=len(res["outside"]),
                context_failing_programs=len(fails), context_failing_by_kind=fk,
                context_samples=[dict(source=progs[i]["src"], f=progs[i]["real"]) for i in (0, 1, len(progs) - 1) if i < len(progs)])


# ------------------------------------------------------------------ main
def replay_obj(c, fail, model=None):
    return dict(kind=fail["kind"] if fail else "correspondence-differs", statement=c["stmt"], target=c["target"],
                jmc_txt=CERTS[c["cert"]],
                source="function f() { " + c["stmt"] + " }", emitted=c["real"], int_constants=c["ints"], failure=fail,
                model_output=model[0] if model else None, model_tags=model[1] if model else None,
                expected="target = value of the expression (standard precedence, left associative, 32-bit wrap, floor division); "
                         "no other user variable changes; no internal error",
                replay_cmd="./check C02 --replay <this file>")


def main(tier: str) -> int:
    ck = Check(PROP, tier)
    ck.cov["trusted_base"] = COMMON_TRUSTED + [
        "Model/Expr*.v: hand-written port of tokens_to_tokens, expression_to_tree (+Expression.__post_init__, Negation), "
        "search_for_output_in_tree, tree_to_operations, fold_constants, optimize_const / merge_constants / merge_constant "
        "(expression_eval.py) and the lowering (var_operation.py), as repaired by fixes/C02-*.patch; tied to /repo by exact "
        "text / exception-class equality on the generated statements",
        "Model/ExprSpec.v (eval, render): the specification; render is cross-checked against Python's grammar and Coq's eval "
        "against the Python oracle on every run",
        "outside the model: Python floats in constant folding (float literals, negative exponents: model stops with Unmodelled), "
        "{command} operands, `::` tokens, exponents of a variable base above 256, the JMC tokenizer (an `obj:selector[...]` operand / target "
        "is ONE variable token whose selector text is cleaned by ExprSpec.clean_sel = clean_up_paren_token on brackets without "
        "single quotes / escapes / comments; tied by the exact emitted holder text on every bracketed case)",
        "C02_partial / C02_optimize_correct assume 32-bit scores in the initial state (int32_state), which Minecraft guarantees",
        "Model/ExprCtx.v: hand-written port of the placement of a statement that follows `run` (FuncContent.__handle_startswith_var: "
        "private function `anonymous/N`, `return run` on its last line) and of the chained assignment (variable_operation), as repaired by "
        "fixes/C02-10 / C02-11; tied by the exact text of the enclosing function and of every private function on the placed statements; "
        "`xrun` (Minecraft's `return` with return values, void functions) is a specification layer over MC.Sem, trusted like MC.Sem",
        "mcvm.py / c02_ctx.RVM (untrusted Python VMs) are used only to search for failing inputs and to classify known findings",
    ]
    import time
    phases, t0 = {}, time.time()

    def lap(name):
        nonlocal t0
        phases[name] = round(time.time() - t0, 1)
        t0 = time.time()
    ck.proof(extra_targets=["Run/C02.vo"])
    lap("proof")

    known = {}
    for f in known_for(PROP):
        t = f.get("match", {}).get("tag")
        if t:
            known[t] = f
    known_tags = sorted(known)

    cases, n_exh = gen_cases(ck.rng, tier)
    compile_cases(cases)
    lap("compile")
    n_states = 12
    fails = {}
    for i, c in enumerate(cases):
        f = oracle(c, ck.rng, n_states)
        c["fail"] = f is not None
        if f:
            fails[i] = f

    lap("oracle")
    res = coq_summaries(cases, known_tags)
    lap("coq")
    for e in res["errors"]:
        ck.violation(dict(kind="correspondence-file-failed", log=e), no_input=True)
    if res["render"]:
        ck.violation(dict(kind="harness-renderer-differs-from-ExprSpec.render",
                          cases=[cases[i]["stmt"] for i in res["render"][:5]]), no_input=True)

    # 1. model and implementation differ
    mism = res["mismatch"]
    show = model_outputs(cases, (mism[:6] + res["unexplained"][:6]))
    reported = 0
    mism_fail = [i for i in mism if i in fails]
    mism_silent = [i for i in mism if i not in fails]
    for i in mism_fail[:4]:
        ck.violation(replay_obj(cases[i], fails[i], show.get(i)))
        reported += 1
    if mism_silent and not mism_fail:
        i = mism_silent[0]
        o = replay_obj(cases[i], None, show.get(i))
        o.update(theorem="C02_partial / C02_refuted_* speak about Model/Expr*.v, which no longer matches the code",
                 n_differing=len(mism), others=[cases[j]["stmt"] for j in mism_silent[1:6]])
        ck.violation(o, no_input=True)
    # 2. failing input, implementation = model, but no listed known finding explains it
    seen = set()
    for i in res["unexplained"]:
        key = fails[i]["kind"]
        if key in seen:
            continue
        seen.add(key)
        ck.violation(replay_obj(cases[i], fails[i], show.get(i)))
    # 3. known findings
    by_tag = {}
    for i, k in res["explained"]:
        by_tag.setdefault(known_tags[k], []).append(i)
    for t in known_tags:
        if t in by_tag:
            f = known[t]
            for _ in by_tag[t]:
                ck.known(f["id"], f["what"])

    bad_eval, bad_sel, err = eval_check(cases, ck.rng, 300)
    if bad_eval is None:
        ck.violation(dict(kind="eval-check-file-failed", log=err), no_input=True)
    else:
        if bad_eval:
            ck.violation(dict(kind="coq-eval-differs-from-python-oracle", cases=bad_eval[:5]), no_input=True)
        if bad_sel:
            ck.violation(dict(kind="harness-clean_sel-differs-from-ExprSpec.clean_sel", selectors=bad_sel[:5]), no_input=True)

    lap("report+evalcheck")
    ctx_cov = ctx_phase(ck, cases, tier, lap)
    distinct = len({(c["target"], c["form"], c["src"], c["cert"]) for c in cases if c["e"][0] != "v" and c["e"][0] != "c"})
    sizes = {}
    for c in cases:
        d = G.depth(c["e"])
        sizes[d] = sizes.get(d, 0) + 1
    kinds = {}
    for f in fails.values():
        kinds[f["kind"]] = kinds.get(f["kind"], 0) + 1
    ck.cov.update(dict(
        evaluations=len(cases), distinct_nontrivial=distinct,
        rule="a case is one statement `target :<form>= expr;` compiled alone; streams: exhaustive depth<=1 over 9 leaves x 6 operators x 6 forms "
             f"({n_exh}), bracketed selectors `obj:@e[tag=x, limit=1]`: every (target spelling, operand spelling) pair of one holder "
             "(blanks, tabs, line breaks, quoted value with a blank) x 13 shapes + other argument order / other objective as different holders, "
             "also mixed into the random streams; unary/parenthesised variants, sampled depth-2, flat chains, random trees to depth 5, variable-only trees to depth 6, boundary literals; "
             "distinct = distinct (target, form, expression, names) with at least one operator; then statements of all streams placed behind "
             "`execute if/unless score ... run`, `return run`, chained `=`, braces-less `if` (context_* entries)",
        samples=[dict(statement=c["stmt"], emitted=c["real"]) for c in (cases[100:102] + cases[-3:])],
        programs=len(cases), disagreements_checked=len(mism),
        depth_histogram=sizes, tag_histogram=dict(zip(ALL_TAGS, res["tagcount"])),
        outside_model=len(res["unmodelled"]), oracle_states_per_program=n_states,
        failing_programs=len(fails), failing_by_kind=kinds,
        failing_explained_by_known_finding={t: len(v) for t, v in by_tag.items()},
        failing_unexplained=len(res["unexplained"]),
        bracketed_selector_cases=sum(1 for c in cases if c["bracketed"]),
        bracketed_target_cases=sum(1 for c in cases if G.is_bracketed(c["target"])),
        target_respelled_in_expression_cases=sum(1 for c in cases if c["respelled"]),
        spelling_pairs=len({c["pair"] for c in cases if "pair" in c}),
        spelling_pair_cases=sum(1 for c in cases if "pair" in c),
        selector_spellings=len(selectors_of(cases)),
        bracketed_failing=sum(1 for i in fails if cases[i]["bracketed"]),
        phase_seconds=phases,
        **ctx_cov,
        correspondence="model text == real function body (or both <diag> / same <crash Class>), __int__ constants equal as sets",
    ))
    return ck.finish()


def replay_context(o) -> int:
    cert = o["jmc_txt"]
    r, = compile_batch([dict(src=o["source"], cert=cert_text(cert))])
    print("program  :", o["source"])
    print("expected :", o["expected"])
    if not r["ok"]:
        print(f"actual   : compiler raised {r['exc']} ({'JMC diagnostic' if r['jmc'] else 'internal error'}): {r['msg'][:200]}")
        return 1
    fns = functions_of(r["files"])
    for k in sorted(fns):
        if k in ("f", "main") or "/anonymous/" in k or "/if_else/" in k:
            print(f"-- {k}\n{fns[k]}")
    f = o.get("failure")
    if not f or "init" not in f or "variable" not in f:
        print("model    :\n" + str(o.get("model_output")))
        same = fns.get("f", "") == o.get("emitted_f")
        print("emitted f is", "unchanged" if same else "different from the recorded one")
        return 1
    load = fns.get(cert["LOAD"], "")
    vm = X.RVM({k: vm_text(v) for k, v in fns.items()}, max_steps=40000)
    for m in re.finditer(r"^scoreboard players set (-?\d+) %s (-?\d+)$" % re.escape(cert["INT"]), load, re.M):
        vm.s[(m.group(1), cert["INT"])] = int(m.group(2))
    for name, val in f["init"].items():
        vm.s[vm_key(score_of(name, cert))] = val
    try:
        vm.call("TEST:main")
        got = vm.s.get(vm_key(score_of(f["variable"], cert)))
    except Invalid as e:
        got = f"invalid command: {e}"
    print("initial  :", f["init"])
    print(f"expected {f['variable']}:", f.get("expected"), " actual:", got)
    return 0 if got == f.get("expected") else 1


def replay(path: str) -> int:
    o = json.loads(open(path).read())
    if o.get("mode") == "context":
        return replay_context(o)
    cert = o["jmc_txt"]
    r, = compile_batch([dict(src=o["source"], cert=cert_text(cert))])
    print("statement:", o["statement"])
    print("expected :", o["expected"])
    if not r["ok"]:
        print(f"actual   : compiler raised {r['exc']} ({'JMC diagnostic' if r['jmc'] else 'internal error'}): {r['msg'][:200]}")
        return 1
    fns = functions_of(r["files"])
    body = fns.get("f", "")
    print("emitted  :\n" + body)
    f = o.get("failure")
    if not f or "init" not in f:
        print("model    :\n" + str(o.get("model_output")))
        return 1 if body != o.get("model_output") else 0
    load = fns.get(cert["LOAD"], "")
    vm = VM({}, max_steps=20000)
    for m in re.finditer(r"^scoreboard players set (-?\d+) %s (-?\d+)$" % re.escape(cert["INT"]), load, re.M):
        vm.s[(m.group(1), cert["INT"])] = int(m.group(2))
    for name, val in f["init"].items():
        vm.s[vm_key(score_of(name, cert))] = val
    tgt = o.get("target") or o["statement"].split(" :")[0]
    try:
        vm.run_lines(vm_text(body))
        got = vm.s.get(vm_key(score_of(tgt, cert)))
    except Invalid as e:
        got = f"invalid command: {e}"
    print("initial  :", f["init"])
    print("expected target:", f.get("expected"), " actual target:", got)
    return 0 if got == f.get("expected") else 1


if __name__ == "__main__":
    sys.exit(main(sys.argv[1] if len(sys.argv) > 1 else "quick"))
