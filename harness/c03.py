"""C03 — boolean conditions (&&, ||, !, parentheses) guard exactly when true.

Proof step (Props/C03.v) + correspondence (Model/Cond.v `parse_condition` vs the real compiler, exact
text of precommands + guarded line, in if / else-if / while / do-while / for / `if … expand` (every command
of the batch) / async while / async for / `$if` positions; Model/CondExpand.v `expand_code` vs the text of
whole expand batches) + search (the real emitted text is run in mcvm from every relevant truth assignment,
incl. unset scores and stale `__logic__` flags, and compared with the source-level meaning of the formula;
expand batches whose commands evaluate conditions of their own run as whole packs against the source meaning)."""
from __future__ import annotations

import itertools
import json
import sys

from lib import (Check, COMMON_TRUSTED, INT_MAX, INT_MIN, REPO, VERIF, compile_batch, coq_str, coq_z,
                 eval_cases, eval_strings, functions_of, known_for)
from c03_gen import (CERTS, POSITIONS, cert_text, gen_cases, mk_case, formula_text, tokens_text, tokens_of, wrap_source,
                     program_for, coq_formula, coq_tokens, names_term, atoms_of, connectives, depth,
                     shape_key, edge_atoms, strict_ne_score_atoms)
from c03_sem import extract_segments, semantic_failure, states_for, eval_formula, macro_line_failure
from c03_gen import MACRO_POSITIONS, macro_cases
from c03_gen import expand_items, expand_text_term
import c04_gen as G

PROP = "C03"

# Proposed entries for known_findings.json (used only while the integrator has not merged them).
PROPOSED_KNOWN = [
    {
        "id": "C03-range-edge",
        "property": "C03",
        "what": "`$a > 2147483647` / `$a < -2147483648` (and comparison literals outside Java int) emit a `matches` bound "
                "that is not a Java int (e.g. `matches 2147483648..`), so the function does not load - condition.py:172-179",
        "match": {"kind": "invalid-command", "needs": "edge_atom"},
    },
]


def known_entries():
    have = {f["id"]: f for f in known_for(PROP)}
    return list(have.values())


def known_class(case, fail, corresponds: bool):
    """Which known finding (if any) explains this failing input."""
    for f in known_entries():
        m = f.get("match", {})
        if fail["kind"] != m.get("kind"):
            continue
        if m.get("needs") == "edge_atom" and corresponds and edge_atoms(case["formula"]):
            # (a) the real text is exactly what the faithful model predicts, (b) the formula contains an atom
            # whose written bound leaves the Java int range
            return f
        if m.get("needs") == "strict_ne_score" and strict_ne_score_atoms(case["formula"]) and " !== " in case.get("real", ""):
            return f
    return None


COQ_HEADER = ("From Coq Require Import ZArith String List.\n"
              "From JMCV Require Import MC.Syntax Model.Names Model.Cond Run.C03.\n"
              "Import ListNotations.\nOpen Scope string_scope.\n")


def case_term(c, real, tail):
    cert = CERTS[c["cert"]]
    if c.get("canonical"):
        ftxt = f"(Some ({'true' if c['wrapped'] else 'false'}, {coq_formula(c['formula'], cert)}))"
    else:
        ftxt = "None"
    return (f"mkCase {names_term(cert)} {ftxt} {coq_tokens(c['tokens'], cert)} {coq_str(tail)} {coq_str(real)}")


def compile_cases(cases):
    jobs = [dict(src=c["src"], cert=cert_text(CERTS[c["cert"]])) for c in cases]
    return compile_batch(jobs, chunk=150)


def real_of(case, res):
    """-> (segments, tail, real_text): the real precommands+guarded line at each evaluation site."""
    if not res["ok"]:
        case["refusal"] = dict(exc=res["exc"], jmc=res["jmc"], msg=res["msg"][:300])
        return [], "", "<refused>"
    case.pop("macro_fail", None)
    try:
        fns = functions_of(res["files"])
        if case["position"] in MACRO_POSITIONS:
            mf = macro_line_failure(fns["f"].rstrip("\n"))
            if mf:
                case["macro_fail"] = mf
        segs, tail = extract_segments(case["position"], fns, CERTS[case["cert"]])
    except Exception as e:  # the expected shape of the surrounding statement is not there
        return [], "", f"<unexpected shape of the {case['position']} statement: {e}>"
    real = segs[0]
    for s in segs[1:]:
        if s != real:
            real = "<evaluation sites differ>\n" + "\n----\n".join(segs)
            break
    return segs, tail, real


def macro_if_supported() -> bool:
    """`$if` is covered on trees that carry fixes/C03-macro-if-lines.patch (recognised by the helper it introduces).  Before it, `$if`
    with a condition that needs helper lines put the `$` on the first helper line (a macro line without variable: the function does not
    load) and left the lines that mention `$(x)` plain; `$if (...) expand` never emitted a macro line."""
    try:
        return "def _macro_lines(" in (REPO / "src/jmc/compile/lexer.py").read_text()
    except OSError:
        return False


def case_failure(c, states, stale_modes=(False, True)):
    """first failure of a compiled case: the macro-line rule of a `$if`, then every evaluation site run in mcvm"""
    if c.get("macro_fail"):
        return c["macro_fail"]
    cert = CERTS[c["cert"]]
    for seg in c["segments"]:
        f = semantic_failure(c["formula"], cert, seg, states, stale_modes=stale_modes)
        if f:
            return f
    return None


def smaller(f):
    """formulas one step smaller than f"""
    if f["op"] == "atom":
        a = f["atom"]
        if a["kind"] != "truthy" and a["lhs"].startswith("$"):
            yield {"op": "atom", "atom": {"kind": "truthy", "lhs": a["lhs"]}}
        return
    if f["op"] == "not":
        yield f["arg"]
        for g in smaller(f["arg"]):
            yield {"op": "not", "arg": g}
        return
    args = f["args"]
    for x in args:
        yield x
    if len(args) > 2:
        for i in range(len(args)):
            yield {"op": f["op"], "args": args[:i] + args[i + 1:]}
    for i, x in enumerate(args):
        for g in smaller(x):
            yield {"op": f["op"], "args": args[:i] + [g] + args[i + 1:]}


def minimise(case, fail, rng, rounds=8, width=40):
    """greedy shrink of a failing canonical case: keep position and names, keep the failure kind"""
    if not case.get("canonical"):
        return case, fail
    best, best_fail = case, fail
    for _ in range(rounds):
        cands = [mk_case(g, best["position"], best["cert"]) for g in itertools.islice(smaller(best["formula"]), width)]
        if not cands:
            break
        for c in cands:
            c["src"] = program_for(c)
        found = None
        for c, res in zip(cands, compile_cases(cands)):
            segs, tail, real = real_of(c, res)
            c["segments"], c["tail"], c["real"] = segs, tail, real
            if not segs:
                continue
            states = states_for(c["formula"], CERTS[c["cert"]], rng, 300)
            f = case_failure(c, states)
            if f and f["kind"] == fail["kind"]:
                if found is None or len(c["text"]) < len(found[0]["text"]):
                    found = (c, f)
        if found is None:
            break
        best, best_fail = found
    return best, best_fail


def check_expand_batches(ck, tier):
    """`if (...) expand { c1; c2; ... }`: (a) text of f and of every expand/k function == Model.CondExpand (Run.C03.xcase_ok)
    for the batches made of one-line commands and nested lone ifs; (b) every pack: the emitted functions run in mcvm from
    every 0/1 assignment (+ stale flags) against the source meaning (each command guarded by its own fresh evaluation)."""
    items = expand_items(ck.rng, tier)
    jobs = [dict(src=G.jmc_src(it), cert=cert_text(CERTS[it["cert"]])) for it in items]
    results = compile_batch(jobs, chunk=100)
    terms, idx = [], []
    for i, (it, r) in enumerate(zip(items, results)):
        t = expand_text_term(it, CERTS[it["cert"]], G.real_functions(r) if r["ok"] else None)
        if t:
            terms.append(t)
            idx.append(i)
    bad, errs = eval_cases(PROP, COQ_HEADER, terms, per_file=150, list_name="xcases", checker="xmismatches", prefix="xcases")
    for e in errs:
        ck.violation(dict(kind="correspondence-file-failed", log=e[-3000:]), no_input=True)
    mism = {idx[j] for j in bad}
    term_of = dict(zip(idx, terms))

    n_runs = 0
    sem_fail = {}
    values = (0, 1) if tier == "quick" else (0, 1, None)
    for i, (it, r) in enumerate(zip(items, results)):
        if not r["ok"]:
            sem_fail[i] = dict(kind="refused", exc=r["exc"], msg=r["msg"][:300])
            continue
        cert = CERTS[it["cert"]]
        states = G.states_for(it["prog"], cert, values=values, cap=it["cap"] if i not in mism else 256, rng=ck.rng,
                              domains=it["values"], more=it["more"])
        stale = {(f"__logic__{k}", cert["VAR"]): 1 for k in range(3)}
        stale[("__if_else__", cert["VAR"])] = 1
        states = states + [{**st, **stale} for st in states[::2]]
        f, nr, _sk, _mi = G.semantic_failure(it["prog"], G.real_functions(r), cert, states, funcs=it["more"])
        n_runs += nr
        if f:
            sem_fail[i] = f
    seen = set()
    for i, f in sem_fail.items():
        it = items[i]
        sig = (f["kind"], it["stream"], it["outer"] if len(seen) < 2 else "")
        if sig in seen or len(seen) >= 4:
            continue
        seen.add(sig)
        cert = CERTS[it["cert"]]
        small, sf, smore = (it["prog"], f, it["more"]) if f["kind"] == "refused" else \
            G.minimise(it["prog"], cert, f, more=it["more"], order=it["order"])
        ck.violation(dict(kind="semantic-failure", expand_batch=True, what="a command of an `if (...) expand {...}` batch does not run exactly "
                          "when the condition holds at the moment the command is reached", source=G.jmc_src(dict(it, prog=small, more=smore)),
                          jmc_txt=cert, program=small, more=smore or None, failure=sf, original_source=G.jmc_src(it), stream=it["stream"],
                          n_failing_cases=len(sem_fail), text_differs_from_model=(i in mism) if i in term_of else None,
                          note="the functions emitted by the real compiler, run in mcvm from `init`, against the source meaning: every command "
                               "of the batch is guarded by its own evaluation of the condition"))
    silent = sorted(i for i in mism if i not in sem_fail)
    if silent:
        show = silent[:3]
        try:
            model_out = eval_strings(PROP, COQ_HEADER, [f"Run.C03.xmodel_text ({term_of[i]})" for i in show], name="xshow.v")
        except Exception as e:  # noqa
            model_out = [str(e)] * len(show)
        ck.violation(dict(kind="correspondence-differs",
                          theorem="C03_expand_guard_iff_partial no longer speaks about the code (Model/CondExpand.v expand_code differs from the "
                                  "is_expand branch of Lexer.parse_if_else)",
                          cases=[dict(source=G.jmc_src(items[i]), real=G.real_functions(results[i]) if results[i]["ok"] else results[i], model=m)
                                 for i, m in zip(show, model_out)],
                          n_differing=len(silent)), no_input=True)
    streams = {}
    for it in items:
        k = it["stream"] + ":" + (it["kinds"][0] if it["kinds"] else it["outer"])
        streams[k] = streams.get(k, 0) + 1
    return dict(programs=len(items), text_cases=len(terms), text_mismatches=len(mism), semantic_runs=n_runs,
                semantic_failures=len(sem_fail), streams=streams,
                distinct=len({G.jmc_src(it) + str(it["cert"]) for it in items}))


def main(tier: str) -> int:
    ck = Check(PROP, tier)
    ck.cov["trusted_base"] = COMMON_TRUSTED + [
        "Model/Cond.v is a hand-written port of condition.py (custom_condition score branch, condition_to_ast over an abstract token list, "
        "negate_ast, ast_to_commands, ast_to_strings with the repaired numbering, parse_condition); tied to the source by exact text equality "
        "of precommands + guarded line on the generated conditions below, in if / else-if / while / do-while / for / expand / async while / "
        "async for positions (and `$if` forms on trees carrying fixes/C03-macro-if-lines.patch: text modulo the leading `$`, plus the rule "
        "that a line is a macro line iff it mentions `$(...)`)",
        "Model/CondExpand.v is a hand-written port of the is_expand branch of Lexer.parse_if_else (every command of the batch gets the helper "
        "block and its own guarded line; `execute` merged at the junction; several-line commands stored as expand/k); tied to the source by exact "
        "text equality of f and of every expand/k on batches of one-line commands and nested lone ifs (Run.C03.xcase_ok); batches with chains, loops, "
        "nested expand and calls are compared semantically only (c04_gen.py interpreter: each command guarded by a fresh evaluation)",
        "c03_gen.py prints a token list to JMC source text and resolves `$v` / `obj:sel` to (holder, objective); an atom's own tokens are abstracted to one TAtom",
        "outside the model: bool functions, nbt / `execute if` conditions, number macros in `matches`, what Minecraft substitutes for `$(x)` in a `$if`; "
        "how if/else chains and loops use the (precommands, conditions) pair is C04/C05",
        "mcvm.py (untrusted Python VM) is used only to search for failing inputs and to confirm known findings",
    ]
    ck.proof(extra_targets=["Run/C03.vo"])

    cases = gen_cases(ck.rng, tier)
    # (integrator) the repair is part of /repo (fix: 88a4f03): `$if` is ALWAYS covered, so that a tree that loses the repair
    # is reported again; the probe only goes into the evidence
    cases += macro_cases(ck.rng, tier == "quick")
    ck.cov["macro_if"] = "covered (positions mif, mif1, mif_expand)"
    ck.cov["macro_if_helper_present_in_source"] = macro_if_supported()
    for c in cases:
        c["src"] = program_for(c)
    results = compile_cases(cases)

    terms = []
    for c, res in zip(cases, results):
        segs, tail, real = real_of(c, res)
        c["segments"], c["tail"], c["real"] = segs, tail, real
        terms.append(case_term(c, real, tail))
    bad, errs = eval_cases(PROP, COQ_HEADER, terms, per_file=250)
    for e in errs:
        ck.violation(dict(kind="correspondence-file-failed", log=e[-3000:]), no_input=True)
    mism = set(bad)

    # ---- search on the real text: every case, every evaluation site
    max_states = 40 if tier == "quick" else 160
    n_runs = 0
    sem_fail = {}
    for i, c in enumerate(cases):
        if not c["segments"]:
            continue
        cert = CERTS[c["cert"]]
        states = states_for(c["formula"], cert, ck.rng, max_states if i not in mism else 600)
        n_runs += len(states) * 2 * len(c["segments"])
        f = case_failure(c, states)
        if f:
            sem_fail[i] = f

    reported = set()
    for i, f in sem_fail.items():
        c = cases[i]
        kf = known_class(c, f, i not in mism)
        if kf:
            ck.known(kf["id"], kf["what"])
            continue
        key = (shape_key(c["formula"]), c["position"] if i in mism else "", f["kind"])
        if key in reported or len(reported) >= 8:
            continue
        reported.add(key)
        corresponds = i not in mism
        c, f = minimise(c, f, ck.rng)
        ck.violation(dict(kind="semantic-failure", condition=c["text"], position=c["position"], program=c["src"],
                          jmc_txt=CERTS[c["cert"]], formula=c["formula"], emitted=c["real"], failure=f,
                          corresponds_to_model_before_minimisation=corresponds,
                          note="the real emitted precommands + guarded line were run in mcvm from the given initial scores; "
                               "expected = truth of the formula at entry"))
    # accepted by JMC although the model refuses / refused although the model accepts, or differing text, with no semantic failure found
    silent = [i for i in sorted(mism) if i not in sem_fail]
    if silent:
        show = silent[:5]
        try:
            model_out = eval_strings(PROP, COQ_HEADER, [f"Run.C03.model_text ({case_term(cases[i], '', cases[i]['tail'])})" for i in show])
        except Exception as e:  # noqa
            model_out = [str(e)] * len(show)
        ck.violation(dict(kind="correspondence-differs",
                          theorem="C03_guard_iff_partial no longer speaks about the code (Model/Cond.v parse_condition differs from the compiler)",
                          cases=[dict(condition=cases[i]["text"], position=cases[i]["position"], program=cases[i]["src"],
                                      real=cases[i]["real"], model=m, refusal=cases[i].get("refusal"))
                                 for i, m in zip(show, model_out)],
                          n_differing=len(silent)), no_input=True)

    # ---- `if (...) expand { batch }` (round 3)
    xst = check_expand_batches(ck, tier)
    ck.cov["expand_batches"] = xst

    # ---- evidence
    hist_pos, hist_conn, hist_depth, hist_atoms = {}, {}, {}, {}
    n_refused = n_crash = 0
    for c in cases:
        hist_pos[c["position"]] = hist_pos.get(c["position"], 0) + 1
        k = connectives(c["formula"])
        hist_conn[str(k)] = hist_conn.get(str(k), 0) + 1
        d = depth(c["formula"])
        hist_depth[str(d)] = hist_depth.get(str(d), 0) + 1
        for a in atoms_of(c["formula"]):
            kk = a["kind"] + ("/" + a["rhs"][0] if a["kind"] == "cmp" else "")
            hist_atoms[kk] = hist_atoms.get(kk, 0) + 1
        if c["real"] == "<refused>":
            n_refused += 1
            if not c["refusal"]["jmc"]:
                n_crash += 1
    flagged = sum(1 for c in cases if "__logic__" in c["real"])
    ck.cov.update(dict(
        evaluations=len(cases),
        distinct_nontrivial=len({(c["text"], c["position"], c["cert"]) for c in cases if "__logic__" in c["real"]}),
        rule="a case is one condition (token list) in one syntactic position under one jmc.txt; model text (precommands + guarded line) must equal the real text at "
             "every evaluation site (both sites of while/for, every command of an expand batch, the test function of an async loop); distinct_nontrivial counts "
             "distinct (condition, position, names) whose lowering allocates at least one __logic__ flag.  expand_batches: packs whose f holds `if (c) expand {...}` "
             "with >= 2 commands, a non-last one evaluating another flagged condition / calling a function that does / changing what c reads: text of f and expand/k "
             "== Model.CondExpand where the batch is one-line commands and nested lone ifs, all run in mcvm against the source meaning",
        streams=dict(exhaustive="every formula shape with <= 3 connectives (&&/|| arity 2..3, !) with atoms of rotating kinds over distinct scores",
                     random="random formulas up to depth 5, arity up to 4",
                     adversarial="nested ||, !(&&) under ||, double negation, boundary literals, operator spellings, redundant brackets, refused shapes"),
        samples=[dict(condition=c["text"], position=c["position"], emitted=c["real"]) for c in cases[:2] + cases[300:302] + cases[-2:]],
        programs=len(cases), disagreements_checked=len(mism), semantic_runs=n_runs, semantic_failures=len(sem_fail),
        refused_by_compiler=n_refused, refused_with_non_jmc_exception=n_crash, cases_with_flags=flagged,
        histogram_position=hist_pos, histogram_connectives=hist_conn, histogram_depth=hist_depth, histogram_atom_kinds=hist_atoms,
        correspondence="Run.C03.model_text == real precommands + guarded line (all evaluation sites of while/for equal); canonical cases also check tokens_of f == token list",
    ))
    return ck.finish()


def replay(path: str) -> int:
    r = json.loads(open(path).read())
    if r.get("expand_batch"):
        return G.replay_file(path, PROP)
    if r.get("kind") != "semantic-failure":
        print(json.dumps(r, indent=1)[:6000])
        print("this replay file names a broken proof obligation / correspondence, not a failing input; re-run ./check C03")
        return 1
    cert = r["jmc_txt"]
    res = compile_batch([dict(src=r["program"], cert=cert_text(cert))])[0]
    print("repo:", REPO)
    print("program:", r["program"])
    if not res["ok"]:
        print("expected: compiles; actual:", res["exc"], res["msg"][:500])
        return 1
    fns = functions_of(res["files"])
    if r["position"] in MACRO_POSITIONS:
        mf = macro_line_failure(fns["f"].rstrip("\n"))
        print("emitted:\n" + fns["f"])
        print("expected: a line starts with `$` exactly when it mentions a macro variable `$(...)`")
        print("actual:", "as expected" if mf is None else json.dumps(mf))
        if mf:
            return 1
    segs, _tail = extract_segments(r["position"], fns, cert)
    init = r["failure"]["init"]
    states = [({tuple(k.split(" ", 1)): v for k, v in init["scores"].items()})]
    bad = 0
    for seg in segs:
        f = semantic_failure(r["formula"], cert, seg, states, stale_modes=[init["stale_flags"]])
        print("emitted:\n" + seg)
        print("initial scores:", init)
        print("expected: body runs" if eval_formula(r["formula"], states[0], cert) else "expected: body does not run",
              "; no user-visible score changes; every line a valid command")
        print("actual:", "as expected" if f is None else json.dumps(f))
        bad += f is not None
    return 1 if bad else 0
