"""C19 — compile-time expansion (Hardcode.repeat / repeatList / repeatLists, Hardcode.calc, @lazy) equals manual expansion.

Proof step (Props/C19.v) + tie:
  * metamorphic check on the real compiler: the expanding program vs the program in which the outermost
    expansion is written out by hand (texts produced by an independent implementation of the specification
    in this file: simultaneous longest-match substitution, exact integer arithmetic): virtual file maps must be
    identical (private-function numbering included);
  * correspondence: for every Hardcode.* / @lazy call of every generated program, the texts the real code hands
    to the parser (captured by harness/c19_run.py) must be the texts Model/Hardcode.v, Model/Lazy.v compute
    (mode HRepaired), including which diagnostic / Python exception stops the expansion.
Strengthening round 1: compilations are grouped — a group is compiled in ONE process in a fixed order (scripted
sequences with changing headers: gen_sequences; all other cases share processes too, with rotating headers) and a
state-dependent failure is localised to the preceding compilations it needs (case.before, used by replay);
number macros of every kind inside Hardcode.calc; @lazy calls: call form x argument kind x use site
(gen_lazy_cross), call contexts (gen_lazy_contexts); the argument -> text step is part of the model.
Strengthening round 3: bodies from a grammar of what precedes / follows a parameter occurrence, for every expansion kind incl.
Hardcode.switch (gen_context); expansions with nothing to substitute but Hardcode.calc to evaluate (gen_fastpaths).
"""
from __future__ import annotations

import ast
import itertools
import json
import os
import re
from concurrent.futures import ThreadPoolExecutor

from lib import (Check, COMMON_TRUSTED, NCPU, VERIF, coq_list, coq_str, coq_z, eval_cases, eval_strings, known_for,
                 run_py)

PROP = "C19"
RUNNER = VERIF / "harness" / "c19_run.py"
HEADER = ("From Coq Require Import ZArith String List Bool Ascii.\n"
          "From JMCV Require Import Base.Dec Model.StrOps Model.Hardcode Model.Lazy Run.Common Run.C19.\n"
          "Import ListNotations.\nOpen Scope string_scope.\n")
F53 = 2 ** 53


# ------------------------------------------------------------------ specification (plain Python, independent of the model)

class NotInteger(Exception):
    """the expression is not integer arithmetic (non-exact `/`, negative exponent, unary plus ...): outside the property"""


class Undefined(Exception):
    """integer arithmetic without a value (division by zero) or not an expression at all"""


def spec_eval(expr: str) -> int:
    """Exact integer arithmetic.  `/` is Python's true division: its result (and everything computed from
    it) is a float, which is integer arithmetic only while the quotient is exact and every value stays
    within 2^53; beyond that the expression is not integer arithmetic (NotInteger)."""
    try:
        tree = ast.parse(expr.replace("\\", "//"), mode="eval").body
    except SyntaxError:
        raise Undefined("syntax")

    def fl(v):
        if abs(v) > F53:
            raise NotInteger("float beyond 2^53")
        return v

    def ev(n):      # -> (value, is_float)
        if isinstance(n, ast.Constant) and isinstance(n.value, int):
            return n.value, False
        if isinstance(n, ast.UnaryOp) and isinstance(n.op, ast.USub):
            v, f = ev(n.operand)
            return -v, f
        if isinstance(n, ast.BinOp):
            (a, fa), (b, fb) = ev(n.left), ev(n.right)
            t = type(n.op)
            f = fa or fb or t is ast.Div
            if f:
                fl(a), fl(b)
            if t is ast.Add:
                r = a + b
            elif t is ast.Sub:
                r = a - b
            elif t is ast.Mult:
                r = a * b
            elif t in (ast.FloorDiv, ast.Mod, ast.Div):
                if b == 0:
                    raise Undefined("zero division")
                if t is ast.FloorDiv:
                    r = a // b
                elif t is ast.Mod:
                    r = a % b
                else:
                    if a % b:
                        raise NotInteger("/")
                    r = a // b
            elif t is ast.Pow:
                if f:
                    raise NotInteger("float power")
                if b < 0:
                    raise NotInteger("negative exponent")
                if b > 4000:
                    raise NotInteger("too large")
                r = a ** b
            else:
                raise NotInteger(t.__name__)
            return (fl(r) if f else r), f
        raise NotInteger(type(n).__name__)
    return ev(tree)[0]


def spec_subst(text: str, binds: list[tuple[str, str]]) -> str:
    """Every `$name` of a bound name is replaced by its argument, the longest name at a position wins,
    arguments are not scanned again.  First binding of a name wins."""
    table = {}
    for k, v in binds:
        table.setdefault(k, v)
    names = sorted((k for k in table if k != ""), key=len, reverse=True)
    out, i = [], 0
    while i < len(text):
        if text[i] == "$":
            for k in names:
                if text.startswith(k, i + 1):
                    out.append(table[k])
                    i += 1 + len(k)
                    break
            else:
                if "" in table:
                    out.append(table[""])
                else:
                    out.append("$")
                i += 1
        else:
            out.append(text[i])
            i += 1
    return "".join(out)


def spec_calc(text: str, macros: list[tuple[str, str]]) -> str:
    """Replace every Hardcode.calc(<expr>) by the decimal value of <expr>."""
    guard = 0
    while True:
        pos = text.find("Hardcode.calc")
        if pos < 0:
            return text
        guard += 1
        if guard > 200:
            raise Undefined("loop")
        j = pos + 13
        if j >= len(text) or text[j] != "(":
            raise Undefined("no parenthesis")
        depth, k = 0, j
        while k < len(text):
            if text[k] == "(":
                depth += 1
            elif text[k] == ")":
                depth -= 1
                if depth == 0:
                    break
            k += 1
        if depth != 0 or k >= len(text):
            raise Undefined("unbalanced")
        expr = text[j:k + 1]
        for key, num in sorted(macros, key=lambda kv: len(kv[0]), reverse=True):
            expr = expr.replace(key, num)
        if not re.fullmatch(r"[0-9+\-*/\\% \t\n()]*", expr):
            raise Undefined("character")
        text = text[:pos] + str(spec_eval(expr)) + text[k + 1:]


def spec_expand(body: str, binds, macros) -> str:
    return spec_calc(spec_subst(body, binds), macros)


def py_range(a, b, s):
    return list(range(a, b, s))


# ------------------------------------------------------------------ program generators

def stmt_pool(p: str):
    """statements of a repeat body over the index parameter p (complete statements)"""
    v = "$" + p
    return [
        f'say "t {v}";',
        f'say "sq Hardcode.calc({v}*{v}) next Hardcode.calc({v}+1)";',
        f'$acc += {v};',
        f'if ($x == {v}) {{ say "a {v}"; say "b"; }}',
        f'if ($x > {v}) {{ say "p"; }} else if ($y == {v}) {{ say "q {v}"; say "r"; }} else {{ say "s {v}"; }}',
        f'while ($w < Hardcode.calc({v}*{v})) {{ $w += 1; say "w {v}"; }}',
        f'for ($k = 0; $k < 2; $k++) {{ say "k {v}"; }}',
        f'execute as @a at @s run say "e {v}";',
        f'execute as @a expand {{ execute at @s run say "x {v}"; say "y"; }}',
        f'switch ($s) {{ case 1: say "one {v}"; case 2: say "two"; say "three {v}"; }}',
        f'schedule 1t {{ say "later {v}"; say "z"; }}',
        f'execute as @a[tag=t{v}] run {{ say "m {v}"; say "n"; }}',
        f'do {{ $d += {v}; }} while ($d < 3);',
        f'$m0 = Hardcode.calc(0 - {v});',
    ]


def wrap(stmt_text: str, where: int) -> str:
    """a whole program around the statement(s) under test"""
    if where == 0:
        return f'function f() {{ say "pre"; {stmt_text} say "post"; }}\n'
    if where == 1:
        return f'say "pre";\n{stmt_text}\nsay "post";\nfunction g() {{ if ($q == 1) {{ say "g1"; say "g2"; }} }}\n'
    return f'class c {{ function m() {{ if ($q == 2) {{ say "h1"; say "h2"; }} {stmt_text} say "post"; }} }}\n'


class Case:
    """one metamorphic pair: expanding program, manual program (or why there is none)"""

    def __init__(self, kind, expanding, manual, header=None, note="", tag="", envs=None, macros=None, before=None, norm=None):
        self.kind, self.expanding, self.manual, self.header, self.note, self.tag = kind, expanding, manual, header, note, tag
        self.norm = norm            # "switch": Hardcode.switch names its private folder `hardcode_switch`, a written-out switch `switch_case`
        self.alts = []              # smaller cases (one statement each) tried when this packed case fails, to report a minimal pair
        self.envs = envs            # --env names of the compilation (None = none)
        self.macros = macros        # the header's number macros as the harness knows them ([(name, digits)]); None = take the recorded ones
        self.before = before or []  # compilations (dicts src/header/envs) done IN THE SAME PROCESS right before this case

    def to_json(self):
        return dict(kind=self.kind, expanding=self.expanding, manual=self.manual, header=self.header, note=self.note, tag=self.tag,
                    envs=self.envs, macros=self.macros, before=self.before, norm=self.norm)


def inner(body: str) -> str:
    assert body.startswith("{") and body.endswith("}")
    return body[1:-1]


def manual_of(texts_fn):
    try:
        return texts_fn(), ""
    except NotInteger as e:
        return None, f"not integer arithmetic: {e}"
    except Undefined as e:
        return None, f"undefined: {e}"


def gen_repeat(rng, tier):
    cases = []
    triples = [(a, b, s) for a in range(-4, 5) for b in range(-4, 5) for s in range(-4, 5) if s != 0]
    pool_n = len(stmt_pool("i"))
    for idx, (a, b, s) in enumerate(triples):
        reps = 1 if tier == "quick" else 3
        for rep in range(reps):
            p = rng.choice(["i", "index", "n", "_"])
            pool = stmt_pool(p)
            k = rng.randint(1, 3)
            chosen = [pool[(idx + rep * 5 + j * 3) % pool_n] if j == 0 else rng.choice(pool) for j in range(k)]
            body = "{ " + " ".join(chosen) + " }"
            step_txt = f", step={s}" if not (s == 1 and rng.random() < .5) else ""
            call = f"Hardcode.repeat(({p})=>{body}, start={a}, stop={b}{step_txt});"
            where = (idx + rep) % 3
            man, note = manual_of(lambda: "".join(inner(spec_expand(body, [(p, str(i))], [])) for i in py_range(a, b, s)))
            cases.append(Case("repeat", wrap(call, where), None if man is None else wrap(man, where), note=note,
                              tag=f"repeat({a},{b},{s})"))
    # beyond the exhaustive cube: long ranges, large steps, bounds far from zero, positional / keyword / defaulted arguments
    for k in range(40 if tier == "quick" else 400):
        a = rng.choice([rng.randint(-40, 40), rng.randint(-1000, 1000), 0])
        s_ = rng.choice([1, -1, 2, -2, 3, -3, 7, -7, 13, -13, 100, -100, rng.randint(1, 20), -rng.randint(1, 20)])
        n = rng.choice([0, 1, 2, 3, rng.randint(0, 12), rng.randint(0, 40)])
        b = a + s_ * n + (rng.choice([0, 0, 1, -1, s_ // 2]) if n else rng.choice([0, -s_, -3 * s_]))
        p = rng.choice(["i", "index", "n", "_"])
        pool = stmt_pool(p)
        chosen = [rng.choice(pool) for _ in range(rng.randint(1, 2))]
        body = "{ " + " ".join(chosen) + " }"
        style = k % 4
        if style == 0:
            args = f"start={a}, stop={b}, step={s_}"
        elif style == 1:
            args = f"stop={b}, step={s_}, start={a}"
        elif style == 2:
            args = f"{a}, {b}, {s_}"
        else:
            args = f"{a}, stop={b}, step={s_}"
        call = f"Hardcode.repeat(({p})=>{body}, {args});"
        if len(py_range(a, b, s_)) > 60:
            continue
        man, note = manual_of(lambda: "".join(inner(spec_expand(body, [(p, str(i))], [])) for i in py_range(a, b, s_)))
        cases.append(Case("repeat", wrap(call, k % 3), None if man is None else wrap(man, k % 3), note=note, tag=f"repeat-wide({a},{b},{s_})"))
    return cases


EXPR_ADVERSARIAL = [
    "()", "(1)(2)", "2(3)", "+1", "-+1", "1 2", "007", "00", "0", "1/0", "1\\0", "1%0", "2**-1", "1**-1", "(-1)**-3", "(-1)**-4",
    "0**-1", "6/3", "7/2", "-7\\2", "7\\-2", "-7%3", "7%-3", "2**3**2", "-2**2", "(-2)**2", "2--3", "2-(-3)", "1***2", "6/\\2",
    "6\\\\2", "9007199254740993/1", "9007199254740992/1", "2**62", "2**64*2", "(2**70)/(2**10)", "6/3*2", "6/3+1", "(6/3)%2",
    "(6/3)\\2", "6/3/2", "6/(3/3)", "10 - 2 - 3", "2 * 3 % 4", "2*(3+4)%5", " 1\n+\t2 ", "((((1))))", "(1", "1)", "1+", "*2", "1//2",
    "4/2**2", "(4/2)**2", "2**(4/2)", "-(6/3)", "0/5", "-0", "(1)(*2)", "(1)(**2)", "(1)()", "1 (2)", "12 34", "1+-2", "1 - - 2",
    "100000 * 100000 * 100000", "N", "N*2", "NN", "M+N", "1.5", "1e3", "a", "$j", "1,2", "2^3", "1<2",
]


class Hdr:
    """a header file given by its directives; number macros known by construction (the specification of `#define K <number>`,
    `#enum C [start] A B ..` = C.A, C.B numbered from start (default 0), `#env E` = 1 if E is passed with --env else 0)"""

    def __init__(self, *directives, envs=()):
        self.directives, self.envs = directives, list(envs)
        lines, self.macros = [], []
        for d in directives:
            if d[0] == "define":
                lines.append(f"#define {d[1]} {d[2]}")
                self.macros.append((d[1], str(d[2])))
            elif d[0] == "defkw":        # a macro that is not a number: no number macro
                lines.append(f"#define {d[1]} {d[2]}")
            elif d[0] == "enum":
                _, cls, start, members = d
                lines.append(f"#enum {cls} " + ("" if start is None else f"{start} ") + " ".join(members))
                for k, m in enumerate(members):
                    self.macros.append((f"{cls}.{m}", str((start or 0) + k)))
            else:
                lines.append(f"#env {d[1]}")
                self.macros.append((d[1], "1" if d[1] in self.envs else "0"))
        self.text = "".join(ln + "\n" for ln in lines)
        self.names = [k for k, _ in self.macros]


HDRS = [
    Hdr(("define", "N", 5), ("define", "NN", 7), ("define", "M", 12)),
    Hdr(("define", "ROWS", 3), ("define", "COLS", 9)),
    Hdr(("define", "ROWS", 2), ("define", "COLS", 4)),
    Hdr(("define", "COLS", 4), ("define", "ROW", 1), ("define", "ROWS", 6)),
    Hdr(("define", "N", 2), ("define", "M", 0), ("define", "NNN", 100)),
    Hdr(("enum", "Color", None, ["RED", "GREEN", "BLUE"])),
    Hdr(("enum", "Color", 5, ["RED", "GREEN", "BLUE"])),
    Hdr(("enum", "Color", 1, ["BLUE", "RED", "REDDISH"]), ("define", "N", 3)),
    Hdr(("env", "DEBUG"), ("define", "K", 3)),
    Hdr(("env", "DEBUG"), ("define", "K", 3), envs=["DEBUG"]),
    Hdr(("define", "N", 9), ("env", "FAST"), ("enum", "Tier", 10, ["LOW", "HIGH"]), envs=["FAST", "OTHER"]),
]


def gen_expr(rng, depth=0, leaves=()) -> str:
    r = rng.random()
    if leaves and (depth > 3 or r < .3) and rng.random() < .45:
        return rng.choice(leaves)
    if depth > 3 or r < .3:
        n = rng.choice([0, 1, 2, 3, 7, 10, 12, rng.randint(0, 99), rng.randint(0, 10 ** 6)])
        return str(n)
    if r < .4:
        return "-" + gen_expr(rng, depth + 1, leaves)
    if r < .55:
        return "(" + gen_expr(rng, depth + 1, leaves) + ")"
    op = rng.choice(["+", "-", "*", "\\", "%", "**", "+", "-", "*", "/", "$i"])
    if op == "$i":
        return "$i"
    sp = rng.choice(["", " ", ""])
    a, b = gen_expr(rng, depth + 1, leaves), gen_expr(rng, depth + 1, leaves)
    if op == "**":
        b = str(rng.choice([0, 1, 2, 3, 5]))
    return f"{a}{sp}{op}{sp}{b}"


def gen_calc(rng, tier):
    cases = []
    exprs = list(EXPR_ADVERSARIAL) + [gen_expr(rng) for _ in range(250 if tier == "quick" else 3000)]
    header = "#define N 5\n#define NN 7\n#define M 12\n"
    macros = [("N", "5"), ("NN", "7"), ("M", "12")]
    for k, e in enumerate(exprs):
        body = '{ say "v=Hardcode.calc(' + e + ') w=$i"; }'
        i = (k % 7) - 3
        call = f"Hardcode.repeat((i)=>{body}, start={i}, stop={i + 1});"
        use_hdr = any(c.isalpha() for c in e.replace("$i", ""))
        man, note = manual_of(lambda: inner(spec_expand(body, [("i", str(i))], macros if use_hdr else [])))
        cases.append(Case("calc", wrap(call, 0), None if man is None else wrap(man, 0), header=header if use_hdr else None,
                          note=note, tag=f"calc[{e}]", macros=macros if use_hdr else []))
    # number macros of every kind (#define / #enum / #env) as operands, at string and non-string sites, in repeat bodies and @lazy bodies;
    # consecutive cases (same process) use different headers
    sites = ['say "v=Hardcode.calc(%s) w=$i";', '$m0 = Hardcode.calc(%s);', 'if ($x == Hardcode.calc(%s)) { say "a $i"; say "b"; }',
             'say "Hardcode.calc(%s) and Hardcode.calc($i+%s)";']
    for k in range(150 if tier == "quick" else 1500):
        h = HDRS[k % len(HDRS)] if k < 4 * len(HDRS) else rng.choice(HDRS)
        other = rng.choice(HDRS)
        leaves = list(h.names) + ["$i"] + ([rng.choice(other.names)] if rng.random() < .15 else [])   # sometimes a name of ANOTHER header
        e = gen_expr(rng, leaves=leaves)
        site = sites[k % len(sites)]
        stmt = site % ((e,) * site.count("%s"))
        i = (k % 5) - 2
        if k % 3 == 2:
            defn = "@lazy function lz(i) { " + stmt + " }\n"
            call = f"lz({i});"
            man, note = manual_of(lambda: spec_expand(" " + stmt + " ", [("i", str(i))], h.macros))
            exp, manp = defn + wrap(call, k % 2), None if man is None else defn + wrap(man, k % 2)
        else:
            body = "{ " + stmt + " }"
            call = f"Hardcode.repeat((i)=>{body}, start={i}, stop={i + 2});"
            man, note = manual_of(lambda: "".join(inner(spec_expand(body, [("i", str(j))], h.macros)) for j in (i, i + 1)))
            exp, manp = wrap(call, k % 3), None if man is None else wrap(man, k % 3)
        cases.append(Case("calc", exp, manp, header=h.text, envs=h.envs, macros=h.macros, note=note, tag=f"calc-macro[{e}]"))
    # Hardcode.calc not followed by "(" / unbalanced
    for body in ['{ say "Hardcode.calc"; }', '{ say "Hardcode.calc 1"; }', '{ say "Hardcode.calc(1+(2)"; }',
                 '{ say "Hardcode.calc(1)Hardcode.calc(2)Hardcode.calc(Hardcode.calc(3)+1)"; }',
                 '{ say "xHardcode.calc(  4 )y"; $z = Hardcode.calc(2*$i); }']:
        call = f"Hardcode.repeat((i)=>{body}, start=1, stop=3);"
        man, note = manual_of(lambda: "".join(inner(spec_expand(body, [("i", str(i))], [])) for i in (1, 2)))
        cases.append(Case("calc", wrap(call, 0), None if man is None else wrap(man, 0), note=note, tag="calc-shape"))
    return cases


NAME_SETS = [["i", "item"], ["i", "s"], ["a", "ab"], ["ab", "a"], ["x", "xx", "xxx"], ["n", "name", "na"], ["_", "v"],
             ["idx", "val", "i"], ["p", "q"], ["b", "a"], ["d", "d"], ["_", "_", "v"], ["k", "v", "k"]]
LIST_STRINGS = ["a", "b b", "$i", "7", "12", "x$s", "", "@s", "$item", "Hardcode", "q-1", "$a", "$ab", "3",
                "it's", "a  b", "x,y", "[z]", "{k:1}", "100%", "a=b", "-5", "Hardcode.calc(1+1)", "//c", "#h", "(p)", "$", "$$i"]


def gen_lists(rng, tier):
    cases = []
    n = 60 if tier == "quick" else 500
    for k in range(n):
        names = rng.choice([ns for ns in NAME_SETS if len(ns) == 2])
        p0, p1 = names
        strings = [rng.choice(LIST_STRINGS) for _ in range(rng.randint(0, 4))]
        stm = [f'say "{"$" + p0}:{"$" + p1}";', f'say "{"$" + p1}{"$" + p0} end";',
               f'if ($x == {"$" + p0}) {{ say "L {"$" + p1}"; say "M"; }}',
               f'say "c Hardcode.calc({"$" + p0}+{"$" + p1})";', f'say "d Hardcode.calc({"$" + p0}*2) Hardcode.calc({"$" + p0}+1)";',
               f'execute as @a expand {{ execute at @s run say "x {"$" + p1}"; say "y"; }}']
        chosen = [rng.choice(stm) for _ in range(rng.randint(1, 3))]
        body = "{ " + " ".join(chosen) + " }"
        lst = "[" + ", ".join('"' + s + '"' for s in strings) + "]"
        call = f"Hardcode.repeatList(({p0}, {p1})=>{body}, {lst});"
        where = k % 3
        man, note = manual_of(lambda: "".join(inner(spec_expand(body, [(p0, str(j)), (p1, s)], [])) for j, s in enumerate(strings)))
        cases.append(Case("list", wrap(call, where), None if man is None else wrap(man, where), note=note, tag=f"list{names}"))
    for k in range(n):
        names = rng.choice(NAME_SETS)
        if rng.random() < .3:
            names = names + ["z"]
        rows = rng.randint(1, 3)
        lists = [[rng.choice(LIST_STRINGS) for _ in range(rows)] for _ in names[1:]]
        refs = ["$" + x for x in names]
        stm = [f'say "{":".join(refs)}";', f'say "{"".join(reversed(refs))}!";',
               f'say "c Hardcode.calc({refs[0]}+1) Hardcode.calc({refs[0]}*3) Hardcode.calc(2)";',
               f'if ($x == {refs[0]}) {{ say "L {refs[-1]}"; say "M"; }}',
               f'say "e Hardcode.calc({refs[0]}+{refs[-1]})";']
        chosen = [rng.choice(stm) for _ in range(rng.randint(1, 3))]
        body = "{ " + " ".join(chosen) + " }"
        lst = "[" + ", ".join("[" + ", ".join('"' + s + '"' for s in l) + "]" for l in lists) + "]"
        call = f"Hardcode.repeatLists(({', '.join(names)})=>{body}, {lst});"
        where = k % 3
        man, note = manual_of(lambda: "".join(
            inner(spec_expand(body, [(names[0], str(r))] + [(nm, l[r]) for nm, l in zip(names[1:], lists)], [])) for r in range(rows)))
        cases.append(Case("lists", wrap(call, where), None if man is None else wrap(man, where), note=note, tag=f"lists{names}"))
    return cases


LAZY_ARGS = ["5", "$b", "$a", "$ab", "@s", "$x", "12", "foo", "$item", "$i", "-3", "@a[tag=t]", "$q", "Hardcode", "0"]


def gen_lazy(rng, tier):
    cases = []
    n = 120 if tier == "quick" else 1000
    for k in range(n):
        names = rng.choice([ns for ns in NAME_SETS if len(set(ns)) == len(ns)])
        refs = ["$" + x for x in names]
        stm = [f'say "{" ".join(refs)}";', f'say "{"".join(reversed(refs))}|";',
               f'scoreboard players set {refs[0]} obj 1;', f'if ($x == 1) {{ say "L {refs[-1]}"; say "M {refs[0]}"; }}',
               f'say "c Hardcode.calc(1+2) {refs[0]}";', f'execute as @a expand {{ execute at @s run say "x {refs[0]}"; say "y"; }}',
               f'say "{refs[0]}{refs[0]}";']
        chosen = [rng.choice(stm) for _ in range(rng.randint(1, 3))]
        content = " " + " ".join(chosen) + " "
        args = [rng.choice(LAZY_ARGS) for _ in names]
        style = rng.randrange(7)
        if style == 6:         # a parameter given both by position and by keyword: the keyword wins silently (only the model is compared)
            call_args = ", ".join(args + [f"{names[0]}=9"])
            binds = None
        elif style == 0 or len(names) == 1:
            call_args = ", ".join(args)
            binds = list(zip(names, args))
        elif style == 1:       # all keywords, shuffled
            order = list(range(len(names)))
            rng.shuffle(order)
            call_args = ", ".join(f"{names[j]}={args[j]}" for j in order)
            binds = list(zip(names, args))
        elif style == 2:       # leading positionals, trailing keywords
            cut = rng.randint(1, len(names) - 1)
            call_args = ", ".join(args[:cut] + [f"{names[j]}={args[j]}" for j in range(cut, len(names))])
            binds = list(zip(names, args))
        elif style == 3:       # wrong count
            call_args = ", ".join(args[:-1]) if rng.random() < .5 else ", ".join(args + ["9"])
            binds = None
        elif style == 4:       # unknown keyword
            call_args = ", ".join(args + ["zz=1"])
            binds = None
        else:                  # keyword for the first parameter, positionals for the others: args[index] is missing
            call_args = ", ".join(args[1:] + [f"{names[0]}={args[0]}"])
            binds = None
        defn = f"@lazy function lz({', '.join(names)}) {{{content}}}\n"
        where = k % 2
        call = f"lz({call_args});"
        if binds is None:
            man, note = None, "call does not bind"
        else:
            man, note = manual_of(lambda: spec_expand(content, binds, []))
        cases.append(Case("lazy", defn + wrap(call, where), None if man is None else defn + wrap(man, where), note=note,
                          tag=f"lazy{names}{style}"))
    return cases


def gen_nested(rng, tier):
    cases = []
    # repeat inside repeat, lazy call inside repeat, repeat inside a lazy body (only the outermost is expanded by hand)
    for a, b in [(0, 2), (1, 3), (-1, 1)]:
        body = '{ say "o $i"; Hardcode.repeat((j)=>{ say "in $i $j Hardcode.calc($i*10+$j)"; if ($x == $j) { say "u"; say "v $i"; } }, start=0, stop=2); }'
        call = f"Hardcode.repeat((i)=>{body}, start={a}, stop={b});"
        man, note = manual_of(lambda: "".join(inner(spec_subst(body, [("i", str(i))])) for i in py_range(a, b, 1)))
        # the inner Hardcode.calc's mention $j: they can only be evaluated by the inner expansion
        cases.append(Case("nested", wrap(call, 0), None, note="outer Hardcode.calc loop meets $j of the inner repeat", tag="nested-calc-inner-param"))
        body2 = '{ say "o $i"; Hardcode.repeat((j)=>{ say "in $i $j"; if ($x == $j) { say "u"; say "v $i"; } }, start=0, stop=2); }'
        call2 = f"Hardcode.repeat((i)=>{body2}, start={a}, stop={b});"
        man2, note2 = manual_of(lambda: "".join(inner(spec_expand(body2, [("i", str(i))], [])) for i in py_range(a, b, 1)))
        cases.append(Case("nested", wrap(call2, 0), None if man2 is None else wrap(man2, 0), note=note2, tag="nested-repeat"))
        defn = '@lazy function lz(a, b) { say "$a-$b"; if ($x == $a) { say "P"; say "Q $b"; } }\n'
        body3 = '{ lz($i, Hardcode.calc($i+1)); say "after $i"; }'
        call3 = f"Hardcode.repeat((i)=>{body3}, start={a}, stop={b});"
        man3, note3 = manual_of(lambda: "".join(inner(spec_expand(body3, [("i", str(i))], [])) for i in py_range(a, b, 1)))
        cases.append(Case("nested", defn + wrap(call3, 0), None if man3 is None else defn + wrap(man3, 0), note=note3, tag="lazy-in-repeat"))
        defn4 = ('@lazy function lz(n, who) { Hardcode.repeat((i)=>{ say "$who $i of $n"; }, start=0, stop=$n); }\n')
        call4 = f"lz({b + 2}, @s);"
        man4, note4 = manual_of(lambda: spec_expand(' Hardcode.repeat((i)=>{ say "$who $i of $n"; }, start=0, stop=$n); ', [("n", str(b + 2)), ("who", "@s")], []))
        cases.append(Case("nested", defn4 + wrap(call4, 0), None if man4 is None else defn4 + wrap(man4, 0), note=note4, tag="repeat-in-lazy"))
    return cases


def gen_sequences(rng, tier):
    """Compilations done one after the other in ONE process: the expansion of each must be the manual expansion under ITS OWN
    header (nothing about number macros may survive from an earlier compilation).  Returns groups (lists of cases)."""
    D, E, V = (lambda k, v: ("define", k, v)), (lambda c, st, ms: ("enum", c, st, ms)), (lambda k: ("env", k))
    grid = ('Hardcode.repeat((r)=>{ say "row $r: cells from Hardcode.calc($r*COLS) of Hardcode.calc(ROWS*COLS)"; '
            'if ($x == Hardcode.calc(ROWS - $r)) { say "last"; say "row"; } }, start=0, stop=3);')
    lazy_grid = '@lazy function cell(r, c) { say "cell Hardcode.calc($r*COLS+$c)"; $idx = Hardcode.calc(($r*COLS+$c) % ROWS); }\n'
    color = 'Hardcode.repeat((i)=>{ say "c Hardcode.calc(Color.RED+$i) Hardcode.calc(Color.GREEN*10) Hardcode.calc(Color.BLUE - Color.RED)"; }, start=0, stop=2);'
    dbg = 'Hardcode.repeat((i)=>{ say "d Hardcode.calc(DEBUG*100+$i)"; $lvl = Hardcode.calc(K+DEBUG); }, start=1, stop=3);'
    scripts = [
        # same source, the header's numbers change
        [(grid, Hdr(D("ROWS", 3), D("COLS", 9))), (grid, Hdr(D("ROWS", 2), D("COLS", 4))), (grid, Hdr(D("COLS", 4), D("ROWS", 5))),
         (grid, Hdr(D("ROWS", 3), D("COLS", 9)))],
        [(lazy_grid + "function f() { cell(1, 2); cell(2, 0); }", Hdr(D("ROWS", 3), D("COLS", 9))),
         (lazy_grid + "function f() { cell(1, 2); cell(2, 0); }", Hdr(D("ROWS", 7), D("COLS", 4))),
         (lazy_grid + "function f() { cell(1, 2); }", Hdr(D("COLS", 1), D("ROWS", 1)))],
        # the macro names change (a name defined before is no longer a number)
        [('Hardcode.repeat((i)=>{ say "a Hardcode.calc(A+$i)"; }, start=0, stop=2);', Hdr(D("A", 1))),
         ('Hardcode.repeat((i)=>{ say "b Hardcode.calc(B+$i)"; }, start=0, stop=2);', Hdr(D("B", 2))),
         ('Hardcode.repeat((i)=>{ say "ab Hardcode.calc(A*B+$i)"; }, start=0, stop=2);', Hdr(D("A", 3), D("B", 4))),
         ('Hardcode.repeat((i)=>{ say "ab Hardcode.calc(A*B+$i)"; }, start=0, stop=2);', Hdr(("defkw", "A", "foo"), D("B", 4))),   # A is no number now
         ('Hardcode.repeat((i)=>{ say "a Hardcode.calc(A+$i)"; }, start=0, stop=2);', Hdr(D("B", 2))),      # A is gone: rejected
         ('Hardcode.repeat((i)=>{ say "a Hardcode.calc(A+$i)"; }, start=0, stop=2);', None)],                  # no header at all
        # longer / shorter names come and go (longest-first order must be recomputed)
        [('Hardcode.repeat((i)=>{ say "n Hardcode.calc(N+NN*10+$i)"; }, start=0, stop=2);', Hdr(D("N", 1), D("NN", 2))),
         ('Hardcode.repeat((i)=>{ say "n Hardcode.calc(N+NNN*10+$i)"; }, start=0, stop=2);', Hdr(D("NNN", 3), D("N", 4))),
         ('Hardcode.repeat((i)=>{ say "n Hardcode.calc(N+NN*10+$i)"; }, start=0, stop=2);', Hdr(D("NN", 5), D("N", 6)))],
        # enum start / member order change
        [(color, Hdr(E("Color", None, ["RED", "GREEN", "BLUE"]))), (color, Hdr(E("Color", 5, ["RED", "GREEN", "BLUE"]))),
         (color, Hdr(E("Color", 1, ["BLUE", "GREEN", "RED"]))), (color, Hdr(E("Color", None, ["RED", "GREEN", "BLUE"])))],
        # --env changes the value of an #env macro
        [(dbg, Hdr(V("DEBUG"), D("K", 3))), (dbg, Hdr(V("DEBUG"), D("K", 3), envs=["DEBUG"])), (dbg, Hdr(V("DEBUG"), D("K", 4))),
         (dbg, Hdr(D("DEBUG", 7), D("K", 1)))],
        # the first compilation has no number macro at all
        [('Hardcode.repeat((i)=>{ say "p Hardcode.calc($i*3)"; }, start=0, stop=2);', None), (grid, Hdr(D("ROWS", 2), D("COLS", 2))),
         (color, Hdr(E("Color", 2, ["RED", "GREEN", "BLUE"]))), (grid, Hdr(D("ROWS", 1), D("COLS", 8)))],
    ]
    # random scripts: every step its own header and an expression over that header's names (and sometimes the previous header's)
    for _ in range(6 if tier == "quick" else 60):
        steps, prev = [], None
        for _ in range(rng.randint(2, 5)):
            h = rng.choice(HDRS + [None])
            leaves = (list(h.names) if h else []) + ["$i"] + ([rng.choice(prev.names)] if prev and rng.random() < .3 else [])
            e = gen_expr(rng, leaves=leaves)
            if rng.random() < .5:
                src = 'Hardcode.repeat((i)=>{ say "q Hardcode.calc(%s)"; }, start=1, stop=3);' % e
            else:
                src = '@lazy function lq(i) { $q = Hardcode.calc(%s); }\nfunction f() { lq(1); lq(2); }' % e
            steps.append((src, h))
            prev = h or prev
        scripts.append(steps)
    groups = []
    for gi, steps in enumerate(scripts):
        group, before = [], []
        for si, (src, h) in enumerate(steps):
            macros = h.macros if h else []
            prog = src if src.startswith("@lazy") else wrap(src, 0)
            man, note = manual_of(lambda: expand_outermost(prog, macros))
            c = Case("sequence", prog, man, header=h.text if h else None, envs=h.envs if h else None, macros=macros, note=note,
                     tag=f"seq{gi}.{si}", before=list(before))
            before.append(dict(src=prog, header=c.header, envs=c.envs))
            group.append(c)
        groups.append(group)
    return groups


def expand_outermost(prog: str, macros) -> str:
    """manual expansion of the programs of gen_sequences: every top-level Hardcode.repeat((v)=>{..}, start=a, stop=b); and every call of
    a @lazy function whose arguments are integers is written out"""
    lazies = {}
    for m in re.finditer(r"@lazy function (\w+)\(([^)]*)\) \{(.*)\}\n", prog):
        lazies[m.group(1)] = ([x.strip() for x in m.group(2).split(",")], m.group(3))

    def rep(m):
        var, body, a, b = m.group(1), m.group(2), int(m.group(3)), int(m.group(4))
        return "".join(inner(spec_expand(body, [(var, str(i))], macros)) for i in range(a, b))
    out = re.sub(r"Hardcode\.repeat\(\((\w+)\)=>(\{.*\}), start=(-?\d+), stop=(-?\d+)\);", rep, prog)
    for name, (params, content) in lazies.items():
        def call(m, params=params, content=content):
            args = [x.strip() for x in m.group(1).split(",")]
            return spec_expand(content, list(zip(params, args)), macros)
        head, tail = out.split("\n", 1) if out.startswith("@lazy") else ("", out)
        tail = re.sub(r"\b%s\(([^()]*)\);" % re.escape(name), call, tail)
        out = (head + "\n" if head else "") + tail
    return out


def gen_lazy_contexts(rng, tier):
    """where a lazy call stands and what it is: no parameters, inside `execute ... run`, a class member, a lazy body calling another
    lazy function with its own parameters passed on, repeated calls interleaved with control flow (private numbering)"""
    out = []

    def add(tag, defs, stmts, manual_stmts):
        for where in (0, 1, 2):
            out.append(Case("lazyctx", defs + wrap(stmts, where), None if manual_stmts is None else defs + wrap(manual_stmts, where),
                            tag=f"lazyctx-{tag}-{where}"))
    z = ' say "z"; if ($x == 1) { say "a"; say "b"; } '
    add("zero-params", "@lazy function z() {" + z + "}\n", "z(); $y += 1; z();", z + " $y += 1; " + z)
    one = ' tellraw @a {"text":$a,"bold":true}; '
    d1 = "@lazy function one(a) {" + one + "}\n"
    add("execute-run", d1, 'execute as @a run one(5); execute as @a at @s run one(a="q r");',
        'execute as @a run' + spec_subst(one, [("a", "5")]) + 'execute as @a at @s run' + spec_subst(one, [("a", '"q r"')]))
    body = ' say "$a|$b"; if ($x == $a) { say "P"; say "Q $b"; } '
    dk = "class k { @lazy function lz(a, b) {" + body + "} }\n"
    add("class-member", dk, 'k.lz(1, b=2); k.lz(b=@a[tag=t], a=-7);',
        spec_subst(body, [("a", "1"), ("b", "2")]) + spec_subst(body, [("a", "-7"), ("b", "@a[tag=t]")]))
    mid = ' say "$x-$y"; while ($w < $y) { $w += $x; } '
    outer = ' mid($b, y=$a); say "o $a"; mid(y=$b, x=$a); '
    dn = "@lazy function mid(x, y) {" + mid + "}\n@lazy function outer(a, b) {" + outer + "}\n"
    add("lazy-in-lazy", dn, "outer(2, 3); outer(b=5, a=4);", spec_subst(outer, [("a", "2"), ("b", "3")]) + spec_subst(outer, [("a", "4"), ("b", "5")]))
    rep = ' if ($c == $n) { say "r $n"; say "s"; } else { say "t $n"; } '
    dr = "@lazy function rep(n) {" + rep + "}\n"
    add("interleaved", dr, 'rep(1); if ($q == 2) { rep(2); say "mid"; } rep(3); while ($w < 2) { rep(4); $w++; }',
        spec_subst(rep, [("n", "1")]) + ' if ($q == 2) {' + spec_subst(rep, [("n", "2")]) + ' say "mid"; }' + spec_subst(rep, [("n", "3")])
        + ' while ($w < 2) {' + spec_subst(rep, [("n", "4")]) + ' $w++; }')
    dc = '@lazy function area(w, h) { $a = Hardcode.calc($w*$h); say "area Hardcode.calc($w * $h) of $w x $h"; }\n'
    add("calc-args", dc, "area(3, 4); area(h=-2, w=5); area(w = 7, h = -1);",
        spec_expand(' $a = Hardcode.calc($w*$h); say "area Hardcode.calc($w * $h) of $w x $h"; ', [("w", "3"), ("h", "4")], [])
        + spec_expand(' $a = Hardcode.calc($w*$h); say "area Hardcode.calc($w * $h) of $w x $h"; ', [("w", "5"), ("h", "-2")], [])
        + spec_expand(' $a = Hardcode.calc($w*$h); say "area Hardcode.calc($w * $h) of $w x $h"; ', [("w", "7"), ("h", "-1")], []))
    return out


# argument kinds of a @lazy call: (class, source text)
LAZY_ARG_KINDS = [
    ("str", '"true"'), ("str", "'single'"), ("str", '"with space"'), ("str", '"it\'s"'), ("str", "'say \"hi\"'"), ("str", '"a\\\\b"'),
    ("str", '"q\\"uote"'), ("str", "'mix \\' and \"'"), ("str", '""'), ("str", '"$v"'), ("str", '"5"'), ("str", '"@s"'),
    ("str", '"  two  spaces "'), ("str", '"tab\\there"'), ("str", '"{\\"text\\":\\"x\\"}"'),
    ("sel", "@a[tag=x,distance=..5]"), ("sel", "@s"), ("sel", "@e[type=zombie,limit=1,sort=nearest]"), ("sel", "@a[scores={k=1..}]"),
    ("num", "5"), ("num", "-3"), ("num", "0"), ("num", "12"), ("num", "-17"), ("float", "1.5"),
    ("kw", "foo"), ("kw", "minecraft:stone"), ("kw", "foo.bar"), ("kw", "true"),
    ("json", '{"text":"hi","color":"red"}'), ("json", '[{"text":"a"},{"text":"b","bold":true}]'), ("json", "{a:1b,b:[1,2]}"),
    ("json", "[1,2,3]"), ("json", "{}"), ("json", '{"a b":"c d"}'), ("json", "{ a : 1 , b : 'x y' }"),
    ("score", "$v"), ("score", "obj:@s"), ("score", "$other.v"),
    ("cnum", "Hardcode.calc(1+2)"), ("call", "say2(3)"), ("call", "inner.lazy(4, 5)"),
    ("pos", "~ ~1 ~"), ("pos", "^ ^ ^-2.5"), ("pos", "1 2 3"), ("pos", "~ ~ ~"), ("pos", "~-1 64 ~0.5"), ("num", "- 3"), ("sel", "@e[type=zombie, limit=1]"),
    ("arrow0", '()=>{ say "in"; say "b"; }'), ("arrow1", '(i)=>{ say "x $i"; }'), ("arrow1", '(j)=>{ say "y $j"; $s += $j; }'),
]
# use sites of a parameter in the body: (template over %s = "$name", classes for which the site is meaningful)
LAZY_SITES = [
    ("tellraw @a %s;", {"str", "num", "cnum", "kw", "json", "sel", "float"}),
    ('say "pre %s post";', {"sel", "num", "cnum", "kw", "score", "float", "call", "pos"}),
    ("tp @s %s;", {"pos", "sel"}), ('execute positioned %s run say "here";', {"pos"}), ("setblock %s stone;", {"pos"}),
    ('execute as @a at @s if block %s air run tp @s %s;', {"pos"}),
    ("data modify storage a:b c set value %s;", {"str", "num", "json", "kw", "float"}),
    ('tellraw @a {"text":%s,"bold":true};', {"str", "num", "kw", "float"}),
    ("give @s stone{a:%s};", {"str", "num", "json", "float"}),
    ('tellraw %s [{"text":"to"},%s];', {"sel"}),
    ("$r = %s;", {"num", "cnum", "score"}), ("$r += %s;", {"num", "cnum", "score"}), ("$r *= %s;", {"num", "score"}), ("%s -= 2;", {"score"}),
    ('if (%s > 3) { say "y"; say "z"; }', {"score"}), ('if ($x == %s) { say "y"; say "z"; } else { say "n"; }', {"num", "cnum", "score"}),
    ('if (entity %s) { say "e"; say "f"; }', {"sel"}), ('execute as %s at @s run say "hi";', {"sel"}),
    ('say "c Hardcode.calc(%s*2+1)";', {"num"}), ("$k = Hardcode.calc(10 - %s);", {"num"}), ('while ($w < Hardcode.calc(%s+1)) { $w++; }', {"num"}),
    ("scoreboard players set %s obj 1;", {"sel", "kw"}), ("%s;", {"call"}), ('say "n Hardcode.calc(1+2) %s";', {"num", "kw", "call"}),
    ("Hardcode.repeat(%s, start=0, stop=2);", {"arrow1"}), ("Raycast.simple(onHit=%s, interval=0.5);", {"arrow0"}),
    ('execute if data storage a:b {k:%s} run say "has";', {"str", "num", "json"}),
]
LAZY_HELPERS = ('@lazy function say2(n) { say "two $n"; }\n'
                'class inner { @lazy function lazy(a, b) { say "i $a $b"; if ($x == $a) { say "I"; say "J"; } } }\n')


def gen_lazy_cross(rng, tier):
    """call form (positional / keyword / reordered keywords / mixed) x argument kind x use site of the parameter"""
    cases = []
    pairs = [(a, st) for a in LAZY_ARG_KINDS for st in LAZY_SITES if a[0] in st[1]]
    off = [(a, st) for a in LAZY_ARG_KINDS for st in LAZY_SITES if a[0] not in st[1] and not a[0].startswith("arrow")
           and "Hardcode.repeat(" not in st[0] and "Raycast" not in st[0]]
    rng.shuffle(pairs)
    rng.shuffle(off)
    # meaningful (kind, site) pairs are combined in functions of 1-3 parameters; the others (mostly rejected both ways) go alone
    names_pool = [["p"], ["a", "ab"], ["msg", "who"], ["x", "xx", "xxx"], ["n", "name", "na"], ["sel", "s"], ["_", "v"], ["val", "idx", "i"]]
    forms = ["pos", "kw", "kwrev", "mixed"]
    plan = []
    while pairs:
        names = list(rng.choice(names_pool))
        chosen = [pairs.pop() for _ in range(min(len(names), len(pairs)))]
        plan.append((names[:len(chosen)], chosen, forms if len(chosen) > 1 else forms[:2]))
    for j, pr in enumerate(off[:len(off) // (8 if tier == "quick" else 1)]):
        plan.append((["p"], [pr], [forms[j % 2]]))
    k = 0
    for names, chosen, which in plan:
        stm, binds, no_manual = [], [], None
        for nm, ((cls, arg), (site, ok)) in zip(names, chosen):
            stm.append(site.replace("%s", "$" + nm))
            binds.append((nm, arg))
            in_string = any(site[:m.start()].count('"') % 2 == 1 for m in re.finditer("%s", site))
            if cls == "str" and in_string:
                no_manual = "a string literal substituted inside a string literal: there is no manual expansion"
            elif in_string and re.search(r"[\[({].*\s.*[\])}]", arg):
                # the argument's text is rebuilt from its tokens: blanks inside brackets are not kept (visible only inside a string)
                no_manual = "blanks inside a bracket of the argument are observable only inside a string literal: outside the property"
        content = " " + " ".join(stm) + " "
        defn = LAZY_HELPERS + f"@lazy function lz({', '.join(names)}) {{{content}}}\n"
        for form in which:
            eq = rng.choice(["=", "=", " = ", "= "])
            kws = [f"{n}{eq}{a}" for n, a in binds]
            if form == "pos":
                call_args = ", ".join(a for _, a in binds)
            elif form == "kw":
                call_args = ", ".join(kws)
            elif form == "kwrev":
                order = list(range(len(binds)))
                rng.shuffle(order)
                if len(order) > 1 and order == sorted(order):
                    order.reverse()
                call_args = ", ".join(kws[j] for j in order)
            else:
                cut = rng.randint(1, len(binds) - 1) if len(binds) > 1 else 0
                rest = kws[cut:]
                rest.reverse()
                call_args = ", ".join([a for _, a in binds[:cut]] + rest)
            call = f"lz({call_args});"
            where = k % 2
            k += 1
            if no_manual:
                man, note = None, no_manual
            else:
                man, note = manual_of(lambda: spec_expand(content, binds, []))
            cases.append(Case("lazyx", defn + wrap(call, where), None if man is None else defn + wrap(man, where), note=note,
                              tag=f"lazyx[{form}]" + "|".join(f"{c}:{a} @ {st}" for (c, a), (st, _) in chosen)))
    return cases


# ------------------------------------------------------------------ strengthening round 3: what stands around a parameter occurrence

# classes of text right BEFORE / right AFTER an occurrence `$<param>`: label -> (text, site kinds where the class can be written)
#   site kinds: "str" inside a string literal, "raw" a word of a vanilla command, "var" tail of a variable name,
#   "sel" a value inside a selector bracket, "calc" inside Hardcode.calc( ), "head"/"tail" first / last characters of a @lazy body
# special texts: "<Q>" another bound parameter, "<P>" the same parameter again, "<LONG>" the rest of a LONGER parameter name that
# shares the prefix, "<ALMOST>" a proper prefix of that rest, "<BEYOND>" that rest plus one more letter
_ID = {"str", "raw", "var", "sel"}
CTX_PREC = {
    "letter": ("x", _ID), "upper": ("Q", _ID), "digit": ("7", _ID | {"calc"}), "underscore": ("_", _ID),
    "dollar": ("$", {"str", "raw"}), "blank": (" ", {"str", "calc"}), "quote": ("", {"str"}), "squote": ("'", {"str"}),
    "square": ("[", {"str"}), "round": ("(", {"str", "calc"}), "curly": ("{", {"str"}),
    "equals": ("=", {"str"}), "plus": ("+", {"str", "raw", "calc"}), "minus": ("-", {"str", "raw", "sel", "calc"}),
    "star": ("*", {"str", "calc"}), "slash": ("/", {"str"}), "percent": ("%", {"str"}), "less": ("<", {"str"}), "bang": ("!", {"str"}),
    "dot": (".", {"str", "raw", "sel", "var"}), "colon": (":", {"str", "raw"}), "comma": (",", {"str"}), "semicolon": (";", {"str"}),
    "at": ("@", {"str"}), "hash": ("#", {"str"}), "tilde": ("~", {"str"}), "backslash-n": ("\\n", {"str"}),
    "other-param": ("<Q>", {"str", "raw", "calc"}), "same-param": ("<P>", {"str", "raw", "calc"}), "unbound": ("$zz", {"str", "raw"}),
    "non-ascii": ("é", {"str"}), "start-of-text": ("", {"head"}), "none": ("", {"raw", "var", "sel", "calc"}),
}
CTX_FOLL = {
    "letter": ("b", _ID), "upper": ("B", _ID), "digit": ("0", _ID | {"calc"}), "underscore": ("_", _ID | {"head"}),
    "dollar": ("$", {"str", "raw"}), "blank": (" ", {"str", "calc", "head"}), "quote": ("", {"str"}), "squote": ("'", {"str"}),
    "square": ("]", {"str"}), "round": (")", {"str"}), "curly": ("}", {"str"}),
    "equals": ("=", {"str"}), "plus": ("+1", {"str", "calc"}), "minus": ("-", {"str", "raw", "sel"}), "star": ("*2", {"str", "calc"}),
    "slash": ("/", {"str"}), "percent": ("%", {"str"}), "greater": (">", {"str"}), "bang": ("!", {"str"}),
    "dot": (".", {"str", "raw", "sel", "var"}), "colon": (":", {"str", "raw"}), "comma": (",", {"str"}), "semicolon": (";", {"str"}),
    "newline": ("\n+1", {"calc"}), "backslash-n": ("\\n", {"str"}),
    "other-param": ("<Q>", {"str", "raw", "calc"}), "same-param": ("<P>", {"str", "raw", "calc"}), "unbound": ("$zz", {"str", "raw"}),
    "longer-param": ("<LONG>", _ID | {"head"}), "almost-longer-param": ("<ALMOST>", _ID), "beyond-longer-param": ("<BEYOND>", _ID),
    "non-ascii": ("é", {"str"}), "end-of-text": ("", {"tail"}), "none": ("", {"raw", "var", "sel", "calc", "head"}),
}
# parameter names: prefix-related pairs / triples, case-related, with digits and underscores
CTX_NAME_SETS = [["i", "item"], ["item", "i"], ["a", "ab", "abc"], ["n", "na", "name"], ["name", "n"], ["p", "q"], ["x", "x1"],
                 ["v", "v_"], ["i", "I"], ["_", "_x"], ["k", "key"], ["color", "c"], ["idx", "id"]]
CTX_SINGLE = ["i", "n", "idx", "_", "name", "color", "x1", "I"]
CTX_EXPANSIONS = ["repeat", "switch", "list", "lists", "lazy"]


def ctx_statement(site: str, occ: str, prec_label: str, foll_label: str) -> str:
    """one complete statement whose only parameter occurrences are those of `occ`"""
    if site == "str":
        lead = "" if prec_label == "quote" else "w "
        trail = "" if foll_label == "quote" else " z"
        return f'say "{lead}{occ}{trail}";'
    if site == "raw":
        return f"tag @s add {occ};"
    if site == "var":
        return f"$v{occ} += 1;"
    if site == "sel":
        return f'execute as @a[tag={occ}] run say "hi";'
    if site == "calc":
        return f"$k = Hardcode.calc({occ});"
    raise ValueError(site)


def ctx_occurrence(names, focus, prec, foll):
    """text `<prec>$focus<foll>` with the placeholders resolved; None if the class needs a parameter this name set does not have"""
    others = [n for n in names if n != focus]
    longer = sorted((n for n in others if n.startswith(focus) and len(n) > len(focus)), key=len)

    def res(t):
        if t == "<Q>":
            return "$" + others[0] if others else None
        if t == "<P>":
            return "$" + focus
        if t == "<LONG>":
            return longer[0][len(focus):] if longer else None
        if t == "<ALMOST>":
            return longer[-1][len(focus):-1] if longer and len(longer[-1]) - len(focus) >= 2 else None
        if t == "<BEYOND>":
            return longer[0][len(focus):] + "s" if longer else None
        return t
    a, b = res(prec), res(foll)
    if a is None or b is None:
        return None
    return a + "$" + focus + b


def ctx_build(expansion, names, stmts, values, where, shape="mid", style=0):
    """(expanding program, manual program or None, note) for one expansion kind over a body made of `stmts`;
    values: repeat/switch -> (start, n); list -> strings; lists -> lists of strings; lazy -> argument texts"""
    body = "{ " + " ".join(stmts) + " }"
    norm = None
    if expansion == "repeat":
        a, n = values
        call = f"Hardcode.repeat(({names[0]})=>{body}, start={a}, stop={a + n});"
        man, note = manual_of(lambda: "".join(inner(spec_expand(body, [(names[0], str(i))], [])) for i in range(a, a + n)))
        exp, manp = wrap(call, where), None if man is None else wrap(man, where)
    elif expansion == "switch":
        a, n = values
        a = max(a, 0)
        begin = "" if a == 1 else f", begin_at={a}"
        call = f"Hardcode.switch($s, ({names[0]})=>{body}, count={a + n - 1}{begin});"
        man, note = manual_of(lambda: "switch ($s) { " + " ".join(
            f"case {i}:" + inner(spec_expand(body, [(names[0], str(i))], [])) for i in range(a, a + n)) + " }")
        exp, manp, norm = wrap(call, where), None if man is None else wrap(man, where), "switch"
    elif expansion == "list":
        lst = "[" + ", ".join('"' + x + '"' for x in values) + "]"
        call = f"Hardcode.repeatList(({names[0]}, {names[1]})=>{body}, {lst});"
        man, note = manual_of(lambda: "".join(inner(spec_expand(body, [(names[0], str(j)), (names[1], x)], [])) for j, x in enumerate(values)))
        exp, manp = wrap(call, where), None if man is None else wrap(man, where)
    elif expansion == "lists":
        lst = "[" + ", ".join("[" + ", ".join('"' + x + '"' for x in l) + "]" for l in values) + "]"
        call = f"Hardcode.repeatLists(({', '.join(names)})=>{body}, {lst});"
        rows = len(values[0])
        man, note = manual_of(lambda: "".join(
            inner(spec_expand(body, [(names[0], str(r))] + [(nm, l[r]) for nm, l in zip(names[1:], values)], [])) for r in range(rows)))
        exp, manp = wrap(call, where), None if man is None else wrap(man, where)
    else:
        joined = " ".join(stmts)
        content = {"mid": " " + joined + " ", "head": joined + " ", "tail": " " + joined}[shape]
        defn = f"@lazy function lz({', '.join(names)}) {{{content}}}\n"
        binds = list(zip(names, values))
        if style == 0 or len(names) == 1:
            call_args = ", ".join(values)
        elif style == 1:
            call_args = ", ".join(f"{n}={v}" for n, v in reversed(binds))
        else:
            call_args = ", ".join([values[0]] + [f"{n}={v}" for n, v in reversed(binds[1:])])
        man, note = manual_of(lambda: spec_expand(content, binds, []))
        w = where % 2
        exp, manp = defn + wrap(f"lz({call_args});", w), None if man is None else defn + wrap(man, w)
    return exp, manp, note, norm


def ctx_values(expansion, names, sites, rng):
    """argument values of the expansion; integer-valued when a Hardcode.calc site is present, identifier-like for var / sel sites"""
    words = ["k", "w7", "a_b", "7", "12", "Zed"] + ([] if sites & {"var", "sel", "calc"} else ["$j", "@s", "a b", "$item", "$i", "x-1", "", "$"])
    ints = ["5", "0", "12", "3"]
    if expansion in ("repeat", "switch"):
        return (rng.choice([0, 1, 2, 9, 10, 99]), 2)
    if expansion == "list":
        return [rng.choice(ints if "calc" in sites else words) for _ in range(2)]
    if expansion == "lists":
        return [[rng.choice(ints if "calc" in sites else words) for _ in range(2)] for _ in names[1:]]
    lazy_words = ["5", "foo", "w_1", "12", "Zed"] + ([] if sites & {"var", "sel", "calc"} else ["$w", "@s", "$b", "$a", "-3", "obj:@s"])
    return [rng.choice(ints + ["-3"] if "calc" in sites else lazy_words) for _ in names]


def gen_context(rng, tier):
    """Bodies from a grammar of what PRECEDES and FOLLOWS a parameter occurrence, for every expansion kind (Hardcode.repeat / switch /
    repeatList / repeatLists / @lazy).  The specification (spec_subst: simultaneous, longest name first, a name is NOT delimited by
    what follows it) says what each occurrence becomes.  Quick: every follower class and every preceding class at least 3 times per
    expansion kind, packed three statements to a body (single-statement variants are kept in case.alts to report a minimal pair);
    thorough: every (preceding, following) pair per expansion kind."""
    cases, reach = [], {}
    per_foll = 3 if tier == "quick" else len(CTX_PREC)
    prec_labels, foll_labels = list(CTX_PREC), list(CTX_FOLL)
    for ei, expansion in enumerate(CTX_EXPANSIONS):
        items = []         # (names, focus, site, prec label, foll label, occurrence)
        for fi, fl in enumerate(foll_labels):
            got, tries = 0, 0
            while got < per_foll and tries < 4 * len(prec_labels):
                pl = prec_labels[(fi * per_foll + tries + 5 * ei) % len(prec_labels)] if tier == "quick" else prec_labels[tries % len(prec_labels)]
                tries += 1
                sites = sorted((CTX_PREC[pl][1] & CTX_FOLL[fl][1]) - ({"head", "tail"} if expansion != "lazy" else set()))
                if pl == "start-of-text":
                    sites = [x for x in sites if x == "head"]
                elif fl == "end-of-text":
                    sites = ["tail"] if expansion == "lazy" and "raw" in CTX_PREC[pl][1] else []
                else:
                    sites = [x for x in sites if x not in ("head", "tail")]
                if not sites:
                    continue
                site = sites[(got + fi) % len(sites)]
                if expansion in ("repeat", "switch"):
                    names = [rng.choice(CTX_SINGLE)]
                elif expansion == "list":
                    names = list(rng.choice([ns for ns in CTX_NAME_SETS if len(ns) == 2]))
                else:
                    names = list(rng.choice(CTX_NAME_SETS))
                needs_long = CTX_FOLL[fl][0] in ("<LONG>", "<ALMOST>", "<BEYOND>")
                focus_pool = [n for n in names if (not needs_long) or any(o != n and o.startswith(n) for o in names)]
                if site == "calc" and expansion in ("list", "lists"):
                    focus_pool = [n for n in focus_pool if n == names[0]] or focus_pool   # the index parameter is the integer one
                if not focus_pool:
                    if expansion in ("repeat", "switch"):
                        continue            # one parameter: no longer parameter exists
                    names = list(rng.choice([ns for ns in CTX_NAME_SETS if any(a != b and b.startswith(a) for a in ns for b in ns)
                                             and (expansion != "list" or len(ns) == 2)]))
                    focus_pool = [n for n in names if any(o != n and o.startswith(n) for o in names)]
                focus = rng.choice(focus_pool)
                occ = ctx_occurrence(names, focus, CTX_PREC[pl][0], CTX_FOLL[fl][0])
                if occ is None:
                    continue
                got += 1
                items.append((names, focus, site, pl, fl, occ))
        # odd occurrences: the bare name, the name in the other case, a lone `$`, `$$`
        for names in ([[n] for n in CTX_SINGLE[:4]] if expansion in ("repeat", "switch") else
                      [ns for ns in CTX_NAME_SETS if expansion != "list" or len(ns) == 2][:4]):
            f0 = names[0]
            odd = f"{f0} ${f0.swapcase()} $ $$ ${f0}$ {f0}${f0} $ {f0}"
            items.append((list(names), f0, "str", "odd", "odd", odd))
        # pack: statements of one body share the parameter names, so group the items by name set
        groups = {}
        for it in items:
            groups.setdefault(tuple(it[0]), []).append(it)
        k = 0
        for names, its in groups.items():
            specials = [it for it in its if it[2] in ("head", "tail")]
            normal = [it for it in its if it[2] not in ("head", "tail")]
            size = 3 if tier == "quick" else 1
            packs = [normal[j:j + size] for j in range(0, len(normal), size)] + [[it] for it in specials]
            for pack in packs:
                sites = {it[2] for it in pack}
                shape = "head" if "head" in sites else "tail" if "tail" in sites else "mid"
                vals = ctx_values(expansion, list(names), {("raw" if x in ("head", "tail") else x) for x in sites}
                                  | ({"var"} if shape == "head" else set()), rng)
                if shape == "head":
                    vals = ["$w" if n == pack[0][1] else v for n, v in zip(names, vals)] if expansion == "lazy" else vals

                def stmt(it):
                    if it[2] == "head":
                        return it[5] + " += 1;"
                    if it[2] == "tail":
                        return 'say "t"; tag @s add ' + it[5]
                    return ctx_statement(it[2], it[5], it[3], it[4])
                stmts = [stmt(it) for it in pack]
                style = k % 3
                exp, manp, note, norm = ctx_build(expansion, list(names), stmts, vals, k % 3, shape, style)
                tag = f"ctx-{expansion}[" + " | ".join(f"{it[3]}>{it[5]}<{it[4]} @{it[2]}" for it in pack) + "]"
                c = Case("ctx", exp, manp, note=note, tag=tag, norm=norm)
                if len(pack) > 1:
                    for it, st in zip(pack, stmts):
                        e1, m1, n1, _ = ctx_build(expansion, list(names), [st], vals, k % 3, shape, style)
                        c.alts.append(Case("ctx", e1, m1, note=n1, tag=f"ctx-{expansion}[{it[3]}>{it[5]}<{it[4]} @{it[2]}]", norm=norm))
                cases.append(c)
                k += 1
                for it in pack:
                    reach.setdefault(expansion, {}).setdefault("foll:" + it[4], 0)
                    reach[expansion]["foll:" + it[4]] += 1
                    reach[expansion].setdefault("prec:" + it[3], 0)
                    reach[expansion]["prec:" + it[3]] += 1
    return cases, reach


def gen_fastpaths(rng, tier):
    """Expansions whose substitution has nothing to do (no parameter, parameter not mentioned, no `$` at all, no iteration / one
    iteration) but whose Hardcode.calc's must still be evaluated — also inside the private functions the body allocates."""
    out = []
    hdr = Hdr(("define", "N", 5), ("define", "SIZE", 16), ("env", "DEBUG"), envs=["DEBUG"])
    bodies = [
        ("string", 'tellraw @a "area=Hardcode.calc(16*16)";', False),
        ("assign", "$a = Hardcode.calc(3*4+1);", False),
        ("two", 'say "p Hardcode.calc(2**5) q Hardcode.calc(7\\2)"; $b = Hardcode.calc(0-9);', False),
        ("cond", 'if ($x == Hardcode.calc(2+2)) { say "four"; say "Hardcode.calc(4*4)"; } else { say "not Hardcode.calc(1+1)"; }', False),
        ("private-if", 'if ($x == 1) { say "in Hardcode.calc(6*7)"; say "b"; }', False),
        ("private-while", 'while ($w < Hardcode.calc(2*5)) { $w += Hardcode.calc(1+1); say "w"; }', False),
        ("private-execute", 'execute as @a at @s run { say "e Hardcode.calc(9-1)"; say "f"; }', False),
        ("private-schedule", 'schedule 1t { say "s Hardcode.calc(3*3)"; say "t"; }', False),
        ("switch", 'switch ($s) { case 1: say "one Hardcode.calc(1*1)"; case 2: say "two Hardcode.calc(1+1)"; say "x"; }', False),
        ("macro", 'say "m Hardcode.calc(N*SIZE+DEBUG)"; $m = Hardcode.calc(SIZE\\N);', True),
        ("macro-private", 'if ($x == N) { say "n Hardcode.calc(N+N)"; say "o"; }', True),
        ("no-calc", 'say "plain"; if ($x == 2) { say "u"; say "v"; }', False),
    ]
    k = 0

    def emit(tag, exp, man_fn, use_hdr, norm=None):
        nonlocal k
        man, note = manual_of(man_fn)
        out.append(Case("fastpath", exp(None), None if man is None else exp(man), header=hdr.text if use_hdr else None,
                        envs=hdr.envs if use_hdr else None, macros=hdr.macros if use_hdr else [], note=note, tag="fastpath-" + tag, norm=norm))
        k += 1
    for name, st, use_hdr in bodies:
        mac = hdr.macros if use_hdr else []
        content = " " + st + " "
        # @lazy, zero parameters: plain call, twice, under execute, class member
        d0 = "@lazy function z() {" + content + "}\n"
        for where in (0, 1, 2):
            emit(f"lazy0-{name}-{where}", lambda m, d0=d0, where=where: d0 + wrap("z();" if m is None else m, where),
                 lambda: spec_expand(content, [], mac), use_hdr)
        emit(f"lazy0-twice-{name}", lambda m, d0=d0: d0 + wrap('z(); say "mid"; z();' if m is None else m, 0),
             lambda: spec_expand(content, [], mac) + ' say "mid"; ' + spec_expand(content, [], mac), use_hdr)
        if name in ("string", "assign", "macro"):
            one = content if name != "macro" else ' say "m Hardcode.calc(N*SIZE+DEBUG)"; '
            dx = "@lazy function z() {" + one + "}\n"
            emit(f"lazy0-execute-{name}", lambda m, dx=dx: dx + wrap("execute as @a at @s run z();" if m is None else m, 0),
                 lambda: "execute as @a at @s run" + spec_expand(one, [], mac), use_hdr)
        dk = "class k { @lazy function z() {" + content + "} }\n"
        emit(f"lazy0-class-{name}", lambda m, dk=dk: dk + wrap("k.z();" if m is None else m, 0), lambda: spec_expand(content, [], mac), use_hdr)
        # @lazy with parameters the body does not mention / mentions only one of
        d1 = "@lazy function z(pa, pb) {" + content + "}\n"
        emit(f"lazy-unused-{name}", lambda m, d1=d1: d1 + wrap("z(1, pb=2);" if m is None else m, 0),
             lambda: spec_expand(content, [("pa", "1"), ("pb", "2")], mac), use_hdr)
        c2 = content + 'say "only $pb"; '
        d2 = "@lazy function z(pa, pb) {" + c2 + "}\n"
        emit(f"lazy-one-used-{name}", lambda m, d2=d2: d2 + wrap("z(1, 2);" if m is None else m, 1),
             lambda: spec_expand(c2, [("pa", "1"), ("pb", "2")], mac), use_hdr)
        # Hardcode.* whose body does not mention the parameter; one iteration; no iteration
        body = "{" + content + "}"
        for a, b in ((0, 2), (5, 6), (3, 3)):
            emit(f"repeat-unused-{name}-{a}-{b}", lambda m, a=a, b=b: wrap(f"Hardcode.repeat((i)=>{body}, start={a}, stop={b});" if m is None else m, k % 3),
                 lambda: "".join(inner(spec_expand(body, [("i", str(i))], mac)) for i in range(a, b)), use_hdr)
        emit(f"list-unused-{name}", lambda m: wrap(f'Hardcode.repeatList((i0, s0)=>{body}, ["x", "y"]);' if m is None else m, 0),
             lambda: "".join(inner(spec_expand(body, [("i0", str(j)), ("s0", x)], mac)) for j, x in enumerate(["x", "y"])), use_hdr)
        emit(f"list-empty-{name}", lambda m: wrap(f'Hardcode.repeatList((i0, s0)=>{body}, []); say "after";' if m is None else m, 0),
             lambda: ' say "after";', use_hdr)
        emit(f"lists-unused-{name}", lambda m: wrap(f'Hardcode.repeatLists((i0, s0, t0)=>{body}, [["x", "y"], ["u", "v"]]);' if m is None else m, 0),
             lambda: "".join(inner(spec_expand(body, [("i0", str(j))], mac)) for j in range(2)), use_hdr)
        if name != "switch":
            emit(f"switch-unused-{name}", lambda m: wrap(f"Hardcode.switch($q, (i)=>{body}, count=2);" if m is None else m, 0),
                 lambda: "switch ($q) { " + " ".join(f"case {i}:" + inner(spec_expand(body, [("i", str(i))], mac)) for i in (1, 2)) + " }",
                 use_hdr, norm="switch")
    return out


# ------------------------------------------------------------------ running, Coq terms

def run_groups(groups: list[list[dict]], chunk: int = 150) -> list[list[dict]]:
    """every group of jobs is compiled in the given order in ONE process (a process takes several groups, never part of one)"""
    chunks, cur = [], []
    for g in groups:
        if cur and len(cur) + len(g) > chunk:
            chunks.append(cur)
            cur = []
        cur = cur + g
    if cur:
        chunks.append(cur)
    with ThreadPoolExecutor(max_workers=NCPU) as ex:
        res = list(ex.map(lambda c: run_py(RUNNER, c, timeout=900), chunks))
    flat = [r for rs in res for r in rs]
    out, i = [], 0
    for g in groups:
        out.append(flat[i:i + len(g)])
        i += len(g)
    # what the same process compiled before each group
    prior = []
    k = 0
    for ch in chunks:
        pos = 0
        while pos < len(ch):
            g = groups[k]
            prior.append(ch[:pos])
            pos += len(g)
            k += 1
    return out, prior


PYEXC = {"SyntaxError": "XSyntax", "ZeroDivisionError": "XZeroDiv", "TypeError": "XType", "KeyError": "XKey",
         "OverflowError": "XOverflow"}


def coq_rerr(err) -> str:
    if err is None:
        return "RNone"
    if err["stage"] == "parse":
        return "RParse"
    exc, msg = err["exc"], err["msg"]
    if exc in PYEXC:
        return f"(RProcess (KPy {PYEXC[exc]}))"
    if exc == "JMCSyntaxException":
        if "Expected ( after Hardcode.calc" in msg:
            return "(RProcess KExpectedParen)"
        if "Invalid syntax in Hardcode.calc" in msg:
            return "(RProcess KInvalidSyntax)"
        m = re.search(r"Invalid character\((.)\) in Hardcode\.calc", msg, re.S)
        if m:
            return f"(RProcess (KInvalidChar {coq_str(m.group(1))}))"
    if exc == "JMCValueError":
        # C13 triage round 5 (fixes/C13-compile-time-arithmetic.patch): the Python exceptions of the expression evaluator no
        # longer escape from Hardcode.calc; each is reported by its own JMC diagnostic.  The model keeps naming the stop by the
        # exception kind, so the diagnostic is mapped back to it (on a tree without the patch these messages do not occur).
        for text, kind in (("Division by zero in Hardcode.calc", "XZeroDiv"), ("Expression cannot be parsed in Hardcode.calc", "XSyntax"),
                           ("Expression is not arithmetic in Hardcode.calc", "XType"), ("Result is too large in Hardcode.calc", "XOverflow")):
            if text in msg:
                return f"(RProcess (KPy {kind}))"
        if "positional arguments, got" in msg:
            return "(RProcess KBindCount)"
        m = re.search(r"unexpected keyword argument '([^']*)'", msg)
        if m:
            return f"(RProcess (KBindKw {coq_str(m.group(1))}))"
    return "(RProcess KOther)"


def coq_pairs(l) -> str:
    return coq_list(f"({coq_str(k)}, {coq_str(v)})" for k, v in l)


def plain(text: str) -> bool:
    return all(32 <= ord(ch) <= 126 or ch in "\n\t\r" for ch in text)


def coq_tok(t) -> str:
    if t[0] == "str":
        return f"(AStr {'true' if t[2] else 'false'} {coq_str(t[1])})"
    if t[0] == "paren":
        return f"(AParen {coq_str(t[1])})"
    if t[0] == "func":
        return f"(AFunc {coq_str(t[1])} {coq_str(t[2])})"
    if t[0] == "gap":
        return "AGap"
    return f"(AOther {coq_str(t[1])})"


def coq_toks(a) -> str:
    return coq_list(coq_tok(t) for t in a)


def coq_case(rec: dict, mode: str, macros=None) -> str | None:
    """None if the record cannot be expressed (inputs not captured).  macros: the header's number macros as the harness
    knows them (None: those recorded from the compiler's Header at the call)."""
    if rec.get("input_error") or any(ord(ch) > 126 or (ord(ch) < 32 and ch not in "\n\t") for ch in rec["body"]):
        return None
    k = rec["kind"]
    ps = rec["params"]
    if k == "repeat":
        if len(ps) != 1:
            return None
        inp = f"(HRepeat {coq_str(ps[0])} {coq_z(rec['start'])} {coq_z(rec['stop'])} {coq_z(rec['step'])})"
    elif k == "list":
        if len(ps) != 2:
            return None
        inp = f"(HList {coq_str(ps[0])} {coq_str(ps[1])} {coq_list(coq_str(s) for s in rec['strings'])})"
    elif k == "lists":
        lists = rec["lists"]
        if len(ps) != len(lists) + 1 or len({len(l) for l in lists}) > 1 or not lists:
            return None
        inp = f"(HLists {coq_list(coq_str(p) for p in ps)} {coq_list(coq_list(coq_str(s) for s in l) for l in lists)})"
    else:
        if ps is None or "pos" not in rec or "kw" not in rec:
            return None
        toks = [t for a in rec["pos"] for t in a] + [t for _, a in rec["kw"] for t in a]
        if any(not plain(x) for t in toks for x in t[1:] if isinstance(x, str)):
            return None
        inp = (f"(HLazy {coq_list(coq_str(p) for p in ps)} {coq_list(coq_toks(a) for a in rec['pos'])} "
               f"{coq_list(f'({coq_str(k)}, {coq_toks(a)})' for k, a in rec['kw'])})")
    return (f"mkCase {mode} {inp} {coq_str(rec['body'])} {coq_pairs(rec['macros'] if macros is None else macros)} "
            f"{coq_list(coq_str(t) for t in rec['texts'])} {coq_rerr(rec['err'])}")


def fkey(res: dict, norm=None):
    if res["ok"]:
        files = res["files"]
        if norm == "switch":
            files = {k.replace("/hardcode_switch/", "/switch_case/"): v.replace("/hardcode_switch/", "/switch_case/") for k, v in files.items()}
        return ("ok", tuple(sorted(files.items())))
    return ("err", res["exc"])


def summary(res):
    if res is None:
        return None
    if res["ok"]:
        return {k: v for k, v in res["files"].items() if k.endswith(".mcfunction")}
    return f"{res['exc']}: {res.get('msg', '')[:500]}"


def metamorphic_failure(case: Case, rexp: dict, rman: dict | None):
    if case.manual is None:
        return None
    if rman["ok"] and fkey(rexp, case.norm) != fkey(rman, case.norm):
        return dict(what="the expanding program does not compile to the output of its manual expansion",
                    expected=summary(rman), actual=summary(rexp))
    if not rman["ok"] and rexp["ok"]:
        return dict(what="the manual expansion is rejected but the expanding program compiles",
                    expected=summary(rman), actual=summary(rexp))
    return None


def known_class(row):
    """A failing pair is a known finding only if it matches a rule of known_findings.json:
       match = {"requires_text": <text that must occur in the expanding program>,
                "normalize": "run-execute"  (both outputs are equal once ` run execute ` is folded)}"""
    case = row["case"]
    for f in known_for(PROP):
        m = f.get("match", {})
        if m.get("requires_text") and m["requires_text"] not in case.expanding:
            continue
        if m.get("normalize") == "run-execute":
            a, b = row["exp"], row["man"]
            if not (a and b and a.get("ok") and b.get("ok")):
                continue
            na = {k: v.replace(" run execute ", " ") for k, v in a["files"].items()}
            nb = {k: v.replace(" run execute ", " ") for k, v in b["files"].items()}
            if na != nb:
                continue
            return f
    return None


def evaluate(groups: list[list[Case]], replaying: bool = False):
    """groups of cases; the compilations of a group happen in one process in the order E1, M1, E2, M2, ..."""
    jgroups, slots = [], []
    for gi, g in enumerate(groups):
        jobs = []
        for ci, c in enumerate(g):
            if replaying:
                for b in c.before:
                    jobs.append(dict(src=b["src"], header=b.get("header"), envs=b.get("envs")))
                    slots.append((gi, ci, "b"))
            jobs.append(dict(src=c.expanding, header=c.header, envs=c.envs))
            slots.append((gi, ci, "e"))
            if c.manual is not None:
                jobs.append(dict(src=c.manual, header=c.header, envs=c.envs))
                slots.append((gi, ci, "m"))
        jgroups.append(jobs)
    gres, prior = run_groups(jgroups)
    res = [r for rs in gres for r in rs]
    rows = [[dict(case=c, exp=None, man=None, prior=prior[gi]) for c in g] for gi, g in enumerate(groups)]
    for (gi, ci, w), r in zip(slots, res):
        if w != "b":
            rows[gi][ci]["exp" if w == "e" else "man"] = r
    return [r for g in rows for r in g]


def localize(row):
    """A failing case that is not a scripted sequence: does it fail when compiled alone?  If not, the failure needs what the same
    process compiled before: find a short suffix of those compilations that reproduces it and store it in case.before."""
    c = row["case"]
    if c.before or not row.get("prior"):
        return
    alone = evaluate([[c]])[0]
    if metamorphic_failure(c, alone["exp"], alone["man"]):
        return
    prior = [dict(src=j["src"], header=j.get("header"), envs=j.get("envs")) for j in row["prior"]]
    k = 1
    while True:
        c.before = prior[-k:]
        r = evaluate([[c]], replaying=True)[0]
        if metamorphic_failure(c, r["exp"], r["man"]) or k >= len(prior):
            c.note += f" | fails only after other compilations in the same process ({len(c.before)} stored in `before`)"
            return
        k *= 2


def main(tier: str) -> int:
    ck = Check(PROP, tier)
    ck.cov["trusted_base"] = COMMON_TRUSTED + [
        "Model/StrOps.v, Model/Hardcode.v, Model/Lazy.v: hand-written ports of _hardcode_process(es), hardcode_parse_calc, eval_expr "
        "(Python tokenizer/grammar/ast evaluation on the alphabet the character check lets through), range(), handle_lazy binding and "
        "substitution; tied to the code by exact equality of the texts handed to the parser for every generated call",
        "floats are modelled only while they hold an integer of magnitude <= 2^53 (otherwise the model answers Unsupported and makes no claim)",
        "the function-content parser (tokenizer, FuncContent, private-function allocation) is NOT modelled: that parsing the iterations one by one "
        "equals parsing the written-out text is exercised by the metamorphic comparison of real file maps only (C19_unroll_alloc is about an abstract statement-wise parser)",
        "harness/c19.py spec_subst / spec_calc / spec_eval: independent Python implementation of the specification used to write the manual expansions",
        "harness/c19_run.py wraps Hardcode*.call, DataPack.parse_function_token, PreFunction.handle_lazy/parse to capture inputs and texts",
        "argument -> text of a @lazy call (merge_tokens / get_full_string: repr of string literals, arrow-function head, blanks between tokens) IS modelled "
        "(Model/Lazy.v arg_text) from the argument's tokens as recorded by the runner; the text of a bracket token (clean_up_paren_token) and the "
        "tokenisation of the call itself are inputs (outside the model); py_repr is CPython's repr on the characters 9, 10, 13, 32..126 only (other inputs are not generated)",
        "number macros: the model gets the header's macros as the harness derives them from the directives it wrote (#define/#enum/#env + --env), "
        "not the compiler's Header state, so stale or wrongly parsed macros show as a correspondence difference",
    ]
    ck.proof(extra_targets=["Run/C19.vo"])
    rng = ck.rng
    cases = (gen_nested(rng, tier) + gen_calc(rng, tier) + gen_repeat(rng, tier) + gen_lists(rng, tier) + gen_lazy(rng, tier)
             + gen_lazy_cross(rng, tier) + gen_lazy_contexts(rng, tier))
    ctx_cases, ctx_reach = gen_context(rng, tier)
    cases += ctx_cases + gen_fastpaths(rng, tier)
    seq_groups = gen_sequences(rng, tier)
    rows = evaluate([[c] for c in cases] + seq_groups)
    mode = os.environ.get("C19_MODEL_MODE", "HRepaired")

    # ---- 1. the property on the real compiler
    n_fail, reported = 0, set()
    for row in rows:
        c = row["case"]
        f = metamorphic_failure(c, row["exp"], row["man"])
        row["fail"] = f
        if not f:
            continue
        n_fail += 1
        kf = known_class(row)
        if kf:
            ck.known(kf["id"], kf["what"])
            continue
        key = (c.kind, c.tag.split("[")[0] if c.kind == "ctx" else "", f["what"])      # context grammar: one report per expansion kind
        if key in reported:
            continue
        reported.add(key)
        if c.alts:          # a packed body: report the smallest failing single-statement variant instead
            for arow in evaluate([[a] for a in c.alts]):
                af = metamorphic_failure(arow["case"], arow["exp"], arow["man"])
                if af:
                    row, c, f = arow, arow["case"], af
                    break
        localize(row)
        ck.violation(dict(kind="expansion-differs-from-manual", case=c.to_json(), failure=f,
                          records=row["exp"].get("records", [])[:4]))

    # ---- 2. correspondence
    terms, owners = [], []
    n_rec = 0
    for ri, row in enumerate(rows):
        for rec in row["exp"].get("records", []):
            n_rec += 1
            t = coq_case(rec, mode, row["case"].macros)
            if t is not None:
                terms.append(t)
                owners.append((ri, rec))
    bad, errs = eval_cases(PROP, HEADER, terms, per_file=200)
    for e in errs:
        ck.violation(dict(kind="correspondence-file-failed", log=e), no_input=True)
    unsup, errs2 = eval_cases(PROP, HEADER, terms, per_file=200, checker="unsupported", prefix="unsup")
    silent = [i for i in bad if not rows[owners[i][0]]["fail"]]
    if silent:
        shown = []
        for i in silent[:3]:
            ri, rec = owners[i]
            try:
                mt = eval_strings(PROP, HEADER, [f'String.concat "<|>" (model_texts ({terms[i]}))'])[0]
            except Exception as e:  # noqa
                mt = f"<{e}>"
            shown.append(dict(program=rows[ri]["case"].to_json(), record=rec, model_texts=mt))
        ck.violation(dict(kind="correspondence-differs",
                          theorem="the C19 theorems no longer speak about the code (the model mispredicts the texts handed to the parser)",
                          cases=shown, n_differing=len(silent)), no_input=True)

    # ---- known limitation probes (float true division beyond 2^53)
    kinds, outcome = {}, {}
    for row in rows:
        c = row["case"]
        kinds[c.kind] = kinds.get(c.kind, 0) + 1
        o = ("ok" if row["exp"]["ok"] else row["exp"]["exc"]) + "/" + ("none" if c.manual is None else "ok" if row["man"]["ok"] else row["man"]["exc"])
        outcome[o] = outcome.get(o, 0) + 1
    rec_kinds = {}
    for _, rec in owners:
        k = rec["kind"] + ("" if rec["err"] is None else ":" + rec["err"]["stage"] + ":" + rec["err"]["exc"])
        rec_kinds[k] = rec_kinds.get(k, 0) + 1
    ck.cov.update(dict(
        evaluations=len(terms) + sum(1 for r in rows if r["case"].manual is not None),
        distinct_nontrivial=len({t for t in terms}), programs=len(rows),
        rule="a metamorphic case = (expanding program, manual expansion) compiled by the real compiler, file maps compared; a correspondence case = one "
             "real Hardcode.repeat/repeatList/repeatLists/@lazy call (inputs + texts handed to the parser) vs the model; distinct_nontrivial = distinct correspondence cases",
        samples=[dict(case=rows[i]["case"].to_json()) for i in (0, len(rows) // 2, len(rows) - 1)],
        disagreements_checked=len(bad), property_failures=n_fail, records=n_rec, records_modelled=len(terms),
        model_unsupported=len(unsup), case_kinds=kinds, outcome_histogram=outcome, record_histogram=rec_kinds,
        manual_missing=sum(1 for r in rows if r["case"].manual is None),
        ranges="all (start, stop, step) in [-4,4]^3, step != 0; plus random wide ranges (|start| <= 1000, |step| <= 100, up to 60 iterations)",
        sequence_groups=len(seq_groups), sequence_compilations=sum(len(g) for g in seq_groups),
        headers=len(HDRS), lazy_arg_kinds=len(LAZY_ARG_KINDS), lazy_sites=len(LAZY_SITES),
        lazy_cross="call form (positional / keyword / reordered keywords / mixed) x argument kind x use site, 1-3 parameters per function",
        context_grammar=dict(preceding_classes=len(CTX_PREC), following_classes=len(CTX_FOLL), expansions=CTX_EXPANSIONS,
                             occurrences_per_expansion=ctx_reach,
                             what="occurrences `<preceding>$param<following>` per expansion kind (statements in string / command word / variable name / "
                                  "selector / Hardcode.calc / first and last characters of a @lazy body); compared with spec_subst + the model"),
        hardcode_switch="Hardcode.switch is compared with the written-out `switch` (private folder hardcode_switch ~ switch_case) and its texts with the model of Hardcode.repeat over range(begin_at, count+1)",
    ))
    return ck.finish()


def replay(path: str) -> int:
    o = json.load(open(path))
    c = o["case"]
    case = Case(c["kind"], c["expanding"], c["manual"], c.get("header"), c.get("note", ""), c.get("tag", ""), envs=c.get("envs"),
                macros=c.get("macros"), before=c.get("before"), norm=c.get("norm"))
    row = evaluate([[case]], replaying=True)[0]
    f = metamorphic_failure(case, row["exp"], row["man"])
    for b in case.before:
        print("compiled before, in the same process: header=%r envs=%r\n%s" % (b.get("header"), b.get("envs"), b["src"]))
    print("header: %r envs: %r" % (case.header, case.envs))
    print("expanding program:\n" + case.expanding)
    print("manual expansion:\n" + str(case.manual))
    print("expected (manual):", json.dumps(summary(row["man"]), indent=1))
    print("actual (expanding):", json.dumps(summary(row["exp"]), indent=1))
    print("FAILS" if f else "holds", f["what"] if f else "")
    return 1 if f else 0
