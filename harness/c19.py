"""C19 — compile-time expansion (Hardcode.repeat / repeatList / repeatLists, Hardcode.calc, @lazy) equals manual expansion.

Proof step (Props/C19.v) + tie:
  * metamorphic check on the real compiler: the expanding program vs the program in which the outermost
    expansion is written out by hand (texts produced by an independent implementation of the specification
    in this file: simultaneous longest-match substitution, exact integer arithmetic): virtual file maps must be
    identical (private-function numbering included);
  * correspondence: for every Hardcode.* / @lazy call of every generated program, the texts the real code hands
    to the parser (captured by harness/c19_run.py) must be the texts Model/Hardcode.v, Model/Lazy.v compute
    (mode HRepaired), including which diagnostic / Python exception stops the expansion.
"""
from __future__ import annotations

import ast
import itertools
import json
import os
import re
from concurrent.futures import ThreadPoolExecutor

from lib import (Check, COMMON_TRUSTED, NCPU, VERIF, coq_list, coq_str, coq_z, eval_cases, eval_strings, known_for,
                 run_py)

PROP = "C19"
RUNNER = VERIF / "harness" / "c19_run.py"
HEADER = ("From Coq Require Import ZArith String List Bool Ascii.\n"
          "From JMCV Require Import Base.Dec Model.StrOps Model.Hardcode Model.Lazy Run.Common Run.C19.\n"
          "Import ListNotations.\nOpen Scope string_scope.\n")
F53 = 2 ** 53


# ------------------------------------------------------------------ specification (plain Python, independent of the model)

class NotInteger(Exception):
    """the expression is not integer arithmetic (non-exact `/`, negative exponent, unary plus ...): outside the property"""


class Undefined(Exception):
    """integer arithmetic without a value (division by zero) or not an expression at all"""


def spec_eval(expr: str) -> int:
    """Exact integer arithmetic.  `/` is Python's true division: its result (and everything computed from
    it) is a float, which is integer arithmetic only while the quotient is exact and every value stays
    within 2^53; beyond that the expression is not integer arithmetic (NotInteger)."""
    try:
        tree = ast.parse(expr.replace("\\", "//"), mode="eval").body
    except SyntaxError:
        raise Undefined("syntax")

    def fl(v):
        if abs(v) > F53:
            raise NotInteger("float beyond 2^53")
        return v

    def ev(n):      # -> (value, is_float)
        if isinstance(n, ast.Constant) and isinstance(n.value, int):
            return n.value, False
        if isinstance(n, ast.UnaryOp) and isinstance(n.op, ast.USub):
            v, f = ev(n.operand)
            return -v, f
        if isinstance(n, ast.BinOp):
            (a, fa), (b, fb) = ev(n.left), ev(n.right)
            t = type(n.op)
            f = fa or fb or t is ast.Div
            if f:
                fl(a), fl(b)
            if t is ast.Add:
                r = a + b
            elif t is ast.Sub:
                r = a - b
            elif t is ast.Mult:
                r = a * b
            elif t in (ast.FloorDiv, ast.Mod, ast.Div):
                if b == 0:
                    raise Undefined("zero division")
                if t is ast.FloorDiv:
                    r = a // b
                elif t is ast.Mod:
                    r = a % b
                else:
                    if a % b:
                        raise NotInteger("/")
                    r = a // b
            elif t is ast.Pow:
                if f:
                    raise NotInteger("float power")
                if b < 0:
                    raise NotInteger("negative exponent")
                if b > 4000:
                    raise NotInteger("too large")
                r = a ** b
            else:
                raise NotInteger(t.__name__)
            return (fl(r) if f else r), f
        raise NotInteger(type(n).__name__)
    return ev(tree)[0]


def spec_subst(text: str, binds: list[tuple[str, str]]) -> str:
    """Every `$name` of a bound name is replaced by its argument, the longest name at a position wins,
    arguments are not scanned again.  First binding of a name wins."""
    table = {}
    for k, v in binds:
        table.setdefault(k, v)
    names = sorted((k for k in table if k != ""), key=len, reverse=True)
    out, i = [], 0
    while i < len(text):
        if text[i] == "$":
            for k in names:
                if text.startswith(k, i + 1):
                    out.append(table[k])
                    i += 1 + len(k)
                    break
            else:
                if "" in table:
                    out.append(table[""])
                else:
                    out.append("$")
                i += 1
        else:
            out.append(text[i])
            i += 1
    return "".join(out)


def spec_calc(text: str, macros: list[tuple[str, str]]) -> str:
    """Replace every Hardcode.calc(<expr>) by the decimal value of <expr>."""
    guard = 0
    while True:
        pos = text.find("Hardcode.calc")
        if pos < 0:
            return text
        guard += 1
        if guard > 200:
            raise Undefined("loop")
        j = pos + 13
        if j >= len(text) or text[j] != "(":
            raise Undefined("no parenthesis")
        depth, k = 0, j
        while k < len(text):
            if text[k] == "(":
                depth += 1
            elif text[k] == ")":
                depth -= 1
                if depth == 0:
                    break
            k += 1
        if depth != 0 or k >= len(text):
            raise Undefined("unbalanced")
        expr = text[j:k + 1]
        for key, num in sorted(macros, key=lambda kv: len(kv[0]), reverse=True):
            expr = expr.replace(key, num)
        if not re.fullmatch(r"[0-9+\-*/\\% \t\n()]*", expr):
            raise Undefined("character")
        text = text[:pos] + str(spec_eval(expr)) + text[k + 1:]


def spec_expand(body: str, binds, macros) -> str:
    return spec_calc(spec_subst(body, binds), macros)


def py_range(a, b, s):
    return list(range(a, b, s))


# ------------------------------------------------------------------ program generators

def stmt_pool(p: str):
    """statements of a repeat body over the index parameter p (complete statements)"""
    v = "$" + p
    return [
        f'say "t {v}";',
        f'say "sq Hardcode.calc({v}*{v}) next Hardcode.calc({v}+1)";',
        f'$acc += {v};',
        f'if ($x == {v}) {{ say "a {v}"; say "b"; }}',
        f'if ($x > {v}) {{ say "p"; }} else if ($y == {v}) {{ say "q {v}"; say "r"; }} else {{ say "s {v}"; }}',
        f'while ($w < Hardcode.calc({v}*{v})) {{ $w += 1; say "w {v}"; }}',
        f'for ($k = 0; $k < 2; $k++) {{ say "k {v}"; }}',
        f'execute as @a at @s run say "e {v}";',
        f'execute as @a expand {{ execute at @s run say "x {v}"; say "y"; }}',
        f'switch ($s) {{ case 1: say "one {v}"; case 2: say "two"; say "three {v}"; }}',
        f'schedule 1t {{ say "later {v}"; say "z"; }}',
        f'execute as @a[tag=t{v}] run {{ say "m {v}"; say "n"; }}',
        f'do {{ $d += {v}; }} while ($d < 3);',
        f'$m0 = Hardcode.calc(0 - {v});',
    ]


def wrap(stmt_text: str, where: int) -> str:
    """a whole program around the statement(s) under test"""
    if where == 0:
        return f'function f() {{ say "pre"; {stmt_text} say "post"; }}\n'
    if where == 1:
        return f'say "pre";\n{stmt_text}\nsay "post";\nfunction g() {{ if ($q == 1) {{ say "g1"; say "g2"; }} }}\n'
    return f'class c {{ function m() {{ if ($q == 2) {{ say "h1"; say "h2"; }} {stmt_text} say "post"; }} }}\n'


class Case:
    """one metamorphic pair: expanding program, manual program (or why there is none)"""

    def __init__(self, kind, expanding, manual, header=None, note="", tag=""):
        self.kind, self.expanding, self.manual, self.header, self.note, self.tag = kind, expanding, manual, header, note, tag

    def to_json(self):
        return dict(kind=self.kind, expanding=self.expanding, manual=self.manual, header=self.header, note=self.note, tag=self.tag)


def inner(body: str) -> str:
    assert body.startswith("{") and body.endswith("}")
    return body[1:-1]


def manual_of(texts_fn):
    try:
        return texts_fn(), ""
    except NotInteger as e:
        return None, f"not integer arithmetic: {e}"
    except Undefined as e:
        return None, f"undefined: {e}"


def gen_repeat(rng, tier):
    cases = []
    triples = [(a, b, s) for a in range(-4, 5) for b in range(-4, 5) for s in range(-4, 5) if s != 0]
    pool_n = len(stmt_pool("i"))
    for idx, (a, b, s) in enumerate(triples):
        reps = 1 if tier == "quick" else 3
        for rep in range(reps):
            p = rng.choice(["i", "index", "n", "_"])
            pool = stmt_pool(p)
            k = rng.randint(1, 3)
            chosen = [pool[(idx + rep * 5 + j * 3) % pool_n] if j == 0 else rng.choice(pool) for j in range(k)]
            body = "{ " + " ".join(chosen) + " }"
            step_txt = f", step={s}" if not (s == 1 and rng.random() < .5) else ""
            call = f"Hardcode.repeat(({p})=>{body}, start={a}, stop={b}{step_txt});"
            where = (idx + rep) % 3
            man, note = manual_of(lambda: "".join(inner(spec_expand(body, [(p, str(i))], [])) for i in py_range(a, b, s)))
            cases.append(Case("repeat", wrap(call, where), None if man is None else wrap(man, where), note=note,
                              tag=f"repeat({a},{b},{s})"))
    return cases


EXPR_ADVERSARIAL = [
    "()", "(1)(2)", "2(3)", "+1", "-+1", "1 2", "007", "00", "0", "1/0", "1\\0", "1%0", "2**-1", "1**-1", "(-1)**-3", "(-1)**-4",
    "0**-1", "6/3", "7/2", "-7\\2", "7\\-2", "-7%3", "7%-3", "2**3**2", "-2**2", "(-2)**2", "2--3", "2-(-3)", "1***2", "6/\\2",
    "6\\\\2", "9007199254740993/1", "9007199254740992/1", "2**62", "2**64*2", "(2**70)/(2**10)", "6/3*2", "6/3+1", "(6/3)%2",
    "(6/3)\\2", "6/3/2", "6/(3/3)", "10 - 2 - 3", "2 * 3 % 4", "2*(3+4)%5", " 1\n+\t2 ", "((((1))))", "(1", "1)", "1+", "*2", "1//2",
    "4/2**2", "(4/2)**2", "2**(4/2)", "-(6/3)", "0/5", "-0", "(1)(*2)", "(1)(**2)", "(1)()", "1 (2)", "12 34", "1+-2", "1 - - 2",
    "100000 * 100000 * 100000", "N", "N*2", "NN", "M+N", "1.5", "1e3", "a", "$j", "1,2", "2^3", "1<2",
]


def gen_expr(rng, depth=0) -> str:
    r = rng.random()
    if depth > 3 or r < .3:
        n = rng.choice([0, 1, 2, 3, 7, 10, 12, rng.randint(0, 99), rng.randint(0, 10 ** 6)])
        return str(n)
    if r < .4:
        return "-" + gen_expr(rng, depth + 1)
    if r < .55:
        return "(" + gen_expr(rng, depth + 1) + ")"
    op = rng.choice(["+", "-", "*", "\\", "%", "**", "+", "-", "*", "/", "$i"])
    if op == "$i":
        return "$i"
    sp = rng.choice(["", " ", ""])
    a, b = gen_expr(rng, depth + 1), gen_expr(rng, depth + 1)
    if op == "**":
        b = str(rng.choice([0, 1, 2, 3, 5]))
    return f"{a}{sp}{op}{sp}{b}"


def gen_calc(rng, tier):
    cases = []
    exprs = list(EXPR_ADVERSARIAL) + [gen_expr(rng) for _ in range(250 if tier == "quick" else 3000)]
    header = "#define N 5\n#define NN 7\n#define M 12\n"
    macros = [("N", "5"), ("NN", "7"), ("M", "12")]
    for k, e in enumerate(exprs):
        body = '{ say "v=Hardcode.calc(' + e + ') w=$i"; }'
        i = (k % 7) - 3
        call = f"Hardcode.repeat((i)=>{body}, start={i}, stop={i + 1});"
        use_hdr = any(c.isalpha() for c in e.replace("$i", ""))
        man, note = manual_of(lambda: inner(spec_expand(body, [("i", str(i))], macros if use_hdr else [])))
        cases.append(Case("calc", wrap(call, 0), None if man is None else wrap(man, 0), header=header if use_hdr else None,
                          note=note, tag=f"calc[{e}]"))
    # Hardcode.calc not followed by "(" / unbalanced
    for body in ['{ say "Hardcode.calc"; }', '{ say "Hardcode.calc 1"; }', '{ say "Hardcode.calc(1+(2)"; }',
                 '{ say "Hardcode.calc(1)Hardcode.calc(2)Hardcode.calc(Hardcode.calc(3)+1)"; }',
                 '{ say "xHardcode.calc(  4 )y"; $z = Hardcode.calc(2*$i); }']:
        call = f"Hardcode.repeat((i)=>{body}, start=1, stop=3);"
        man, note = manual_of(lambda: "".join(inner(spec_expand(body, [("i", str(i))], [])) for i in (1, 2)))
        cases.append(Case("calc", wrap(call, 0), None if man is None else wrap(man, 0), note=note, tag="calc-shape"))
    return cases


NAME_SETS = [["i", "item"], ["i", "s"], ["a", "ab"], ["ab", "a"], ["x", "xx", "xxx"], ["n", "name", "na"], ["_", "v"],
             ["idx", "val", "i"], ["p", "q"], ["b", "a"], ["d", "d"], ["_", "_", "v"], ["k", "v", "k"]]
LIST_STRINGS = ["a", "b b", "$i", "7", "12", "x$s", "", "@s", "$item", "Hardcode", "q-1", "$a", "$ab", "3"]


def gen_lists(rng, tier):
    cases = []
    n = 60 if tier == "quick" else 500
    for k in range(n):
        names = rng.choice([ns for ns in NAME_SETS if len(ns) == 2])
        p0, p1 = names
        strings = [rng.choice(LIST_STRINGS) for _ in range(rng.randint(0, 4))]
        stm = [f'say "{"$" + p0}:{"$" + p1}";', f'say "{"$" + p1}{"$" + p0} end";',
               f'if ($x == {"$" + p0}) {{ say "L {"$" + p1}"; say "M"; }}',
               f'say "c Hardcode.calc({"$" + p0}+{"$" + p1})";', f'say "d Hardcode.calc({"$" + p0}*2) Hardcode.calc({"$" + p0}+1)";',
               f'execute as @a expand {{ execute at @s run say "x {"$" + p1}"; say "y"; }}']
        chosen = [rng.choice(stm) for _ in range(rng.randint(1, 3))]
        body = "{ " + " ".join(chosen) + " }"
        lst = "[" + ", ".join('"' + s + '"' for s in strings) + "]"
        call = f"Hardcode.repeatList(({p0}, {p1})=>{body}, {lst});"
        where = k % 3
        man, note = manual_of(lambda: "".join(inner(spec_expand(body, [(p0, str(j)), (p1, s)], [])) for j, s in enumerate(strings)))
        cases.append(Case("list", wrap(call, where), None if man is None else wrap(man, where), note=note, tag=f"list{names}"))
    for k in range(n):
        names = rng.choice(NAME_SETS)
        if rng.random() < .3:
            names = names + ["z"]
        rows = rng.randint(1, 3)
        lists = [[rng.choice(LIST_STRINGS) for _ in range(rows)] for _ in names[1:]]
        refs = ["$" + x for x in names]
        stm = [f'say "{":".join(refs)}";', f'say "{"".join(reversed(refs))}!";',
               f'say "c Hardcode.calc({refs[0]}+1) Hardcode.calc({refs[0]}*3) Hardcode.calc(2)";',
               f'if ($x == {refs[0]}) {{ say "L {refs[-1]}"; say "M"; }}',
               f'say "e Hardcode.calc({refs[0]}+{refs[-1]})";']
        chosen = [rng.choice(stm) for _ in range(rng.randint(1, 3))]
        body = "{ " + " ".join(chosen) + " }"
        lst = "[" + ", ".join("[" + ", ".join('"' + s + '"' for s in l) + "]" for l in lists) + "]"
        call = f"Hardcode.repeatLists(({', '.join(names)})=>{body}, {lst});"
        where = k % 3
        man, note = manual_of(lambda: "".join(
            inner(spec_expand(body, [(names[0], str(r))] + [(nm, l[r]) for nm, l in zip(names[1:], lists)], [])) for r in range(rows)))
        cases.append(Case("lists", wrap(call, where), None if man is None else wrap(man, where), note=note, tag=f"lists{names}"))
    return cases


LAZY_ARGS = ["5", "$b", "$a", "$ab", "@s", "$x", "12", "foo", "$item", "$i", "-3", "@a[tag=t]", "$q", "Hardcode", "0"]


def gen_lazy(rng, tier):
    cases = []
    n = 120 if tier == "quick" else 1000
    for k in range(n):
        names = rng.choice([ns for ns in NAME_SETS if len(set(ns)) == len(ns)])
        refs = ["$" + x for x in names]
        stm = [f'say "{" ".join(refs)}";', f'say "{"".join(reversed(refs))}|";',
               f'scoreboard players set {refs[0]} obj 1;', f'if ($x == 1) {{ say "L {refs[-1]}"; say "M {refs[0]}"; }}',
               f'say "c Hardcode.calc(1+2) {refs[0]}";', f'execute as @a expand {{ execute at @s run say "x {refs[0]}"; say "y"; }}',
               f'say "{refs[0]}{refs[0]}";']
        chosen = [rng.choice(stm) for _ in range(rng.randint(1, 3))]
        content = " " + " ".join(chosen) + " "
        args = [rng.choice(LAZY_ARGS) for _ in names]
        style = rng.randrange(6)
        if style == 0 or len(names) == 1:
            call_args = ", ".join(args)
            binds = list(zip(names, args))
        elif style == 1:       # all keywords, shuffled
            order = list(range(len(names)))
            rng.shuffle(order)
            call_args = ", ".join(f"{names[j]}={args[j]}" for j in order)
            binds = list(zip(names, args))
        elif style == 2:       # leading positionals, trailing keywords
            cut = rng.randint(1, len(names) - 1)
            call_args = ", ".join(args[:cut] + [f"{names[j]}={args[j]}" for j in range(cut, len(names))])
            binds = list(zip(names, args))
        elif style == 3:       # wrong count
            call_args = ", ".join(args[:-1]) if rng.random() < .5 else ", ".join(args + ["9"])
            binds = None
        elif style == 4:       # unknown keyword
            call_args = ", ".join(args + ["zz=1"])
            binds = None
        else:                  # keyword for the first parameter, positionals for the others: args[index] is missing
            call_args = ", ".join(args[1:] + [f"{names[0]}={args[0]}"])
            binds = None
        defn = f"@lazy function lz({', '.join(names)}) {{{content}}}\n"
        where = k % 2
        call = f"lz({call_args});"
        if binds is None:
            man, note = None, "call does not bind"
        else:
            man, note = manual_of(lambda: spec_expand(content, binds, []))
        cases.append(Case("lazy", defn + wrap(call, where), None if man is None else defn + wrap(man, where), note=note,
                          tag=f"lazy{names}{style}"))
    return cases


def gen_nested(rng, tier):
    cases = []
    # repeat inside repeat, lazy call inside repeat, repeat inside a lazy body (only the outermost is expanded by hand)
    for a, b in [(0, 2), (1, 3), (-1, 1)]:
        body = '{ say "o $i"; Hardcode.repeat((j)=>{ say "in $i $j Hardcode.calc($i*10+$j)"; if ($x == $j) { say "u"; say "v $i"; } }, start=0, stop=2); }'
        call = f"Hardcode.repeat((i)=>{body}, start={a}, stop={b});"
        man, note = manual_of(lambda: "".join(inner(spec_subst(body, [("i", str(i))])) for i in py_range(a, b, 1)))
        # the inner Hardcode.calc's mention $j: they can only be evaluated by the inner expansion
        cases.append(Case("nested", wrap(call, 0), None, note="outer Hardcode.calc loop meets $j of the inner repeat", tag="nested-calc-inner-param"))
        body2 = '{ say "o $i"; Hardcode.repeat((j)=>{ say "in $i $j"; if ($x == $j) { say "u"; say "v $i"; } }, start=0, stop=2); }'
        call2 = f"Hardcode.repeat((i)=>{body2}, start={a}, stop={b});"
        man2, note2 = manual_of(lambda: "".join(inner(spec_expand(body2, [("i", str(i))], [])) for i in py_range(a, b, 1)))
        cases.append(Case("nested", wrap(call2, 0), None if man2 is None else wrap(man2, 0), note=note2, tag="nested-repeat"))
        defn = '@lazy function lz(a, b) { say "$a-$b"; if ($x == $a) { say "P"; say "Q $b"; } }\n'
        body3 = '{ lz($i, Hardcode.calc($i+1)); say "after $i"; }'
        call3 = f"Hardcode.repeat((i)=>{body3}, start={a}, stop={b});"
        man3, note3 = manual_of(lambda: "".join(inner(spec_expand(body3, [("i", str(i))], [])) for i in py_range(a, b, 1)))
        cases.append(Case("nested", defn + wrap(call3, 0), None if man3 is None else defn + wrap(man3, 0), note=note3, tag="lazy-in-repeat"))
        defn4 = ('@lazy function lz(n, who) { Hardcode.repeat((i)=>{ say "$who $i of $n"; }, start=0, stop=$n); }\n')
        call4 = f"lz({b + 2}, @s);"
        man4, note4 = manual_of(lambda: spec_expand(' Hardcode.repeat((i)=>{ say "$who $i of $n"; }, start=0, stop=$n); ', [("n", str(b + 2)), ("who", "@s")], []))
        cases.append(Case("nested", defn4 + wrap(call4, 0), None if man4 is None else defn4 + wrap(man4, 0), note=note4, tag="repeat-in-lazy"))
    return cases


# ------------------------------------------------------------------ running, Coq terms

def run_jobs(jobs: list[dict], chunk: int = 150) -> list[dict]:
    chunks = [jobs[i:i + chunk] for i in range(0, len(jobs), chunk)]
    with ThreadPoolExecutor(max_workers=NCPU) as ex:
        res = list(ex.map(lambda c: run_py(RUNNER, c, timeout=900), chunks))
    return [r for rs in res for r in rs]


PYEXC = {"SyntaxError": "XSyntax", "ZeroDivisionError": "XZeroDiv", "TypeError": "XType", "KeyError": "XKey",
         "OverflowError": "XOverflow"}


def coq_rerr(err) -> str:
    if err is None:
        return "RNone"
    if err["stage"] == "parse":
        return "RParse"
    exc, msg = err["exc"], err["msg"]
    if exc in PYEXC:
        return f"(RProcess (KPy {PYEXC[exc]}))"
    if exc == "JMCSyntaxException":
        if "Expected ( after Hardcode.calc" in msg:
            return "(RProcess KExpectedParen)"
        if "Invalid syntax in Hardcode.calc" in msg:
            return "(RProcess KInvalidSyntax)"
        m = re.search(r"Invalid character\((.)\) in Hardcode\.calc", msg, re.S)
        if m:
            return f"(RProcess (KInvalidChar {coq_str(m.group(1))}))"
    if exc == "JMCValueError":
        if "positional arguments, got" in msg:
            return "(RProcess KBindCount)"
        m = re.search(r"unexpected keyword argument '([^']*)'", msg)
        if m:
            return f"(RProcess (KBindKw {coq_str(m.group(1))}))"
    return "(RProcess KOther)"


def coq_pairs(l) -> str:
    return coq_list(f"({coq_str(k)}, {coq_str(v)})" for k, v in l)


def coq_case(rec: dict, mode: str) -> str | None:
    """None if the record cannot be expressed (inputs not captured)."""
    if rec.get("input_error") or any(ord(ch) > 126 or (ord(ch) < 32 and ch not in "\n\t") for ch in rec["body"]):
        return None
    k = rec["kind"]
    ps = rec["params"]
    if k == "repeat":
        if len(ps) != 1:
            return None
        inp = f"(HRepeat {coq_str(ps[0])} {coq_z(rec['start'])} {coq_z(rec['stop'])} {coq_z(rec['step'])})"
    elif k == "list":
        if len(ps) != 2:
            return None
        inp = f"(HList {coq_str(ps[0])} {coq_str(ps[1])} {coq_list(coq_str(s) for s in rec['strings'])})"
    elif k == "lists":
        lists = rec["lists"]
        if len(ps) != len(lists) + 1 or len({len(l) for l in lists}) > 1 or not lists:
            return None
        inp = f"(HLists {coq_list(coq_str(p) for p in ps)} {coq_list(coq_list(coq_str(s) for s in l) for l in lists)})"
    else:
        if ps is None or any(p is None for p in rec["pos"]):
            return None
        inp = f"(HLazy {coq_list(coq_str(p) for p in ps)} {coq_list(coq_str(p) for p in rec['pos'])} {coq_pairs(rec['kw'])})"
    return (f"mkCase {mode} {inp} {coq_str(rec['body'])} {coq_pairs(rec['macros'])} "
            f"{coq_list(coq_str(t) for t in rec['texts'])} {coq_rerr(rec['err'])}")


def fkey(res: dict):
    if res["ok"]:
        return ("ok", tuple(sorted(res["files"].items())))
    return ("err", res["exc"])


def summary(res):
    if res is None:
        return None
    if res["ok"]:
        return {k: v for k, v in res["files"].items() if k.endswith(".mcfunction")}
    return f"{res['exc']}: {res.get('msg', '')[:500]}"


def metamorphic_failure(case: Case, rexp: dict, rman: dict | None):
    if case.manual is None:
        return None
    if rman["ok"] and fkey(rexp) != fkey(rman):
        return dict(what="the expanding program does not compile to the output of its manual expansion",
                    expected=summary(rman), actual=summary(rexp))
    if not rman["ok"] and rexp["ok"]:
        return dict(what="the manual expansion is rejected but the expanding program compiles",
                    expected=summary(rman), actual=summary(rexp))
    return None


def known_class(row):
    """A failing pair is a known finding only if it matches a rule of known_findings.json:
       match = {"requires_text": <text that must occur in the expanding program>,
                "normalize": "run-execute"  (both outputs are equal once ` run execute ` is folded)}"""
    case = row["case"]
    for f in known_for(PROP):
        m = f.get("match", {})
        if m.get("requires_text") and m["requires_text"] not in case.expanding:
            continue
        if m.get("normalize") == "run-execute":
            a, b = row["exp"], row["man"]
            if not (a and b and a.get("ok") and b.get("ok")):
                continue
            na = {k: v.replace(" run execute ", " ") for k, v in a["files"].items()}
            nb = {k: v.replace(" run execute ", " ") for k, v in b["files"].items()}
            if na != nb:
                continue
            return f
    return None


def evaluate(cases: list[Case]):
    jobs, slots = [], []
    for i, c in enumerate(cases):
        jobs.append(dict(src=c.expanding, header=c.header))
        slots.append((i, "e"))
        if c.manual is not None:
            jobs.append(dict(src=c.manual, header=c.header))
            slots.append((i, "m"))
    res = run_jobs(jobs)
    rows = [dict(case=c, exp=None, man=None) for c in cases]
    for (i, w), r in zip(slots, res):
        rows[i]["exp" if w == "e" else "man"] = r
    return rows


def main(tier: str) -> int:
    ck = Check(PROP, tier)
    ck.cov["trusted_base"] = COMMON_TRUSTED + [
        "Model/StrOps.v, Model/Hardcode.v, Model/Lazy.v: hand-written ports of _hardcode_process(es), hardcode_parse_calc, eval_expr "
        "(Python tokenizer/grammar/ast evaluation on the alphabet the character check lets through), range(), handle_lazy binding and "
        "substitution; tied to the code by exact equality of the texts handed to the parser for every generated call",
        "floats are modelled only while they hold an integer of magnitude <= 2^53 (otherwise the model answers Unsupported and makes no claim)",
        "the function-content parser (tokenizer, FuncContent, private-function allocation) is NOT modelled: that parsing the iterations one by one "
        "equals parsing the written-out text is exercised by the metamorphic comparison of real file maps only (C19_unroll_alloc is about an abstract statement-wise parser)",
        "harness/c19.py spec_subst / spec_calc / spec_eval: independent Python implementation of the specification used to write the manual expansions",
        "harness/c19_run.py wraps Hardcode*.call, DataPack.parse_function_token, PreFunction.handle_lazy/parse to capture inputs and texts",
    ]
    ck.proof(extra_targets=["Run/C19.vo"])
    rng = ck.rng
    cases = gen_nested(rng, tier) + gen_calc(rng, tier) + gen_repeat(rng, tier) + gen_lists(rng, tier) + gen_lazy(rng, tier)
    rows = evaluate(cases)
    mode = os.environ.get("C19_MODEL_MODE", "HRepaired")

    # ---- 1. the property on the real compiler
    n_fail, reported = 0, set()
    for row in rows:
        c = row["case"]
        f = metamorphic_failure(c, row["exp"], row["man"])
        row["fail"] = f
        if not f:
            continue
        n_fail += 1
        kf = known_class(row)
        if kf:
            ck.known(kf["id"], kf["what"])
            continue
        key = (c.kind, f["what"])
        if key in reported:
            continue
        reported.add(key)
        ck.violation(dict(kind="expansion-differs-from-manual", case=c.to_json(), failure=f,
                          records=row["exp"].get("records", [])[:4]))

    # ---- 2. correspondence
    terms, owners = [], []
    n_rec = 0
    for ri, row in enumerate(rows):
        for rec in row["exp"].get("records", []):
            n_rec += 1
            t = coq_case(rec, mode)
            if t is not None:
                terms.append(t)
                owners.append((ri, rec))
    bad, errs = eval_cases(PROP, HEADER, terms, per_file=200)
    for e in errs:
        ck.violation(dict(kind="correspondence-file-failed", log=e), no_input=True)
    unsup, errs2 = eval_cases(PROP, HEADER, terms, per_file=200, checker="unsupported", prefix="unsup")
    silent = [i for i in bad if not rows[owners[i][0]]["fail"]]
    if silent:
        shown = []
        for i in silent[:3]:
            ri, rec = owners[i]
            try:
                mt = eval_strings(PROP, HEADER, [f'String.concat "<|>" (model_texts ({terms[i]}))'])[0]
            except Exception as e:  # noqa
                mt = f"<{e}>"
            shown.append(dict(program=rows[ri]["case"].to_json(), record=rec, model_texts=mt))
        ck.violation(dict(kind="correspondence-differs",
                          theorem="the C19 theorems no longer speak about the code (the model mispredicts the texts handed to the parser)",
                          cases=shown, n_differing=len(silent)), no_input=True)

    # ---- known limitation probes (float true division beyond 2^53)
    kinds, outcome = {}, {}
    for row in rows:
        c = row["case"]
        kinds[c.kind] = kinds.get(c.kind, 0) + 1
        o = ("ok" if row["exp"]["ok"] else row["exp"]["exc"]) + "/" + ("none" if c.manual is None else "ok" if row["man"]["ok"] else row["man"]["exc"])
        outcome[o] = outcome.get(o, 0) + 1
    rec_kinds = {}
    for _, rec in owners:
        k = rec["kind"] + ("" if rec["err"] is None else ":" + rec["err"]["stage"] + ":" + rec["err"]["exc"])
        rec_kinds[k] = rec_kinds.get(k, 0) + 1
    ck.cov.update(dict(
        evaluations=len(terms) + sum(1 for r in rows if r["case"].manual is not None),
        distinct_nontrivial=len({t for t in terms}), programs=len(rows),
        rule="a metamorphic case = (expanding program, manual expansion) compiled by the real compiler, file maps compared; a correspondence case = one "
             "real Hardcode.repeat/repeatList/repeatLists/@lazy call (inputs + texts handed to the parser) vs the model; distinct_nontrivial = distinct correspondence cases",
        samples=[dict(case=rows[i]["case"].to_json()) for i in (0, len(rows) // 2, len(rows) - 1)],
        disagreements_checked=len(bad), property_failures=n_fail, records=n_rec, records_modelled=len(terms),
        model_unsupported=len(unsup), case_kinds=kinds, outcome_histogram=outcome, record_histogram=rec_kinds,
        manual_missing=sum(1 for r in rows if r["case"].manual is None),
        ranges="all (start, stop, step) in [-4,4]^3, step != 0",
    ))
    return ck.finish()


def replay(path: str) -> int:
    o = json.load(open(path))
    c = o["case"]
    case = Case(c["kind"], c["expanding"], c["manual"], c.get("header"), c.get("note", ""), c.get("tag", ""))
    row = evaluate([case])[0]
    f = metamorphic_failure(case, row["exp"], row["man"])
    print("expanding program:\n" + case.expanding)
    print("manual expansion:\n" + str(case.manual))
    print("expected (manual):", json.dumps(summary(row["man"]), indent=1))
    print("actual (expanding):", json.dumps(summary(row["exp"]), indent=1))
    print("FAILS" if f else "holds", f["what"] if f else "")
    return 1 if f else 0
