"""Round-5 seeded changes: copy the confirmed ones from a staging directory (default /tmp/seed5/out) into /verif/seeded/<P>-i/
with meta.json (confirmation + the verdict of the property's own check as recorded by seedtool.py confirm / run).
Usage: adopt_round5.py [stage [suffix]]      (tooling, not part of any registered check)"""
import json, os, re, shutil, subprocess, sys

STAGE = sys.argv[1] if len(sys.argv) > 1 else "/tmp/seed5/out"
SUFFIX = sys.argv[2] if len(sys.argv) > 2 else "i"
VERIF = os.path.dirname(os.path.dirname(os.path.abspath(__file__)))
head = subprocess.run("git -C /repo rev-parse --short HEAD", shell=True, capture_output=True, text=True).stdout.strip()
rows = []
for p in sorted(os.listdir(STAGE)):
    d = os.path.join(STAGE, p)
    try:
        conf = json.load(open(os.path.join(d, "confirm.json")))
    except Exception:
        continue
    if not conf.get("confirmed"):
        rows.append((p, "not confirmed", conf))
        continue
    verdict, viol = "not run", []
    rp = os.path.join(d, "run.json")
    if os.path.exists(rp):
        txt = open(rp).read()
        m = re.search(r"\{.*\}", txt, re.S)
        try:
            r = json.loads(m.group(0))
            viol = r.get("violations", [])
            if r.get("check_rc") == 1 and viol:
                verdict = "detected (no-failing-input-found)" if all("no-failing-input-found" in v for v in viol) else "detected (concrete failing input)"
            else:
                verdict = "missed"
        except Exception:
            verdict = "run output unreadable"
    dst = os.path.join(VERIF, "seeded", f"{p}-{SUFFIX}")
    os.makedirs(dst, exist_ok=True)
    for f in ("patch.diff", "demo.py", "notes.md"):
        shutil.copy(os.path.join(d, f), os.path.join(dst, f))
    notes = open(os.path.join(d, "notes.md")).read()
    old = {}
    if os.path.exists(os.path.join(dst, "meta.json")):
        old = json.load(open(os.path.join(dst, "meta.json")))
    meta = {
        "id": f"{p}-{SUFFIX}", "property": p, "round": 5,
        "origin": "fresh sub-agent given only the property text, a list of the earlier changes to avoid, and its own scratch worktree; nothing from /verif",
        "breaks": notes[:900],
        "needs_to_manifest": "see notes.md (the agent's own description of the trigger)",
        "base_commit": head,
        "what_i_ran": [
            "harness/seedtool.py confirm <dir>: fresh worktree of /repo; demo.py passes on the clean tree; git apply patch.diff; pinned suite (pytest, compared with BASELINE stable_pass) still passes; demo.py fails",
            f"harness/seedtool.py run {p} <dir> quick: ./check {p} with JMC_REPO=<worktree with the patch> (every check reads the tree only through JMC_REPO)"],
        "confirmed": {"demo_passes_on_clean_tree": conf.get("demo_clean_rc") == 0, "pinned_suite_passes_with_patch": not conf.get("suite_missing"),
                      "demo_fails_with_patch": conf.get("demo_patched_rc") not in (0, 124), "demo_patched_rc": conf.get("demo_patched_rc")},
        "first_verdict_of_check": old.get("first_verdict_of_check", verdict),
        "final_verdict_of_check": verdict,
        "violation_lines": viol[:3],
        "status": f"valid on HEAD {head}",
    }
    json.dump(meta, open(os.path.join(dst, "meta.json"), "w"), indent=1)
    rows.append((p, verdict, None))
for r in rows:
    print(r[0], r[1])
