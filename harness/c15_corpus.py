"""Corpus of JMC programs for C15/C16 beyond the repo's own test inputs: the README example, one program per
statement kind, and a generator of random programs that nest those statements (all randomness from the rng given)."""
from __future__ import annotations

FULL_CERT = "LOAD=__load__\nTICK=__tick__\nPRIVATE=__private__\nVAR=__variable__\nINT=__int__\nSTORAGE=__storage__"

README = r'''
Text.tellraw(@a, "everything outside the function");
say "just goes into the load function";

function myFunc() { // function
    execute as @a at @s run {
        Text.tellraw(@a, "&<green,bold> this text is green and bold");
        say "this is a function executed through execute as @a";
    }
}
function varOperations() {
    // this variable x is equal to the number of items in hand
    $x = data get entity @s SelectedItem.Count;
    $y = 100; // this is the second variable
    $z = @s::SelectedItem.Count; // the same as $x
    $random_int = Math.random($x, $y);
    Text.tellraw(@a, "random number from &<$x> to 100: &<$random_int>");
}
class folder {
    function funcInFolder() {
        if ($x < $y && $random_int <= 50) {
            printf("X is less than Y and random number is less than or equal to 50");
        } else if ($y > $x || $x == 69) {
            printf("X is greater than Y or X is equal to 69 ($x is &<$x>)");
        } else {
            printf("&6other cases"); // "printf" is shortcut for "tellraw @a" but works with custom formatting
        }
    }
}
function folder.raycast() {
    Raycast.simple(
        onHit=()=>{
            say "hit";
        },
        onStep=()=>{
            particle flame ~ ~ ~;
        },
        interval=0.5,
        maxIter=50
    );
}
'''

PRELUDE = ('function foo() { say "foo"; }\nfunction bar() { say "bar"; }\nfunction a.b.c() { say "abc"; }\n'
           'class cls { function m() { say "m"; this.n(); } function n() { say "n"; } }\n'
           '@lazy function lz(a, b) { say "$a"; tp @s $b ~ ~; }\n')

# statements usable inside a function body (each compiles on its own after PRELUDE)
BODY = r'''
say "hello world";
tp @s ~ ~1 ~;
tp @s ~-1 ~.5 ^2;
kill @e[type=pig,limit=1,sort=nearest];
kill @e[type=!player, distance=..5, nbt={OnGround:1b}];
execute as @a at @s run tp @s ~ ~1 ~;
execute as @a[tag=x] at @s if block ~ ~-1 ~ stone run { say "a"; say "b"; }
execute if entity @s[scores={obj=1..5}] run say "x";
execute store result score $x __variable__ run data get entity @s Pos[0];
data modify storage a:b x set from entity @s Inventory[{Slot:0b}].tag;
data modify storage a:b x set from entity @s Inventory[{Slot:0b, id:"minecraft:stone"}].tag.display.Name;
data modify storage a:b x set value {a:1b, b:[1,2,3], c:"str", d:{e:1.5f}};
data modify entity @s Items[0].tag.display.Name set value '{"text":"hi"}';
data get entity @s SelectedItem.tag.CustomModelData;
data get entity @e[type=pig, limit=1].foo;
give @s diamond_sword{Enchantments:[{id:"sharpness",lvl:5s}]} 1;
give @s stone[custom_name='"x"',lore=['"a"','"b"']] 2;
summon zombie ~ ~ ~ {IsBaby:1b, ArmorItems:[{},{},{},{id:"stone",Count:1b}]};
tellraw @a {"text":"hello","color":"red","extra":[{"text":"!"}]};
tellraw @a [{"text":"a"}, {"selector":"@s"}, " b "];
scoreboard players set @s obj 5;
scoreboard players operation @s obj += #c obj;
effect give @a speed 10 1 true;
setblock ~ ~ ~ chest[facing=north]{Items:[]} replace;
fill ~-1 ~ ~-1 ~1 ~ ~1 stone replace air;
particle dust{color:[1.0,0.0,0.0],scale:1} ~ ~ ~ 0 0 0 0 1;
item replace entity @s weapon.mainhand with stick;
$x = 5;
$x += 3;
$x -= $y;
$x *= obj:@s;
$x /= 2;
$x %= 7;
$x++;
$y--;
$x = $y;
$x >< $y;
$x ??= 4;
$x = @s::SelectedItem.Count;
$x = obj:@s;
obj:@s = 5;
obj:@e[type=pig,limit=1] += $x;
$x = data get entity @s Pos[1];
$x := ($y + 3) * 2 - $z / 4;
$x := $a - $b - $c;
$x := $a * $b + $c * $d;
$x := $a / $b / $c;
$x := $a - $b + $c - $d;
$x := 2 ** 3 ** 2;
$x := -$y + obj:@s;
$x := $a + ($b - ($c * 2));
$x := $a % $b * $c;
$x := ($a / $b / $c) * ($d / 2) / 3;
scoreboard players operation @s obj /= #c obj;
@s::tag.x = 5;
@s::tag.list[0] = $x;
::mystorage.value = "abc";
::a.b = @s::c.d;
@s::Inventory[{Slot:0b}].tag.x = 1b;
$x = @s::Inventory[{Slot:0b}].tag.x;
::a.b[{k:1}].c = @s::Inventory[{Slot:0b}].tag;
$x = @s::arr[0];
@s::a.b += 1;
if ($x == 1) { say "one"; }
if ($x > 1 && $y <= 3) { say "both"; } else { say "no"; }
if ($x matches 1..5) { say "r"; } else if ($x <= 0) { say "neg"; } else { say "big"; }
if (entity @s[tag=a] || !($x != $y)) { say "c"; }
if ($x >= $y) say "short";
if (block ~ ~ ~ #minecraft:logs) { say "log"; }
if (!$flag) { say "nf"; }
if ($flag) { say "f"; }
if (($a == 1 || $b == 2) && entity @e[type=pig, limit=1]) { say "grp"; }
while ($i < 10) { $i++; say "loop"; }
do { $i--; } while ($i > 0);
for ($i = 0; $i < 5; $i++) { say "f"; }
switch ($x) { case 1: say "1"; case 2: say "2"; say "two"; case 3: say "3"; }
switch ($x) { case 1: if ($y == 1) { say "a"; } say "b"; case 2: while ($i < 2) { $i++; } default: execute as @a run { say "d"; } }
foo();
a.b.c();
cls.m();
lz(hello, 5);
Text.tellraw(@a, "hello &<red,bold>world &<$x>");
Text.title(@a, "title");
printf("value &<$x>");
$y = Math.sqrt($x);
$r = Math.random(1, 10);
Hardcode.repeat((i) => { say "index $i"; tp @s ~ ~$i ~; }, start=1, stop=4, step=1);
Hardcode.repeat((i) => { $x = Hardcode.calc($i * 2 + 1); }, start=0, stop=3);
Hardcode.repeatList((v, i) => { say "$v $i"; }, strings=["a", "b", "c"]);
Hardcode.switch($x, (i) => { say "case $i"; }, count=3);
Raycast.simple(onHit=() => { say "hit"; }, onStep=() => { particle flame ~ ~ ~; }, interval=0.5, maxIter=50);
schedule function foo 5t replace;
schedule function foo 5t;
return run foo();
return 1;
execute as @a run return run say "x";
execute as @a run foo();
execute as @a at @s run { if ($x == 1) { say "nested if"; } $x++; }
execute if score @s obj matches 1.. run say "m";
execute unless score $x __variable__ = $y __variable__ run say "ne";
execute positioned ~ ~1 ~ rotated as @s anchored eyes run tp @s ^ ^ ^1;
bossbar add a:b "name";
team modify red color red;
tp @s $(x) $(y) $(z);
say "$(msg)";
data modify storage a:b $(path) set value 1;
execute as @a run $(cmd);
tellraw @a "&<red>not formatted";
JMC.put("raw command here");
$x = true;
$x = false;
$x.get();
$x.reset();
'''.strip().split("\n")

# statements written over several lines (strengthening round 1): continuation lines after a bare word, a number, a
# selector, an operator, each kind of closing bracket and a string
MULTILINE = [
    "tp @s ~ ~1\n        ~;",
    "$x := $a /\n        $b /\n        $c;",
    "$x := $a +\n        ($b - 2)\n        * $c;",
    "execute as @a[tag=x]\n        at @s\n        if block ~ ~-1 ~ stone\n        run tp @s ~ ~1 ~;",
    "execute\n        as @a\n        run say \"x\";",
    "tellraw @a\n        {\"text\":\"a\"};",
    "Text.tellraw(@a,\n        \"hello\"\n    );",
    "if ($x == 1\n        && $y > 2)\n    {\n        say \"a\";\n    }\n    else\n    {\n        say \"b\";\n    }",
    "give @s stone[custom_name='\"x\"']\n        {a:1b}\n        2;",
    "data modify storage a:b x\n        set from entity @s Inventory[{Slot:0b}]\n        .tag;",
    "$x = @s::Inventory[{Slot:0b}]\n        .tag.x;",
    "scoreboard players operation @s obj\n        /= #c obj;",
    "say \"multi\"\n    ;",
]

# statements for the load section (top level)
TOP = r'''
Timer.add(obj2, runOnce, @a, () => { say "done"; });
Player.onEvent(jump, () => { say "jumped"; });
Player.firstJoin(() => { say "welcome"; });
Item.create(myitem, carrot_on_a_stick, "&<gold>Wand", ["&<gray>lore"], nbt={a:1b});
Trigger.setup(help, { 1: () => { say "h1"; }, 2: () => { say "h2"; } });
Team.add(tm);
Scoreboard.add(obj4, dummy);
Bossbar.add(a:bb, "nm");
Trigger.add(trig, () => { say "t"; });
Player.rejoin(() => { say "back"; });
Player.die(onDeath=() => { say "dead"; }, onRespawn=() => { say "resp"; });
$global = 5;
say "top level";
new advancements(adv.one) { "criteria": { "r": { "trigger": "minecraft:tick" } } }
new tags.functions(mytag) { "values": [] }
new predicates(p.one) {"condition":"minecraft:random_chance","chance":0.5}
function f.extra() { say "extra"; }
class k2 { function g() { say "g"; } new predicates(inner) {"condition":"minecraft:random_chance","chance":0.1} }
'''.strip().split("\n")

# the shapes the known/fixed defects need (kept first so that they are always run)
ADVERSARIAL = [
    'function t() { data modify storage a:b x set from entity @s Inventory[{ Slot:0b}].tag; }',
    'function t() { $x = @s::Inventory[{ Slot:0b }].tag.x; tp @s ~ ~ ~; }',
    'function t() { kill @e[ type=pig ][ tag=a ]; }',
    'function t() { execute if data entity @s Inventory[{ id:"minecraft:stone" }].tag run say "x"; }',
    'function t() { $x /= 3; $y = 4 ; $x /= $y; }',
    'function t() { $x := $a / $b / $c ; tp @s ~ ~ ~ ; }',
    'function t() { give @s stone[ custom_name=\'"x"\' ]{ a:1b } 2; }',
    'function t() { tellraw @a {"text":"a/b // not a comment", "color":"red"} ; }',
    'function t() { say "tab\there"; tellraw @s "x" ; }',
    'function t() { execute as @a run { say "a" ; } say "after" ; }',
    'function t() { if ($x == 1) { say "a" ; } else { say "b" ; } say "after" ; }',
    'function t() { @s::a.b[ 0 ].c = 1 ; ::k.l[ {m:1} ].n = $x ; }',
    'function t() { tp @s $( x )$( y ) ~ ; }',
]


def single_statement_programs():
    out = [README] + ADVERSARIAL
    for s in BODY:
        out.append(PRELUDE + "function t() {\n    " + s + "\n}\n")
    for s in MULTILINE:
        out.append(PRELUDE + "function t() {\n    " + s + "\n}\n")
    for s in TOP:
        out.append(s + "\n")
    return out


def gen_program(rng, nfun=3):
    """A random program: load section + functions whose bodies nest random statements."""
    def block(depth, n):
        lines = []
        for _ in range(n):
            x = rng.random()
            if depth < 3 and x < 0.12:
                lines.append("execute as @a at @s run {\n" + block(depth + 1, rng.randint(1, 3)) + "\n}")
            elif depth < 3 and x < 0.22:
                lines.append("if ($x == %d) {\n%s\n} else {\n%s\n}" % (rng.randint(0, 9), block(depth + 1, rng.randint(1, 2)),
                                                                      block(depth + 1, 1)))
            elif depth < 3 and x < 0.28:
                lines.append("while ($i < %d) {\n%s\n$i++;\n}" % (rng.randint(1, 9), block(depth + 1, 1)))
            elif x < 0.36:
                lines.append(rng.choice(MULTILINE))
            else:
                lines.append(rng.choice(BODY))
        return "\n".join("    " * (depth + 1) + ln for ln in lines)

    parts = [PRELUDE]
    tops = rng.sample(TOP, rng.randint(0, 3))
    parts += [t + "\n" for t in tops]
    for k in range(nfun):
        parts.append("function gen%d() {\n%s\n}\n" % (k, block(0, rng.randint(2, 6))))
    return "".join(parts)
