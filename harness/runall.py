"""Convenience (not a registered check): run every check of MANIFEST.json and summarise.
   /venv/bin/python harness/runall.py [quick|thorough] [parallel=4] [ids...]"""
import json, os, subprocess, sys, time
from concurrent.futures import ThreadPoolExecutor
V = os.path.dirname(os.path.dirname(os.path.abspath(__file__)))
tier = sys.argv[1] if len(sys.argv) > 1 else "quick"
par = int(sys.argv[2]) if len(sys.argv) > 2 else 4
only = set(sys.argv[3:])
m = json.load(open(os.path.join(V, "MANIFEST.json")))
def run(c):
    t = time.time()
    cmd = c["quick_cmd"] if tier == "quick" else c.get("thorough_cmd", c["quick_cmd"])
    p = subprocess.run(cmd, shell=True, cwd=V, stdout=subprocess.PIPE, stderr=subprocess.STDOUT,
                       env=dict(os.environ, VERIF_JOBS=str(max(2, 16 // par))))
    out = p.stdout.decode(errors="replace")
    return c["property_id"], p.returncode, round(time.time() - t), [l for l in out.split("\n") if l.startswith(("VIOLATION", "KNOWN-FINDING"))]
cs = [c for c in m["checks"] if not only or c["property_id"] in only]
with ThreadPoolExecutor(par) as ex:
    for pid, rc, w, lines in ex.map(run, cs):
        nk = sum(1 for l in lines if l.startswith("KNOWN"))
        print(f"{pid} rc={rc} {w}s known-findings={nk}")
        for l in lines:
            if l.startswith("VIOLATION"): print("   ", l[:200])
