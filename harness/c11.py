"""C11 — output tree is always the fresh build, also after failed or killed builds.
Proof step + real fault injection: every history is re-run once per file-system mutation k of its last build with a
KeyboardInterrupt raised right after mutation k (torn write if it is a write), followed by a recovery compile.
Every real run (crashed ones included) is compared with Model/Build.v (Run.C10.case), and the recovered tree with the
un-interrupted build / the build into an empty directory (Run.C11.rcase) — all evaluated in Coq."""
from __future__ import annotations

import copy
import json
import re

import c10
from c10 import (DEFAULT_CERT, FAIL_BUILD, FAIL_LEX, Unmodelled, canon, case_term, cpath, flat_term, fn, op_term,  # noqa
                 real_result, run_jobs)
from lib import Check, coq_list, coq_str, known_for, parse_nat_list, run_coq_files

PROP = "C11"
COQ_HEADER = ("From Coq Require Import String List.\nFrom JMCV Require Import Model.FS Model.Build Model.BuildPath Run.C10 Run.C11.\n"
              "Import ListNotations.\nOpen Scope string_scope.\n")

PROPOSED_KNOWN = {
    "C11-torn-cert": dict(
        id="C11-torn-cert", property="C11",
        what="a build killed while jmc.txt is being written leaves a truncated certificate; the next build reads shortened "
             "internal names from it (e.g. PRIVATE=__private_) and its output differs from the fresh build - "
             "compiling.py:72-81 make_cert writes in place, 189-199 read_cert trusts the content",
        match=dict(crash_op="write", path="data/<ns>/jmc.txt", torn=True, model_agrees=True)),
}

PROPOSED_KNOWN["C11-dropped-override-left-behind"] = dict(
    id="C11-dropped-override-left-behind", property="C11",
    what="a build does not know which namespaces the previous build overrode or linked: when `#override foo` / `#link foo` is dropped "
         "from the header, the files the earlier build wrote into data/foo stay (the fresh build has none) - compiling.py build(): "
         "overrides_folders comes from the current header only, jmc.txt records no namespaces; deleting a folder the header does not "
         "declare would violate C10; theorem C11_dropped_override_refuted",
    match=dict(rcode_bit=8, stale_paths="strictly inside data/<o>, o in the overrides of an earlier successful build of the history "
               "and not of this one", every_other_owned_path="equal to the fresh build", model_agrees=True))

# repair exists as a patch that /repo does not contain yet (see c10.PENDING_FIXES for the protocol)
PENDING_FIXES = {}   # every pending repair has been committed upstream; known_findings.json is the only authority


def stale_tick_only(job: dict, b_rec: dict, oracle: list) -> bool:
    """the recovered tree differs from the oracle, inside the folders the build deletes, ONLY at a tick.json shielded by a #static
    folder, and only by entries of this pack"""
    ns = job.get("ns", "ns")
    f = b_rec["facts"]
    statics = c10.spelled_statics(f, ns)          # from the header as written, not from the code under test
    roots = [f"data/{ns}", "data/minecraft"] + [f"data/{o}" for o in f.get("overrides", [])]
    got = {p: t for p, t in b_rec["after"] if t is not None}
    want = {p: t for p, t in oracle if t is not None}
    diff = [p for p in set(got) | set(want) if got.get(p) != want.get(p) and any(p.startswith(r + "/") for r in roots)]
    if not diff:
        return False
    for p in diff:
        if p not in ("data/minecraft/tags/function/tick.json", "data/minecraft/tags/functions/tick.json"):
            return False
        if not any(p.startswith(st + "/") for st in statics):
            return False
        try:
            have = json.loads(got[p])["values"] if p in got else []
            fresh = json.loads(want[p])["values"] if p in want else []
        except (ValueError, KeyError):
            return False
        if [v for v in have if not v.startswith(ns + ":")] != fresh or have == fresh:
            return False
    return True


# ----------------------------------------------------------------------------------- generators

PARTS = [fn("f"), fn("g"), fn("a.b"), fn("a.deep.c"), 'new advancement(x.y) {"a":1}',
         fn("branch", 'if ($x == 1) { say "a"; say "b"; } else { say "c"; say "d"; }'),
         'new predicate(p) {"condition":"minecraft:random_chance","chance":0.5}']
TICK = fn("__tick__", 'say "t";')


def static_edits(rng, content: list, counter: list) -> dict:
    """(round 2) what the user does INSIDE the #static folders between two builds: a new file next to an existing one, an
    overwrite, a deletion.  `content` ([[path, text]], the static content so far) is updated in place."""
    out: dict = {}
    files = [c for c in content if c[1] is not None]
    if not files:
        return out
    touch, remove = [], []
    if rng.random() < 0.7:
        counter[0] += 1
        base = rng.choice(files)[0].rsplit("/", 1)[0]
        new = [f"{base}/{rng.choice(['', 'later/'])}added{counter[0]}.txt", f"added {counter[0]}"]
        touch.append(new)
        content.append(list(new))
    if rng.random() < 0.35:
        victim = rng.choice(files)
        victim[1] = victim[1] + " (edited)"
        touch.append(list(victim))
    if len(files) > 2 and rng.random() < 0.3:
        victim = rng.choice(files)
        content.remove(victim)
        touch = [t for t in touch if t[0] != victim[0]]
        remove.append(victim[0])
    if touch:
        out["touch"] = touch
    if remove:
        out["remove"] = remove
    return out


def project(rng, overrides, statics, copy_ok, tick=None, fail=None, directive=None):
    """directive: {namespace: "override" | "link"} - both feed Header.namespace_overrides (default: #override)"""
    parts = [p for p in PARTS if rng.random() < 0.4] or [fn("f")]
    if tick if tick is not None else rng.random() < 0.5:
        parts.append(TICK)
    for o in overrides:
        parts += [p for p in c10.OVERRIDE_PARTS[o] if rng.random() < 0.7] or [c10.OVERRIDE_PARTS[o][0]]
    rng.shuffle(parts)
    hl = [f"#{(directive or {}).get(o, 'override')} {o}" for o in overrides] + [f'#static "{s}"' for s in statics]
    if copy_ok and rng.random() < 0.5:
        hl.append('#copy "cp"')
    if rng.random() < 0.1:
        hl.append("#nometa")
    rng.shuffle(hl)
    if fail == "lex":
        parts.append(rng.choice(FAIL_LEX))
    elif fail == "build":
        parts.append(rng.choice(FAIL_BUILD))
    elif fail == "header":
        hl.append("#bogus")
    return dict(src="\n".join(parts), header="\n".join(hl) if hl else None)


def gen_history(rng) -> dict:
    """History over a tree whose JMC-owned part is empty.  The projects share namespace, overrides and statics
    (the hypothesis of C11_history_ready); sources, #copy, #nometa and outcomes vary."""
    init = []
    if rng.random() < 0.5:
        init += [["readme.txt", "hi"], ["data/other/function/a.mcfunction", "say a"]]
    overrides = [o for o in ("foo", "bar") if rng.random() < 0.3]
    # every directive that feeds namespace_overrides: #override, #link; the pack's own namespace through #link while the tree
    # accepts it (a header error once fixes/C10-reject-non-namespace-override.patch is in: then it is left out)
    if rng.random() < 0.25 and not c10.detect_variant().get("ns_checked"):
        overrides.append("ns")
    directive = {o: ("link" if o == "ns" or rng.random() < 0.35 else "override") for o in overrides}
    use_static = rng.random() < 0.3
    copy_src = None
    if rng.random() < 0.35:
        copy_src = [["top.txt", "T"], ["extra/x.txt", "X"]]
        if rng.random() < 0.4:
            copy_src.append(["data/zz/function/c.mcfunction", "say c"])
        # (round 4) the copied folder ships function tags with foreign entries (a library's load / tick function) and files at
        # the paths of generated ones
        if rng.random() < 0.6:
            copy_src.append(["data/minecraft/tags/function/load.json", canon(["lib:init"] + (["ns:stale"] if rng.random() < 0.5 else []))])
        if rng.random() < 0.35:
            copy_src.append(["data/minecraft/tags/function/tick.json", canon(["lib:tick", "ns:__tick__"])])
        if rng.random() < 0.3:
            copy_src += [["data/ns/function/f.mcfunction", "say copied f"], ["data/minecraft/loot_table/c.json", "{}"]]
    n_prefix = rng.choice([0, 1, 1, 2, 2, 3])
    builds = []
    statics: list[str] = []
    static_touch: list = []
    counter = [0]
    for i in range(n_prefix):
        fail = rng.choice([None, None, None, "lex", "build", "header"]) if i > 0 or rng.random() < 0.3 else None
        b = project(rng, overrides, statics, copy_src is not None, fail=fail, directive=directive)
        if fail is None and rng.random() < 0.15:
            b["oserror_path"] = rng.choice(["data/ns/jmc.txt", "data/ns/function", "data/minecraft/tags/function/load.json"])
        builds.append(b)
        if use_static and not statics and fail is None and "oserror_path" not in b:
            # the user now adds a hand-made folder and registers it
            statics = ["keep"] + (["../minecraft/keepmc"] if rng.random() < 0.5 else [])
            touch = [["data/ns/keep/a.txt", "precious"], ["data/ns/keep/sub/b.txt", "more"]]
            if len(statics) > 1:
                touch.append(["data/minecraft/keepmc/m.txt", "vanilla override"])
            builds.append(dict(project(rng, overrides, statics, copy_src is not None, directive=directive), touch=touch))
            static_touch = [list(t) for t in touch]
        elif statics and rng.random() < 0.6:
            b.update(static_edits(rng, static_touch, counter))
    last_over = overrides
    if builds and [o for o in overrides if o != "ns"] and rng.random() < 0.3:
        # the last project DROPS a directive an earlier build had: what that build wrote into data/<o> is not this build's to
        # delete (C10) and stays (known finding C11-dropped-override-left-behind; any OTHER stale file is a violation)
        gone = rng.choice([o for o in overrides if o != "ns"])
        last_over = [o for o in overrides if o != gone]
    last = project(rng, last_over, statics, copy_src is not None, directive=directive)
    if statics and rng.random() < 0.7:
        last.update(static_edits(rng, static_touch, counter))
    # (round 2) the pack format may change between builds, in both directions across 48
    for b in builds + [last]:
        if rng.random() < 0.3:
            b["pack_format"] = rng.choice(["26", "48", "61"])
    h = dict(ns="ns", pack_format=rng.choice(["48", "48", "26"]), desc="d", out_exists=rng.random() < 0.8, init=init,
             copy_src=copy_src, out_dotdot=rng.random() < 0.2, builds=builds, last=last, statics=statics,
             static_touch=static_touch if statics else [])
    if rng.random() < 0.35:         # (round 4) the way JMC is given its paths
        env = rng.choice(c10.PATH_ENVS)
        if h["out_exists"] or not env.get("needs_out"):
            h["out_dotdot"], h["paths"] = False, c10.path_env(env)
            respell(rng, h, env)
    return h


def respell(rng, h: dict, env: dict | None) -> None:
    """(round 4) every build of the history spells its `#static` arguments its own way"""
    for b in h["builds"] + [h["last"]]:
        if b.get("header"):
            b["header"] = re.sub(r'#static "([^"\n]*)"', lambda m: '#static "%s"' % c10.spell(rng, m.group(1), env, 0.3), b["header"])


LIB_TAGS = [["data/minecraft/tags/function/load.json", canon(["lib:init", "ns:stale_in_copy"])],
            ["data/minecraft/tags/function/tick.json", canon(["lib:tick"])],
            ["data/lib/function/init.mcfunction", "say lib init"]]


def copy_histories(rng, tier: str) -> list[dict]:
    """(round 4) `#copy` folders that carry function tags with foreign entries (`lib:init`) and files that collide with
    generated ones, across build - rebuild - rebuild sequences, with the directive added / removed between builds and combined
    with #static / #override.  `fresh_all`: EVERY successful build of the sequence is compared with the same project built
    into the initial tree (first build = rebuild = fresh build)."""
    base = dict(ns="ns", pack_format="48", desc="d", out_exists=True, init=[], statics=[], light=True, fresh_all=True)
    A = "\n".join([TICK, fn("f"), 'new advancement(x.y) {"a":1}'])
    B = fn("g")
    C = "#copy \"cp\""
    collide = [["data/ns/function/f.mcfunction", "say copied f"], ["data/ns/advancement/x/y.json", '{"copied": true}'],
               ["pack.mcmeta", '{"pack":{"pack_format":1,"description":"copied"}}'], ["data/minecraft/loot_table/x.json", "{}"],
               ["data/minecraft/tags/function/load.json", canon(["lib:init"])], ["top.txt", "T"]]
    hs = [
        # the rebuild window itself, every crash point: first build and rebuild ship lib:init / lib:tick, the tick function goes
        dict(base, light=False, copy_src=LIB_TAGS, builds=[dict(src=A, header=C)], last=dict(src=B, header=C)),
        # build - rebuild - rebuild - rebuild, sources alternate
        dict(base, copy_src=LIB_TAGS, builds=[dict(src=A, header=C), dict(src=A, header=C), dict(src=B, header=C)], last=dict(src=A, header=C)),
        # the directive is added after two builds ... and removed again: load.json then holds the own entry only
        dict(base, copy_src=LIB_TAGS, builds=[dict(src=A, header=None), dict(src=B, header=None), dict(src=B, header=C), dict(src=A, header=C)],
             last=dict(src=A, header=None)),
        dict(base, copy_src=LIB_TAGS, init=[["readme.txt", "hi"], ["data/other/function/a.mcfunction", "say a"]],
             builds=[dict(src=A, header=C), dict(src=B, header=None), dict(src=B, header=C)], last=dict(src=B, header=C + "\n#nometa")),
        # with an override namespace; a failing compile and a failed deletion in between
        dict(base, copy_src=LIB_TAGS + [["data/foo/function/libfoo.mcfunction", "say libfoo"]],
             builds=[dict(src=A + "\n" + fn("foo.h"), header="#override foo\n" + C), dict(src=A + "\n" + FAIL_LEX[0], header="#override foo\n" + C),
                     dict(src=B + "\n" + fn("foo.h"), header=C + "\n#override foo", oserror_path="data/ns/function")],
             last=dict(src=B + "\n" + fn("foo.i"), header="#override foo\n" + C)),
        # files of the copied folder at the paths of generated ones (f.mcfunction, x/y.json, pack.mcmeta) and inside data/minecraft
        dict(base, copy_src=collide, builds=[dict(src=A, header=C), dict(src=B, header=C), dict(src=A, header=C + "\n#nometa")],
             last=dict(src=B, header=C)),
        # pack format 26: the tags live in tags/functions, the copied tags/function/load.json is an ordinary file there
        dict(base, pack_format="26", copy_src=LIB_TAGS + [["data/minecraft/tags/functions/load.json", canon(["lib26:init"])]],
             builds=[dict(src=A, header=C), dict(src=B, header=C, pack_format="48")], last=dict(src=B, header=C)),
    ]
    # combined with #static: the copied tag wins over a shielded one; without #copy the shielded one keeps its foreign entries
    st = ["../minecraft/tags"]
    shield = [["data/minecraft/tags/function/load.json", canon(["hand:init", "ns:__load__"])], ["data/minecraft/tags/hand.txt", "h"]]
    hs.append(dict(base, fresh_all=False, copy_src=LIB_TAGS, statics=st,
                   static_touch=[list(x) for x in shield] + [["data/minecraft/tags/function/tick.json", canon(["lib:tick"])]],
                   builds=[dict(src=A, header=C), dict(src=A, header=C + '\n#static "../minecraft/tags"', touch=[shield[1]]),
                           dict(src=B, header='#static "../minecraft/tags"', touch=[shield[0]])],
                   last=dict(src=B, header='#static "../minecraft/tags"')))
    hs.append(dict(base, fresh_all=False, copy_src=LIB_TAGS, statics=st,
                   static_touch=[list(x) for x in shield] + [["data/minecraft/tags/function/tick.json", canon([])]],
                   builds=[dict(src=A, header=None), dict(src=B, header='#static "../minecraft/tags"', touch=shield)],
                   last=dict(src=B, header=C + '\n#static "../minecraft/tags"')))
    if tier != "quick":
        hs += [dict(h, light=False) for h in hs[1:4]]
    # path spellings: the same sequences with the output directory / #static arguments given another way
    for h in hs:
        if rng.random() < 0.5:
            env = rng.choice(c10.PATH_ENVS)
            h["paths"] = c10.path_env(env)
            respell(rng, h, env)
    return hs



def linked_output_histories(tier: str) -> list[dict]:
    """(round 5) REBUILDS with `#static` through every way of reaching the output directory (`c10.PATH_ENVS`: symbolic link
    to / above the output directory, link chain, `..` after a link, relative with `..`).  The lexically normalised spelling
    (os.path.abspath) and the link-resolved one (Path.resolve) of the static folder differ there: header, `rmtree` and
    `merged_func_tag` must agree on ONE of them.  first build - statics registered - plain rebuild - rebuild after a source
    change - (last) rebuild; every build spells its `#static` arguments another way; each build is tied to Model/Build.v
    with the statics computed from the header text (Model/BuildPath.v), the last one is compared with the fresh build."""
    A = "\n".join([TICK, fn("f"), 'new advancement(x.y) {"a":1}'])
    B = fn("g")
    sts = ["keep", "../minecraft/keepmc", "function/lib"]
    touch = [["data/ns/keep/a.txt", "precious"], ["data/ns/keep/sub/b.txt", "more"], ["data/minecraft/keepmc/m.txt", "m"],
             ["data/ns/function/lib/hand.mcfunction", "say lib"]]
    shield = [["data/minecraft/tags/function/load.json", canon(["hand:init", "ns:__load__"])], ["data/minecraft/tags/hand.txt", "h"]]
    hs = []
    for ei, env in enumerate(c10.PATH_ENVS):
        def hdr(k, names):
            return "\n".join('#static "%s"' % (lambda sp: sp[(ei + k + 3 * j) % len(sp)])(c10.static_spellings(st, env)) for j, st in enumerate(names))
        linked = bool(env.get("links"))
        hs.append(dict(ns="ns", pack_format="48", desc="d", out_exists=True, init=[], copy_src=None, paths=c10.path_env(env),
                       statics=list(sts), static_touch=[list(t) for t in touch] + [["data/ns/keep/new.txt", "new"]],
                       light=not (linked and (tier != "quick" or env["name"] in ("linked-output", "linked-chain"))),
                       builds=[dict(src=A, header=None), dict(src=A, header=hdr(0, sts), touch=[list(t) for t in touch]),
                               dict(src=A, header=hdr(1, sts)), dict(src=B, header=hdr(2, sts), touch=[["data/ns/keep/new.txt", "new"]])],
                       last=dict(src=A + "\n" + B, header=hdr(3, sts))))
        if linked:      # the function tags themselves shielded (`static in tag.resolve().parents`): foreign entries survive rebuilds
            tg = ["../minecraft/tags"]
            hs.append(dict(ns="ns", pack_format="48", desc="d", out_exists=True, init=[], copy_src=None, paths=c10.path_env(env), light=True,
                           statics=tg, static_touch=[list(x) for x in shield] + [["data/minecraft/tags/function/tick.json", canon([])]],
                           builds=[dict(src=A, header=None), dict(src=B, header=hdr(0, tg), touch=[list(x) for x in shield]),
                                   dict(src=B, header=hdr(1, tg))],
                           last=dict(src=B, header=hdr(2, tg))))
    return hs


# ---- strengthening round 1: #static folders whose NAME is string-related to a JMC-generated sibling that later disappears.
# `rmtree` must decide by path containment; a decision by string prefix / case-folded or reversed comparison shields the
# generated sibling (`function/util` vs `function/utils/x.mcfunction`, `adv` vs `advancement/`, `function/f` vs
# `function/f.mcfunction`, `../minecraft/tag` vs `data/minecraft/tags/...`), so files of a removed class survive the rebuild.
# statics = spellings as written after #static (relative to data/<ns>; `..`, `./`, trailing `/` are resolved by JMC),
# touch = what the user puts there, colliders = source parts whose output is a string-relative of a static.
ADV = 'new advancement(x.y) {"a":1}'
STATIC_FAMILIES = [
    dict(name="dir-prefix-of-class-folder", statics=["function/util"],
         touch=[["data/ns/function/util/hand.mcfunction", "say hand"], ["data/ns/function/util/sub/deep.mcfunction", "say deep"]],
         colliders=[fn("utils.x"), fn("util_b.y.z"), fn("utilx"), 'class Util2 { function w() { say "w"; } function v() { say "v"; } }']),
    dict(name="dir-prefix-of-function-file", statics=["function/f", "function/gg/"],
         touch=[["data/ns/function/f/hand.txt", "h"], ["data/ns/function/gg/hand.txt", "h2"]],
         colliders=[fn("f"), fn("fx"), fn("gg"), fn("ggg.h")]),
    dict(name="dir-prefix-of-json-folder", statics=["adv", "./pred", "jmc"],
         touch=[["data/ns/adv/n.txt", "n"], ["data/ns/pred/m.txt", "m"], ["data/ns/jmc/k.txt", "k"]],
         colliders=[ADV, 'new predicate(p) {"condition":"minecraft:random_chance","chance":0.5}', 'new advancement(adv2) {"b":2}']),
    dict(name="minecraft-tag-prefix", statics=["../minecraft/tag", "keep"],
         touch=[["data/minecraft/tag/m.txt", "mine"], ["data/ns/keep/a.txt", "precious"]],
         colliders=[TICK, fn("keeper.z")], tick_collider=True),
    dict(name="equal-up-to-case", statics=["function/Util", "Advancement", "function/A"],
         touch=[["data/ns/function/Util/hand.txt", "h"], ["data/ns/function/Util/X.mcfunction", "say hand X"],
                ["data/ns/Advancement/n.txt", "n"], ["data/ns/Advancement/X/Y.json", "{}"], ["data/ns/function/A/q.txt", "q"],
                ["data/ns/function/A/B.mcfunction", "say hand B"]],
         colliders=[fn("util.x"), ADV, fn("a.b"), fn("UTIL.y")]),
    dict(name="override-sibling", overrides=["foo"], statics=["../foo/adv", "../foo/function/h", "../foo/function/../keepfoo"],
         touch=[["data/foo/adv/n.txt", "n"], ["data/foo/function/h/hand.txt", "h"], ["data/foo/keepfoo/z.txt", "z"]],
         colliders=[fn("foo.h"), 'new advancement(foo.adv) {"b":2}', fn("foo.hh.i"), fn("foo.keepfoo2")]),
    dict(name="nested-statics", statics=["keep/", "keep/sub/../sub", "function/a/handmade", "function/a/handmade/inner"],
         touch=[["data/ns/keep/a.txt", "precious"], ["data/ns/keep/sub/b.txt", "more"], ["data/ns/keep/subway/c.txt", "c"],
                ["data/ns/function/a/handmade/h.mcfunction", "say h"], ["data/ns/function/a/handmade/inner/i.mcfunction", "say i"]],
         colliders=[fn("a.handmade2.q"), fn("a.b"), fn("a.handmad"), fn("a.deep.c"), fn("keep2.r")]),
    dict(name="same-basename-elsewhere", statics=["keep", "function/lib", "../minecraft/function"],
         touch=[["data/ns/keep/a.txt", "precious"], ["data/ns/function/lib/hand.mcfunction", "say lib"], ["data/minecraft/function/v.txt", "v"]],
         colliders=[fn("keep.y"), fn("x.lib.z"), 'new advancement(keep.q) {"c":3}', fn("lib2.lib.w"), TICK]),
    dict(name="generated-prefix-of-static", statics=["function/utils_keep", "advancement_old", "function/a.b"],
         touch=[["data/ns/function/utils_keep/h.txt", "h"], ["data/ns/advancement_old/o.json", "{}"], ["data/ns/function/a.b/d.txt", "d"]],
         colliders=[fn("utils.x"), ADV, fn("a.b"), fn("a")]),
]


def family_history(rng, fam: dict, light: bool) -> dict:
    """build 1: the colliders exist (no #static yet); build 2: the user adds the folders and registers them, some colliders
    still there; [a failing build]; last: (most of) the colliders are gone from the sources -> their files must be gone."""
    overrides = fam.get("overrides", [])
    hl = [f"#override {o}" for o in overrides] + [f'#static "{s}"' for s in fam["statics"]]
    rng.shuffle(hl)
    header = "\n".join(hl)
    header0 = "\n".join(f"#override {o}" for o in overrides) or None
    cols = list(fam["colliders"])
    others = [p for p in PARTS if rng.random() < 0.3 and p not in cols and "a.b" not in p and "a.deep" not in p and p != ADV]
    keep_in_last = [c for c in cols if rng.random() < 0.25][:len(cols) - 2]     # at least two colliders disappear
    second = cols

    def src(parts):
        parts = list(dict.fromkeys(parts)) or [fn("g")]
        rng.shuffle(parts)
        return "\n".join(parts)
    builds = [dict(src=src(cols + others), header=header0),
              dict(src=src(second + others + [fn("g")]), header=header, touch=fam["touch"])]
    if rng.random() < 0.4:
        builds.append(dict(src=src(cols) + "\n" + rng.choice(FAIL_LEX), header=header))
    if rng.random() < 0.4:
        builds.append(dict(src=src([c for c in cols if rng.random() < 0.5] + [fn("g")]), header=header))   # some colliders go ...
        builds.append(dict(src=src(cols + others), header=header))                                   # ... and come back
    last = dict(src=src(keep_in_last + others + [fn("g2")]), header=header)  # ... and disappear again
    # (round 2) the user keeps working inside the static folders between the builds of this one process
    content = [list(t) for t in fam["touch"]]
    counter = [0]
    for b in builds[2:] + [last]:
        b.update(static_edits(rng, content, counter))
    return dict(ns="ns", pack_format=rng.choice(["48", "48", "26"]), desc="d", out_exists=True, init=[], copy_src=None,
                out_dotdot=rng.random() < 0.3, builds=builds, last=last, statics=list(fam["statics"]),
                static_touch=content, family=fam["name"], light=light)


def family_histories(rng, tier: str) -> list[dict]:
    """quick: every family once without crash enumeration (the un-interrupted run, twice, and the comparison with the build into
    a tree holding only jmc.txt and the static content) + 1 family drawn from ck.rng with every crash point; thorough: x3 / all."""
    fams = [dict(f) for f in STATIC_FAMILIES]
    hs = []
    reps = 1 if tier == "quick" else 3
    for _ in range(reps):
        for f in fams:
            hs.append(pf_fix(family_history(rng, f, light=True)))
    heavy = rng.sample(fams, 1) if tier == "quick" else fams
    for f in heavy:
        hs.append(pf_fix(family_history(rng, f, light=False)))
    return hs


def pf_fix(h: dict) -> dict:
    """pack formats below 48 use the folder `functions`: rename the hand-made paths accordingly"""
    if float(h["pack_format"]) >= 48:
        return h
    def ren(pth):
        return pth.replace("/function/", "/functions/")
    h = copy.deepcopy(h)
    for b in h["builds"] + [h["last"]]:
        if b.get("touch"):
            b["touch"] = [[ren(p), c] for p, c in b["touch"]]
        if b.get("remove"):
            b["remove"] = [ren(p) for p in b["remove"]]
        if b.get("header"):
            b["header"] = b["header"].replace('"function/', '"functions/').replace("/function/", "/functions/").replace('/function"', '/functions"')
    h["static_touch"] = [[ren(p), c] for p, c in h.get("static_touch", [])]
    h["statics"] = [x.replace("function/", "functions/") for x in h["statics"]]
    return h


def fixed_histories() -> list[dict]:
    base = dict(ns="ns", pack_format="48", desc="d", out_exists=True, init=[], copy_src=None, statics=[])
    A = "\n".join([TICK, fn("f"), 'new advancement(x.y) {"a":1}'])
    B = fn("g")
    return [
        # the pinned crash window: A with tick, B without
        dict(base, builds=[dict(src=A, header=None)], last=dict(src=B, header=None)),
        # with an override namespace and private functions
        dict(base, builds=[dict(src=A + "\n" + fn("foo.h"), header="#override foo")],
             last=dict(src=B + "\n" + fn("branch", 'if ($x == 1) { say "a"; say "b"; }'), header="#override foo")),
        # first build of all, output directory absent
        dict(base, out_exists=False, builds=[], last=dict(src=A, header=None)),
        # statics registered after the first build
        dict(base, statics=["keep", "../minecraft/keepmc"],
             static_touch=[["data/ns/keep/a.txt", "precious"], ["data/minecraft/keepmc/m.txt", "m"]],
             builds=[dict(src=A, header=None),
                     dict(src=A, header='#static "keep"\n#static "../minecraft/keepmc"',
                          touch=[["data/ns/keep/a.txt", "precious"], ["data/minecraft/keepmc/m.txt", "m"]])],
             last=dict(src=B, header='#static "keep"\n#static "../minecraft/keepmc"')),
        # (round 1) the override namespace IS minecraft: data/minecraft is deleted as an override and as the tag folder
        dict(base, builds=[dict(src=A + "\n" + fn("minecraft.mcf") + "\n" + fn("minecraft.old.x"), header="#override minecraft")],
             last=dict(src=B + "\n" + fn("minecraft.mcf"), header="#override minecraft")),
        # (round 1) two override namespaces: their deletion order is the iteration order of a set of Paths (depends on the
        # temporary path); the injected failure at the very first deletion leaves it unobserved -> retry_override_orders
        dict(base, builds=[dict(src=A + "\n" + fn("foo.h") + "\n" + fn("bar.x.y"), header="#override foo\n#override bar")],
             last=dict(src=B + "\n" + fn("bar.x.z"), header="#override bar\n#override foo")),
        # (round 2) the pack format crosses 48 between builds (tags/function <-> tags/functions): 48 -> 26 -> 61, and 26 -> 48
        dict(base, builds=[dict(src=A, header=None), dict(src=A, header=None, pack_format="26")],
             last=dict(src=B, header=None, pack_format="61")),
        dict(base, pack_format="26", light=True, builds=[dict(src=A, header=None), dict(src=B + "\n" + TICK, header=None, pack_format="48")],
             last=dict(src=B, header=None, pack_format="26")),
        # (round 2) one process, the same #static set in every build, the user edits the static folder in between
        dict(base, light=True, statics=["keep"], static_touch=[["data/ns/keep/a.txt", "edited"], ["data/ns/keep/new.txt", "new"], ["data/ns/keep/sub/l.txt", "l"]],
             builds=[dict(src=A, header=None),
                     dict(src=A, header='#static "keep"', touch=[["data/ns/keep/a.txt", "precious"], ["data/ns/keep/old.txt", "old"]]),
                     dict(src=B, header='#static "keep"', touch=[["data/ns/keep/new.txt", "new"], ["data/ns/keep/a.txt", "edited"]])],
             last=dict(src=A, header='#static "keep"', touch=[["data/ns/keep/sub/l.txt", "l"]], remove=["data/ns/keep/old.txt"])),
        # a failed compile and a failed deletion in between
        dict(base, builds=[dict(src=A, header=None), dict(src='function g() { say "g" }', header=None),
                           dict(src=A, header=None, oserror_path="data/ns/function")], last=dict(src=B, header=None)),
    ] + triage_histories()


def triage_histories() -> list[dict]:
    """(reports/C10C11-triage.md) directives that feed namespace_overrides other than `#override <foreign>`, override sets that
    change, #static folders that ARE a deleted folder or shield the function tags."""
    base = dict(ns="ns", pack_format="48", desc="d", out_exists=True, init=[], copy_src=None, statics=[])
    A = "\n".join([TICK, fn("f"), 'new advancement(x.y) {"a":1}'])
    B = fn("g")
    hs = [
        # `#link <own namespace>`: data/ns is then one of the override folders.  Deleted with them (before data/minecraft) a kill
        # in that window leaves a tree without namespace folder whose stale tick.json the re-run keeps.  (Every crash point.)
        dict(base, builds=[dict(src=A + "\n" + fn("ns.q"), header="#link ns")], last=dict(src=B, header="#link ns")),
        dict(base, quick_light=True, builds=[dict(src=A + "\n" + fn("ns.q") + "\n" + fn("foo.h"), header="#link ns\n#override foo")],
             last=dict(src=B + "\n" + fn("foo.i"), header="#override foo\n#link ns")),
        # `#link <foreign>` deletes and writes data/foo like #override
        dict(base, builds=[dict(src=A + "\n" + fn("foo.h") + "\n" + fn("foo.old.x"), header="#link foo")],
             last=dict(src=B + "\n" + fn("foo.h"), header="#link foo")),
        # a dropped directive (light): build 1 overrides foo and links bar, the last build only links bar
        dict(base, light=True, builds=[dict(src=A + "\n" + fn("foo.h") + "\n" + fn("bar.x.y"), header="#override foo\n#link bar")],
             last=dict(src=B + "\n" + fn("bar.x.z"), header="#link bar")),
        dict(base, builds=[dict(src=A + "\n" + fn("foo.h"), header="#override foo"), dict(src=A, header=None)],
             last=dict(src=B, header=None)),
        # #static over the folder of the function tags: the tick function disappears, tick.json must not keep naming it
        dict(base, statics=["../minecraft/tags/function"], static_touch=[["data/minecraft/tags/function/mine.json", canon(["other:x"])]],
             builds=[dict(src=A, header=None),
                     dict(src=A, header='#static "../minecraft/tags/function"', touch=[["data/minecraft/tags/function/mine.json", canon(["other:x"])]])],
             last=dict(src=B, header='#static "../minecraft/tags/function"')),
        # #static that IS data/minecraft / the folder of an overridden namespace (whose generated content does not change)
        dict(base, quick_light=True, statics=["../minecraft"], static_touch=[["data/minecraft/loot_table/x.json", "{}"]],
             builds=[dict(src=A, header=None),
                     dict(src=A, header='#static "../minecraft"', touch=[["data/minecraft/loot_table/x.json", "{}"]])],
             last=dict(src=B, header='#static "../minecraft"')),
        dict(base, quick_light=True, statics=["../foo"], static_touch=[["data/foo/hand/k.txt", "k"]],
             builds=[dict(src=A + "\n" + fn("foo.h"), header="#override foo"),
                     dict(src=A + "\n" + fn("foo.h"), header='#override foo\n#static "../foo"', touch=[["data/foo/hand/k.txt", "k"]])],
             last=dict(src=B + "\n" + fn("foo.h"), header='#static "../foo"\n#override foo')),
    ]
    return hs


# ----------------------------------------------------------------------------------- Coq terms

def prev_overrides(builds: list, idx: int) -> list[str]:
    """namespaces an EARLIER successful build of the same run overrode / linked and build idx does not (Run.C11 r_prev)"""
    now = set(builds[idx]["facts"].get("overrides") or [])
    seen: list[str] = []
    for b in builds[:idx]:
        if real_result(b) == "RDone":
            for o in b["facts"].get("overrides") or []:
                if o not in now and o not in seen and c10.plain_name(o):
                    seen.append(o)
    return seen


def refused_for_tag(b_rec: dict) -> bool:
    """The re-run stopped with JMC's MalformedJsonException / missing-"values" error for a function tag before any mutation.
    After a kill this happens when the tag file is shielded by a #static folder (so the rebuild does not delete it) and the kill
    fell into its non-atomic rewrite: the message tells the user to delete the file, nothing is modified - a refusal in the
    sense of C11 (the theorem's static_safe hypothesis excludes statics that contain files the build writes)."""
    return real_result(b_rec) == "RTagErr" and not b_rec["trace"] and b_rec["before"] == b_rec["after"]


def shielded_tag_kill(job: dict, b_crash: dict) -> bool:
    """the kill fell on the create / write of load.json | tick.json inside a #static folder"""
    ev = b_crash["trace"][-1] if b_crash["trace"] else None
    if not ev or ev[0] not in ("create", "write") or not re.fullmatch(r"data/minecraft/tags/functions?/(load|tick)\.json", ev[1]):
        return False
    return any(st == "." or ev[1].startswith(st + "/") for st in c10.spelled_statics(b_crash["facts"], job.get("ns", "ns")))


def rcase_term(job, b_rec: dict, pre_snap, mid_snap, oracle_snap, prev: list[str] | None = None) -> str:
    """(re-)run b_rec of job, compared with oracle_snap."""
    f = b_rec["facts"]
    ns, pf = job.get("ns", "ns"), f.get("pack_format") or job.get("pack_format", "48")
    ff = f.get("ff") or ("function" if float(pf) >= 48 else "functions")
    names = c10.cert_names(b_rec["before"], ns)
    nm = dict(names)
    cert_text = "\n".join(f"{k}={v}" for k, v in names)
    cfg = f"(mkCfg {coq_str(ns)} {coq_str(ff)} {coq_str(cert_text)} {coq_str(nm['LOAD'])} {coq_str(nm['TICK'])})"
    hdr = c10.hdr_term(dict(f, nometa=False), cfg, f.get("overrides", []), "None", ns)
    refused = real_result(b_rec) == "RRefused" or refused_for_tag(b_rec)
    trace = coq_list(op_term(ev, ff) for ev in b_rec["trace"])
    if not c10.detect_variant().get("ns_checked") and not all(c10.plain_name(o) for o in f.get("overrides", [])):
        raise Unmodelled("override namespaces")
    return (f"(mkR {cfg} {hdr} {'true' if refused else 'false'} {trace} {flat_term(pre_snap, ff)} "
            f"{flat_term(mid_snap, ff)} {flat_term(b_rec['after'], ff)} {flat_term(oracle_snap, ff)} "
            f"{coq_list(coq_str(o) for o in (prev or []))})")


def eval_rcodes(terms: list[str], per_file: int = 25, prefix: str = "rcases"):
    files = []
    for fi, start in enumerate(range(0, len(terms), per_file)):
        chunk = terms[start:start + per_file]
        files.append((f"{prefix}_{fi}.v", COQ_HEADER + c10.SHARE.with_defs("Definition rs : list rcase := [\n" + ";\n".join(chunk) +
                                                                           "\n].\nEval vm_compute in rcodes rs.\n")))
    outs = run_coq_files(PROP, files, timeout=600, clean=False)
    codes, errs = [], []
    for fi, (ok, out) in enumerate(outs):
        n = len(terms[fi * per_file:(fi + 1) * per_file])
        if not ok:
            errs.append(f"{files[fi][0]}: {out[-2500:]}")
            codes += [None] * n
            continue
        got = parse_nat_list(out)
        codes += got if len(got) == n else [None] * n
    return codes, errs


# ----------------------------------------------------------------------------------- the check

RBITS = {1: "the re-run was refused but modified the tree", 2: "the recovered tree differs from the un-interrupted / fresh build",
         4: "#static content changed",
         8: "a file of an earlier build survives in the folder of a namespace that build overrode / linked and this one does not"}


def retry_override_orders(tmeta: list, codes: list, errs: list, prefix: str = "cases_perm") -> int:
    """compiling.build deletes the override folders in the iteration order of a Python *set of Paths*, which depends on the
    hash of the (temporary) output path.  case_term infers the order from the first deletion seen per folder; when a folder is
    never touched (absent, or the run stopped / was killed / hit the injected fault earlier) the order is undetermined and the
    alphabetical guess may be the wrong one.  Build.run takes the order as part of the header and every theorem quantifies
    over all headers, so a real run agrees with the model iff SOME order reproduces it (an order contradicting the observed
    deletions cannot: its plan differs from the trace).  Cases with >= 2 overrides and a non-zero code are re-evaluated under
    the other permutations; codes[] is updated in place.  -> number of cases settled by a permutation."""
    import itertools
    retry = []
    for i, ((tag, job, bi, b, info), code) in enumerate(zip(tmeta, codes)):
        if code and len(info["overrides"]) >= 2:
            for perm in itertools.permutations(info["overrides"]):
                if list(perm) != list(info["overrides"]):
                    try:
                        retry.append((i, list(perm), case_term(job, bi, b, ov_order=list(perm))[0]))
                    except Unmodelled:
                        pass
    if not retry:
        return 0
    pcodes, perrs = c10.eval_codes(PROP, [t for _, _, t in retry], prefix=prefix)
    errs += perrs
    settled = 0
    for (i, perm, _), c in zip(retry, pcodes):
        if c == 0 and codes[i]:
            codes[i] = 0
            tmeta[i][4]["overrides"] = perm
            tmeta[i][4]["override_order_inferred_by_retry"] = True
            settled += 1
    return settled


def job_of(h: dict, tail: list[dict]) -> dict:
    j = {k: v for k, v in h.items() if k not in ("builds", "last", "statics", "static_touch", "family", "light", "quick_light", "fresh_all")}
    j["builds"] = copy.deepcopy(h["builds"]) + tail
    return j


def crash_point_desc(b: dict) -> dict:
    ev = b["trace"][-1] if b["trace"] else None
    return dict(k=b["n_mut"], op=ev[0] if ev else None, path=ev[1] if ev else None)


def is_torn_cert(job, b_crash) -> bool:
    ev = b_crash["trace"][-1] if b_crash["trace"] else None
    return bool(ev and ev[0] == "write" and ev[1] == f"data/{job.get('ns', 'ns')}/jmc.txt")


def main(tier: str) -> int:
    ck = Check(PROP, tier)
    ck.cov["trusted_base"] = c10.TRUSTED + [
        "crash = KeyboardInterrupt raised by harness/fstrace.py right after the k-th mutating call returned (for a write: after "
        "close, with the file cut to half its bytes); power-loss reordering below the system-call level is outside the model",
    ]
    ck.proof(extra_targets=["Run/C10.vo", "Run/C11.vo"])
    n_rand = 6 if tier == "quick" else 36
    hs = fixed_histories() + [gen_history(ck.rng) for _ in range(n_rand)] + family_histories(ck.rng, tier) + copy_histories(ck.rng, tier) + linked_output_histories(tier)
    for h in hs:
        if h.pop("quick_light", False) and tier == "quick":
            h["light"] = True          # quick tier: the un-interrupted run, twice and the fresh comparison only
    known = {f["id"]: f for f in known_for(PROP)}
    cert0 = "\n".join(f"{k}={v}" for k, v in DEFAULT_CERT)

    # phase 1: un-interrupted history (last build twice) and the build into an empty directory
    base_jobs = [job_of(h, [dict(h["last"]), dict(h["last"])]) for h in hs]
    # the tree the last project is built into for C11_fresh: empty, or - when #static folders are declared - a startable
    # tree holding nothing but jmc.txt and the same static content (the statics must exist for the header to be accepted)
    fresh_jobs = [dict(ns=h["ns"], pack_format=h["pack_format"], desc=h["desc"], out_exists=True,
                       init=h["init"] + ([[f"data/{h['ns']}/jmc.txt", cert0]] + h.get("static_touch", []) if h["statics"] else []),
                       copy_src=h["copy_src"], out_dotdot=bool(h.get("out_dotdot")), paths=h.get("paths"), builds=[dict(h["last"])]) for h in hs]
    # (round 4) `fresh_all` histories: EVERY build of the sequence against the same project built into the initial tree
    every_jobs, every_meta = [], []
    for hi, h in enumerate(hs):
        if h.get("fresh_all") and not h["statics"]:
            for bi, b in enumerate(h["builds"]):
                spec = {k: v for k, v in b.items() if k not in ("touch", "remove", "oserror_path", "crash_at", "torn")}
                every_jobs.append(dict(fresh_jobs[hi], builds=[spec]))
                every_meta.append((hi, bi))
    base_res = run_jobs(base_jobs)
    fresh_res = run_jobs(fresh_jobs)
    every_res = run_jobs(every_jobs)

    # phase 2: one job per crash point of the last build (+ a few injected deletion failures), then the recovery compile
    crash_jobs, meta = [], []
    for hi, (h, r) in enumerate(zip(hs, base_res)):
        if "runner_error" in r:
            ck.violation(dict(kind="runner-error", history=h, log=r["runner_error"]), no_input=True)
            continue
        nb = len(h["builds"])
        n_mut = r["builds"][nb]["n_mut"]
        if h.get("light"):
            continue          # static-name family run without crash enumeration
        failing = dict(h["last"], src=h["last"]["src"] + "\n" + FAIL_LEX[0])
        for k in range(1, n_mut + 1):
            crash_jobs.append(job_of(h, [dict(h["last"], crash_at=k), dict(h["last"])]))
            meta.append((hi, "crash", k))
            if r["builds"][nb]["trace"][k - 1][0] == "write":      # a second way of tearing the same write
                crash_jobs.append(job_of(h, [dict(h["last"], crash_at=k, torn=[2, 5]), dict(h["last"])]))
                meta.append((hi, "crash", k))
            # (round 1) longer tails: a failing compile between the kill and the re-run; a second kill during the re-run
            u = ck.rng.random()
            if u < 0.05:
                crash_jobs.append(job_of(h, [dict(h["last"], crash_at=k), failing, dict(h["last"])]))
                meta.append((hi, "crash+failed-compile", k))
            elif u < 0.12:
                k2 = ck.rng.randint(1, n_mut)
                crash_jobs.append(job_of(h, [dict(h["last"], crash_at=k), dict(h["last"], crash_at=k2), dict(h["last"])]))
                meta.append((hi, "crash+crash", (k, k2)))
        dels = [ev[1] for ev in r["builds"][nb]["trace"] if ev[0] in ("unlink", "rmdir")]
        if not h["statics"]:
            for pth in dels[:: max(1, len(dels) // 3)][:3]:
                crash_jobs.append(job_of(h, [dict(h["last"], oserror_path=pth), dict(h["last"])]))
                meta.append((hi, "oserror", pth))
    crash_res = run_jobs(crash_jobs, chunk=8)

    # --- Coq: correspondence of every real run with the model (Run.C10.case) + recovery comparisons (Run.C11.rcase)
    terms, tmeta, rterms, rmeta, unmodelled = [], [], [], [], 0
    oracles: list = []
    crash_res_of: dict = {}

    def add_case(job, bi, b, tag):
        nonlocal unmodelled
        try:
            t, info = case_term(job, bi, b)
            terms.append(t)
            tmeta.append((tag, job, bi, b, info))
        except Unmodelled:
            unmodelled += 1

    def add_r(job, b_rec, pre, mid, oracle, tag, prev=None):
        nonlocal unmodelled
        try:
            rterms.append(rcase_term(job, b_rec, pre, mid, oracle, prev))
            rmeta.append((tag, job, b_rec))
            oracles.append(oracle)
        except Unmodelled:
            unmodelled += 1

    for hi, (h, r, fr) in enumerate(zip(hs, base_res, fresh_res)):
        if "runner_error" in r or "runner_error" in fr:
            continue
        nb = len(h["builds"])
        for bi, b in enumerate(r["builds"]):
            add_case(base_jobs[hi], bi, b, ("base", hi, bi))
        add_case(fresh_jobs[hi], 0, fr["builds"][0], ("fresh", hi, 0))
        first, second = r["builds"][nb], r["builds"][nb + 1]
        if real_result(first) != "RDone":
            continue
        # C11_fresh: vs the build into an empty directory / into the tree holding only jmc.txt and the static content
        if real_result(fr["builds"][0]) == "RDone":
            add_r(base_jobs[hi], first, first["before"], first["before"], fr["builds"][0]["after"],
                  ("fresh-vs-statics-only" if h["statics"] else "fresh-vs-empty", hi), prev=prev_overrides(r["builds"], nb))
        # C11_twice
        add_r(base_jobs[hi], second, first["after"], first["after"], first["after"], ("twice", hi), prev=prev_overrides(r["builds"], nb + 1))
    fresh_job_of: dict = {}
    for (hi, bi), fj, fr in zip(every_meta, every_jobs, every_res):
        r = base_res[hi]
        if "runner_error" in r or "runner_error" in fr:
            continue
        b, fb = r["builds"][bi], fr["builds"][0]
        add_case(fj, 0, fb, ("fresh-every", hi, bi))
        if real_result(b) == "RDone" and real_result(fb) == "RDone":
            fresh_job_of[(hi, bi)] = fj
            add_r(base_jobs[hi], b, b["before"], b["before"], fb["after"], ("fresh-vs-empty", hi, bi), prev=prev_overrides(r["builds"], bi))
    for (hi, kind, k), job, r in zip(meta, crash_jobs, crash_res):
        if "runner_error" in r:
            ck.violation(dict(kind="runner-error", history=job, log=r["runner_error"]), no_input=True)
            continue
        nb = len(hs[hi]["builds"])
        bc, brec = r["builds"][nb], r["builds"][-1]
        for bi in range(nb, len(r["builds"]) - 1):
            add_case(job, bi, r["builds"][bi], ("crash-build" if bi == nb else "tail-build", hi, kind, k))
        add_case(job, len(r["builds"]) - 1, brec, ("recovery-build", hi, kind, k))
        oracle = base_res[hi]["builds"][nb]["after"]
        torn_b = next((b for b in r["builds"][nb:-1] if is_torn_cert(job, b)), bc)
        crash_res_of[id(brec)] = [bk for bk in r["builds"][nb:-1] if real_result(bk) == "CRASH"]
        add_r(job, brec, bc["before"], brec["before"], oracle, ("recover", hi, kind, k, torn_b),
              prev=prev_overrides(r["builds"], len(r["builds"]) - 1))

    codes, errs = c10.eval_codes(PROP, terms, prefix="cases")
    n_perm = retry_override_orders(tmeta, codes, errs)
    rcodes, rerrs = eval_rcodes(rterms)
    for e in errs + rerrs:
        ck.violation(dict(kind="correspondence-file-failed", log=e), no_input=True)

    reported = set()
    torn_keys = set()
    order = sorted(range(len(codes)), key=lambda i: 0 if (codes[i] or 0) & 248 else 1)     # property violations first
    tmeta, codes = [tmeta[i] for i in order], [codes[i] for i in order]
    for (tag, job, b_rec), rc in zip(rmeta, rcodes):
        if tag[0] == "recover" and is_torn_cert(job, tag[4]):
            torn_keys.add((tag[1], tag[2], tag[3]))
    n_case_bad = 0
    for (tag, job, bi, b, info), code in zip(tmeta, codes):
        if not code:
            continue
        n_case_bad += 1
        if code in reported:
            continue
        reported.add(code)
        rec = dict(job=job, bi=bi, build=b, code=code, prop=PROP)
        obj = c10.replay_obj(rec, f"{tag[0]}: real run differs from Model/Build.v" if not code & 248 else
                             f"{tag[0]}: property violated on a real run")
        obj["tag"] = [str(x) for x in tag[:4]]
        ck.violation(obj, no_input=not (code & 248))
    n_r_bad, n_recover, n_refused = 0, 0, 0
    n_dropped = 0
    for ((tag, job, b_rec), rc), oracle in zip(zip(rmeta, rcodes), oracles):
        if tag[0] == "recover":
            n_recover += 1
            n_refused += real_result(b_rec) == "RRefused"
        res = real_result(b_rec)
        unexpected = res not in ("RDone", "RRefused")
        if unexpected and tag[0] == "recover" and refused_for_tag(b_rec) and any(
                shielded_tag_kill(job, bk) for bk in crash_res_of[id(b_rec)]):
            unexpected = False          # refused (malformed shielded tag after the kill), nothing modified
            n_refused += 1
        if rc and rc & 8 and not unexpected:
            # stale files ONLY below data/<o>, o overridden / linked by an earlier successful build and not by this one
            fid = "C11-dropped-override-left-behind"
            if fid in known or fid in PROPOSED_KNOWN:
                n_dropped += 1
                ck.known(fid, (known.get(fid) or PROPOSED_KNOWN[fid])["what"])
                rc &= ~8
        if rc and rc & 2 and not unexpected and not c10.detect_variant().get("tick_refresh") and stale_tick_only(job, b_rec, oracle):
            fid = "C11-stale-own-tick-entry"
            if fid in known or fid in PENDING_FIXES:
                ck.known(fid, (known.get(fid) or PENDING_FIXES[fid])["what"])
                rc &= ~2
        if not rc and not unexpected:
            continue
        if tag[0] == "recover" and is_torn_cert(job, tag[4]) and rc == 2 and not unexpected:
            fid = "C11-torn-cert"
            if fid in known:
                ck.known(fid, known[fid]["what"])
                continue
        n_r_bad += 1
        key = (tag[0], rc, res)
        if key in reported:
            continue
        reported.add(key)
        bits = [RBITS[k] for k in RBITS if rc and rc & k] + ([f"the re-run ended with {b_rec['exc']}"] if unexpected else [])
        ck.violation(dict(kind=f"{tag[0]}: " + "; ".join(bits), history=job, check=tag[0],
                          crash_point=crash_point_desc(tag[4]) if tag[0] == "recover" else None,
                          fresh_job=(fresh_job_of.get((tag[1], tag[2])) if len(tag) > 2 else fresh_jobs[tag[1]]) if tag[0].startswith("fresh-vs") else None,
                          build_index=tag[2] if tag[0].startswith("fresh-vs") and len(tag) > 2 else None,
                          rerun=dict(result=res, exc=b_rec["exc"], changed=c10.describe_change(b_rec)),
                          expected="the re-run yields, inside data/<ns>, data/<override>, data/minecraft and at every path it writes, "
                                   "the files of the un-interrupted build, or is refused without modifying anything; #static unchanged",
                          how_to_replay="./check C11 --replay <this file>"))
    crash_points = [m for m in meta if m[1].startswith("crash")]
    ck.cov.update(dict(
        evaluations=len(terms) + len(rterms), distinct_nontrivial=len(crash_points),
        rule="per history: the un-interrupted run (last build twice), the last build into an empty directory, and for EVERY mutation k of "
             "the last build a re-run of the whole history killed right after mutation k (torn write if a write) followed by a recovery "
             "compile, plus injected deletion failures; each real run is a Run.C10.case (trace/tree/result == model), each recovery a "
             "Run.C11.rcase (recovered tree vs un-interrupted tree, vs empty-directory build, twice); distinct_nontrivial = number of "
             "distinct (history, crash point, way of tearing the write) triples",
        programs=len(hs), histories=len(hs), crash_points=len(crash_points), oserror_points=len(meta) - len(crash_points),
        recoveries=n_recover, recoveries_refused=n_refused, model_cases=len(terms), recovery_cases=len(rterms),
        disagreements_checked=n_case_bad + n_r_bad, unmodelled_skipped=unmodelled,
        override_orders_settled_by_permutation=n_perm, dropped_override_comparisons=n_dropped,
        static_name_families=dict(
            families=[f["name"] for f in STATIC_FAMILIES],
            histories=sum(1 for h in hs if h.get("family")), with_crash_enumeration=sorted(h["family"] for h in hs if h.get("family") and not h.get("light")),
            fresh_vs_statics_only_comparisons=sum(1 for t, _, _ in rmeta if t[0] == "fresh-vs-statics-only")),
        longer_tails=dict(crash_then_failed_compile=sum(1 for m in meta if m[1] == "crash+failed-compile"),
                          crash_then_crash=sum(1 for m in meta if m[1] == "crash+crash")),
        samples=[dict(history=[b.get("header") for b in h["builds"]] + [h["last"].get("header")], n_prefix_builds=len(h["builds"]),
                      crash_points=base_res[i]["builds"][len(h["builds"])]["n_mut"] if "builds" in base_res[i] else None)
                 for i, h in enumerate(hs[:6])],
        variant=c10.current_variant(), variant_probe=dict(c10.detect_variant()),
    ))
    return ck.finish()


def replay(path: str) -> int:
    obj = json.loads(open(path).read())
    job = obj["history"]
    print("expected:", obj.get("expected"))
    print("recorded:", obj.get("kind"), obj.get("crash_point"))
    r = run_jobs([job])[0]
    if "runner_error" in r:
        print("actual: runner error", r["runner_error"])
        return 1
    terms, tm = [], []
    for bi, b in enumerate(r["builds"]):
        try:
            t, info = case_term(job, bi, b)
            terms.append(t)
            tm.append(("replay", job, bi, b, info))
        except Unmodelled as e:
            print("build", bi, "unmodelled:", e)
    codes, errs = c10.eval_codes(PROP, terms, prefix="replay")
    retry_override_orders(tm, codes, errs, prefix="replay_perm")
    last = r["builds"][-1]
    if obj.get("fresh_job"):
        # C11_fresh: the last build of the history vs the same project built into a tree that holds only jmc.txt + the statics
        nb = len(job["builds"]) - 2          # the un-interrupted history ends with the last project built twice
        if obj.get("build_index") is not None:
            nb = obj["build_index"]          # (round 4) an earlier build of the sequence against its own fresh build
        first = r["builds"][nb]
        fr = run_jobs([obj["fresh_job"]])[0]["builds"][0]
        print("actual: last build:", real_result(first), "| fresh build:", real_result(fr), fr["exc"])
        rt = rcase_term(job, first, first["before"], first["before"], fr["after"], prev_overrides(r["builds"], nb))
        rcodes, rerrs = eval_rcodes([rt], prefix="replay_r")
        bits = [RBITS[k] for k in RBITS if rcodes[0] and rcodes[0] & k]
        got, want = dict(first["after"]), dict(fr["after"])
        diff = sorted(p for p in set(got) | set(want) if got.get(p) != want.get(p) and (got.get(p) is not None or want.get(p) is not None))
        print("actual: files differing from the fresh build (stale = present only after the history):",
              [(p, "stale" if p not in want else "missing" if p not in got else "differs") for p in diff])
        print("actual failed checks:", bits or "none")
        return 1 if bits else 0
    print("actual: model-correspondence codes per build:", codes, errs)
    print("actual: re-run result:", real_result(last), last["exc"])
    # oracle: the same history without the interruption
    clean_job = copy.deepcopy(job)
    for b in clean_job["builds"]:
        b.pop("crash_at", None)
        b.pop("oserror_path", None)
    clean_job["builds"] = clean_job["builds"][:-1]
    orc = run_jobs([clean_job])[0]["builds"][-1]
    rt = rcase_term(job, last, r["builds"][-2]["before"], r["builds"][-2]["after"], orc["after"],
                    prev_overrides(r["builds"], len(r["builds"]) - 1))
    rcodes, rerrs = eval_rcodes([rt], prefix="replay_r")
    bits = [RBITS[k] for k in RBITS if rcodes[0] and rcodes[0] & k]
    got, want = dict(last["after"]), dict(orc["after"])
    diff = sorted(p for p in set(got) | set(want) if got.get(p) != want.get(p) and (got.get(p) is not None or want.get(p) is not None))
    print("actual: files differing from the un-interrupted build:", diff)
    print("actual failed checks:", bits or "none")
    return 1 if (bits or any(codes)) else 0
