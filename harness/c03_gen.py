"""C03 generators: formulas, token lists, JMC source text, Coq terms.

formula  := {"op": "atom", "atom": A} | {"op": "and"|"or", "args": [formula, ...]} | {"op": "not", "arg": formula}
atom A   := {"kind": "truthy", "lhs": S}
          | {"kind": "cmp", "lhs": S, "sp": "=="|"==="|"="|"!="|"!=="|"<"|"<="|">"|">=", "rhs": ["lit", z, text] | ["score", S]}
          | {"kind": "matches", "lhs": S, "a": int, "b": int}
S        := "$name" | "objective:selector"
token    := {"t": "atom", "atom": A} | {"t": "or"} | {"t": "and"} | {"t": "not"} | {"t": "paren", "l": [token, ...]}
"""
from __future__ import annotations

from lib import INT_MAX, INT_MIN, coq_str, coq_z

CERTS = [
    dict(LOAD="__load__", TICK="__tick__", PRIVATE="__private__", VAR="__variable__", INT="__int__", STORAGE="__storage__"),
    dict(LOAD="init", TICK="loop", PRIVATE="priv", VAR="v", INT="i", STORAGE="stor"),
    dict(LOAD="l0ad", TICK="t1ck", PRIVATE="__p__", VAR="var.s", INT="const-int", STORAGE="s_t"),
]
POSITIONS = ["if", "ifelse", "elif", "elif_mid", "elif2", "while", "dowhile", "for", "forp",
             "expand", "async_while", "async_for", "async_forp"]
# `$if` (macro if): covered only on a tree that has fixes/C03-macro-if-lines.patch (see c03.py macro_if_supported)
MACRO_POSITIONS = ["mif", "mif1", "mif_expand"]
SPELL = {"==": "SEq2", "===": "SEq3", "=": "SEq1", "!=": "SNe", "!==": "SNe3", "<": "SLt", "<=": "SLe", ">": "SGt", ">=": "SGe"}
COP = {"==": "eq", "===": "eq", "=": "eq", "!=": "ne", "!==": "ne", "<": "lt", "<=": "le", ">": "gt", ">=": "ge"}
BODY = 'say "B1"; say "B2";'


def cert_text(c):
    return "\n".join(f"{k}={v}" for k, v in c.items())


def names_term(c, ns="TEST"):
    return (f'(mkNames {coq_str(ns)} {coq_str(c["VAR"])} {coq_str(c["INT"])} {coq_str(c["PRIVATE"])} '
            f'{coq_str(c["LOAD"])} {coq_str(c["TICK"])} {coq_str(c["STORAGE"])})')


def score_of(src: str, cert):
    if src.startswith("$"):
        return (src, cert["VAR"])
    obj, sel = src.split(":", 1)
    return (sel, obj)


# ------------------------------------------------------------------ formula helpers

def A(atom):
    return {"op": "atom", "atom": atom}


def And(*xs):
    return {"op": "and", "args": list(xs)}


def Or(*xs):
    return {"op": "or", "args": list(xs)}


def Not(x):
    return {"op": "not", "arg": x}


def atoms_of(f):
    if f["op"] == "atom":
        return [f["atom"]]
    if f["op"] == "not":
        return atoms_of(f["arg"])
    return [a for x in f["args"] for a in atoms_of(x)]


def connectives(f):
    if f["op"] == "atom":
        return 0
    if f["op"] == "not":
        return 1 + connectives(f["arg"])
    return 1 + sum(connectives(x) for x in f["args"])


def depth(f):
    if f["op"] == "atom":
        return 0
    if f["op"] == "not":
        return 1 + depth(f["arg"])
    return 1 + max(depth(x) for x in f["args"])


def shape_key(f):
    if f["op"] == "atom":
        return "a"
    if f["op"] == "not":
        return "!(" + shape_key(f["arg"]) + ")"
    return ("&" if f["op"] == "and" else "|") + "(" + ",".join(shape_key(x) for x in f["args"]) + ")"


def written_bounds(atom):
    """the integers JMC writes into `matches` for this atom"""
    if atom["kind"] == "cmp" and atom["rhs"][0] == "lit":
        z = atom["rhs"][1]
        return [z + 1 if COP[atom["sp"]] == "gt" else z - 1 if COP[atom["sp"]] == "lt" else z]
    if atom["kind"] == "matches":
        return [atom["a"], atom["b"]]
    return []


def edge_atoms(f):
    return [a for a in atoms_of(f) if any(not INT_MIN <= z <= INT_MAX for z in written_bounds(a))]


def strict_ne_score_atoms(f):
    return [a for a in atoms_of(f) if a["kind"] == "cmp" and a["sp"] == "!==" and a["rhs"][0] == "score"]


# ------------------------------------------------------------------ canonical token list (mirror of Model.Cond.tokens_of)

def T(atom):
    return {"t": "atom", "atom": atom}


TOR, TAND, TNOT = {"t": "or"}, {"t": "and"}, {"t": "not"}


def P(l):
    return {"t": "paren", "l": l}


def sep_by(s, parts):
    out = []
    for i, p in enumerate(parts):
        if i:
            out.append(s)
        out.extend(p)
    return out


def tokens_of(f):
    if f["op"] == "atom":
        return [T(f["atom"])]
    if f["op"] == "and":
        return sep_by(TAND, [[P(tokens_of(x))] if x["op"] in ("and", "or") else tokens_of(x) for x in f["args"]])
    if f["op"] == "or":
        return sep_by(TOR, [[P(tokens_of(x))] if x["op"] == "or" else tokens_of(x) for x in f["args"]])
    x = f["arg"]
    return [TNOT] + ([P(tokens_of(x))] if x["op"] != "atom" else tokens_of(x))


def tokens_full_paren(f):
    """every compound operand bracketed (still parses to the same formula)"""
    if f["op"] == "atom":
        return [T(f["atom"])]
    if f["op"] in ("and", "or"):
        return sep_by(TAND if f["op"] == "and" else TOR,
                      [[P(tokens_full_paren(x))] if x["op"] != "atom" else tokens_full_paren(x) for x in f["args"]])
    x = f["arg"]
    return [TNOT, P(tokens_full_paren(x))]


# ------------------------------------------------------------------ source text

def atom_text(a):
    if a["kind"] == "truthy":
        return a["lhs"]
    if a["kind"] == "cmp":
        r = a["rhs"]
        return f'{a["lhs"]} {a["sp"]} {r[2] if r[0] == "lit" else r[1]}'
    return f'{a["lhs"]} matches {a.get("atext", a["a"])}..{a.get("btext", a["b"])}'


def tokens_text(toks, bang_space=False):
    out = []
    glue = False
    for t in toks:
        if t["t"] == "atom":
            s = atom_text(t["atom"])
        elif t["t"] == "paren":
            s = "(" + tokens_text(t["l"], bang_space) + ")"
        else:
            s = {"or": "||", "and": "&&", "not": "!"}[t["t"]]
        if glue and t["t"] != "not":
            out[-1] += s
        else:
            out.append(s)
        glue = t["t"] == "not" and not bang_space
    return " ".join(out)


def formula_text(f):
    return tokens_text(tokens_of(f))


def wrap_source(position):
    """does parse_condition receive the bracket token (True) or the bare token list (False)?"""
    return position not in ("for", "async_for")


def program_for(c):
    cond, pos = c["text"], c["position"]
    if pos == "if":
        stmt = f"if ({cond}) {{ {BODY} }}"
    elif pos == "ifelse":
        stmt = f"if ({cond}) {{ {BODY} }} else {{ {BODY} }}"
    elif pos == "elif":
        stmt = f"if ($zz == 1) {{ {BODY} }} else if ({cond}) {{ {BODY} }} else {{ {BODY} }}"
    elif pos == "elif_mid":
        stmt = f"if ($zz == 1) {{ {BODY} }} else if ({cond}) {{ {BODY} }} else if ($yy == 1) {{ {BODY} }} else {{ {BODY} }}"
    elif pos == "elif2":
        stmt = f"if ($zz == 1 || !($zy && $zx)) {{ {BODY} }} else if ({cond}) {{ {BODY} }} else {{ {BODY} }}"
    elif pos == "while":
        stmt = f"while ({cond}) {{ {BODY} }}"
    elif pos == "dowhile":
        stmt = f"do {{ {BODY} }} while ({cond});"
    elif pos == "for":
        stmt = f"for ($i_ = 0; {cond}; $i_++) {{ {BODY} }}"
    elif pos == "forp":
        stmt = f"for ($i_ = 0; ({cond}); $i_++) {{ {BODY} }}"
    elif pos == "expand":          # every command of the batch carries its own copy of the lowered condition
        stmt = f"if ({cond}) expand {{ {BODY} }}"
    elif pos == "async_while":     # the test lives in a function of its own (async/0), re-scheduled by the loop body
        stmt = f"async while ({cond}) {{ {BODY} }} 1t;"
    elif pos == "async_for":
        stmt = f"async for ($i_ = 0; {cond}; $i_++) {{ {BODY} }} 2t;"
    elif pos == "async_forp":
        stmt = f"async for ($i_ = 0; ({cond}); $i_++) {{ {BODY} }} 2t;"
    elif pos == "mif":             # `$if`: the lines that mention a macro variable `$(x)` must be macro lines, the others not
        stmt = f"$if ({cond}) {{ {BODY} }}"
    elif pos == "mif1":
        stmt = f'$if ({cond}) {{ say "B1"; }}'
    elif pos == "mif_expand":
        stmt = f"$if ({cond}) expand {{ {BODY} }}"
    else:
        raise ValueError(pos)
    return f"function f() {{ {stmt} }}"


# ------------------------------------------------------------------ Coq terms

def score_term(src, cert):
    h, o = score_of(src, cert)
    return f"({coq_str(h)}, {coq_str(o)})"


def coq_atom(a, cert):
    s = score_term(a["lhs"], cert)
    if a["kind"] == "truthy":
        return f"(ATruthy {s})"
    if a["kind"] == "cmp":
        r = a["rhs"]
        rt = f"(RLit {coq_z(r[1])})" if r[0] == "lit" else f"(RScore {score_term(r[1], cert)})"
        return f"(ACmp {s} {SPELL[a['sp']]} {rt})"
    return f"(AMatches {s} {coq_z(a['a'])} {coq_z(a['b'])})"


def coq_formula(f, cert):
    if f["op"] == "atom":
        return f"(Leaf {coq_atom(f['atom'], cert)})"
    if f["op"] == "not":
        return f"(Not {coq_formula(f['arg'], cert)})"
    return f"({'And' if f['op'] == 'and' else 'Or'} [{'; '.join(coq_formula(x, cert) for x in f['args'])}])"


def coq_tokens(toks, cert):
    def one(t):
        if t["t"] == "atom":
            return f"TAtom {coq_atom(t['atom'], cert)}"
        if t["t"] == "paren":
            return f"TParen {coq_tokens(t['l'], cert)}"
        return {"or": "TOr", "and": "TAnd", "not": "TNot"}[t["t"]]
    return "[" + "; ".join(one(t) for t in toks) + "]"


# ------------------------------------------------------------------ generation

VARS = ["$a", "$b", "$c", "$d", "$e", "$f", "$g", "$h", "$k", "$m", "$n", "$p", "$q", "$r", "$s", "$t", "$u", "$w",
        "$Y.z", "$_x", "$abc123", "$A"]
OBJS = ["obj:@s", "my_obj:@e[tag=x,limit=1]", "o2:@p", "pts:fake_player"]
LITS = [0, 1, -1, 2, 5, -5, 7, 10, 100, -100, INT_MAX - 1, INT_MIN + 1, INT_MAX, INT_MIN]


class AtomFactory:
    """atoms of rotating kinds over fresh scores (so every truth assignment is realisable)"""

    def __init__(self, rng, offset=0, kinds=None):
        self.rng, self.n, self.k = rng, 0, offset
        self.kinds = kinds or ["truthy", "cmp_lit", "cmp_score", "matches", "cmp_lit", "truthy_obj", "cmp_lit", "cmp_score_obj"]

    def fresh(self):
        v = VARS[self.n % len(VARS)] + ("" if self.n < len(VARS) else str(self.n // len(VARS)))
        self.n += 1
        return v

    def lit_atom(self, lhs):
        rng = self.rng
        sp = rng.choice(list(SPELL))
        z = rng.choice(LITS) if rng.random() < 0.6 else rng.randint(-1000, 1000)
        # keep the written bound inside the Java int range (the edge is the adversarial stream's business)
        if COP[sp] == "gt" and z >= INT_MAX:
            z = INT_MAX - 1
        if COP[sp] == "lt" and z <= INT_MIN:
            z = INT_MIN + 1
        return {"kind": "cmp", "lhs": lhs, "sp": sp, "rhs": ["lit", z, str(z)]}

    def make(self):
        kind = self.kinds[self.k % len(self.kinds)]
        self.k += 1
        rng = self.rng
        if kind == "truthy":
            return {"kind": "truthy", "lhs": self.fresh()}
        if kind == "truthy_obj":
            return {"kind": "truthy", "lhs": rng.choice(OBJS[:3]).replace(":", str(self.k) + ":", 1)}
        if kind == "cmp_lit":
            return self.lit_atom(self.fresh())
        if kind == "cmp_score":
            return {"kind": "cmp", "lhs": self.fresh(), "sp": rng.choice(list(SPELL)), "rhs": ["score", self.fresh()]}
        if kind == "cmp_score_obj":
            o = rng.choice(OBJS).replace(":", str(self.k) + ":", 1)
            return {"kind": "cmp", "lhs": self.fresh(), "sp": rng.choice(list(SPELL)), "rhs": ["score", o]}
        a = rng.choice([-5, -1, 0, 1, 3, INT_MIN, 100])
        b = a + rng.choice([1, 2, 4, 100])
        return {"kind": "matches", "lhs": self.fresh(), "a": a, "b": min(b, INT_MAX)}


def shapes(k, max_arity=3):
    """all formula shapes with exactly k connectives; leaves are None"""
    if k == 0:
        yield None
        return
    for s in shapes(k - 1, max_arity):
        yield ("not", s)
    for op in ("and", "or"):
        for m in range(2, max_arity + 1):
            for comp in compositions(k - 1, m):
                for kids in _product([list(shapes(j, max_arity)) for j in comp]):
                    yield (op, list(kids))


def compositions(n, m):
    if m == 1:
        yield (n,)
        return
    for i in range(n + 1):
        for rest in compositions(n - i, m - 1):
            yield (i,) + rest


def _product(lists):
    if not lists:
        yield ()
        return
    for x in lists[0]:
        for rest in _product(lists[1:]):
            yield (x,) + rest


def fill(shape, fac):
    if shape is None:
        return A(fac.make())
    if shape[0] == "not":
        return Not(fill(shape[1], fac))
    return {"op": shape[0], "args": [fill(s, fac) for s in shape[1]]}


def random_formula(rng, fac, d, p_leaf=0.08):
    if d == 0 or rng.random() < p_leaf:
        return A(fac.make())
    r = rng.random()
    if r < 0.22:
        return Not(random_formula(rng, fac, d - 1, p_leaf))
    n = rng.choice([2, 2, 2, 3, 3, 4])
    return {"op": "and" if r < 0.55 else "or", "args": [random_formula(rng, fac, d - 1, p_leaf + 0.17) for _ in range(n)]}


def macroize(f, mode):
    """the formula with plain variables `$name` renamed to macro variables `$(name)`:
    mode 0 = the first such operand, 1 = the last, 2 = all, 3 = none"""
    import copy
    import re
    f = copy.deepcopy(f)
    slots = []
    for a in atoms_of(f):
        if re.fullmatch(r"\$[a-z]+", a["lhs"]):
            slots.append((a, "lhs"))
        if a["kind"] == "cmp" and a["rhs"][0] == "score" and re.fullmatch(r"\$[a-z]+", a["rhs"][1]):
            slots.append((a, "rhs"))
    pick = slots[:1] if mode == 0 else slots[-1:] if mode == 1 else slots if mode == 2 else []
    for a, side in pick:
        if side == "lhs":
            a["lhs"] = "$(" + a["lhs"][1:] + ")"
        else:
            a["rhs"][1] = "$(" + a["rhs"][1][1:] + ")"
    return f


def macro_cases(rng, quick):
    """`$if` positions: every shape with <= 2 connectives (3 for thorough) x the three forms, macro operands rotating"""
    cases = []
    n = 0
    for si, s in enumerate(s for k in range(0, 3 if quick else 4) for s in shapes(k)):
        fac = AtomFactory(rng, offset=si, kinds=["truthy", "cmp_lit", "cmp_score", "matches"])
        f0 = fill(s, fac)
        for pos in MACRO_POSITIONS:
            n += 1
            cases.append(mk_case(macroize(f0, n % 4), pos, si % len(CERTS)))
    v = lambda name: A({"kind": "truthy", "lhs": name})
    for j, f in enumerate([Or(v("$(a)"), v("$b")), Or(v("$a"), v("$(b)")), Or(v("$a"), And(v("$b"), Or(v("$(c)"), v("$d")))),
                           Or(Not(And(v("$(a)"), v("$b"))), v("$c")), And(Or(v("$a"), v("$b")), Or(v("$(c)"), v("$(d)"))),
                           Not(And(Or(v("$(a)"), v("$b")), Not(And(v("$c"), v("$(d)"))))), Or(v("$a"), v("$b")), v("$(a)"), v("$a")]):
        for pos in MACRO_POSITIONS:
            cases.append(mk_case(f, pos, j % len(CERTS)))
    return cases


def mk_case(f, position, cert, tokens=None, canonical=True, bang_space=False):
    toks = tokens_of(f) if tokens is None else tokens
    wrapped = wrap_source(position)
    return dict(formula=f, position=position, cert=cert, canonical=canonical, wrapped=wrapped,
                tokens=[P(toks)] if wrapped else toks, text=tokens_text(toks, bang_space))


def adversarial(rng):
    """hand-picked shapes: the known-bad nestings, edges, spellings, redundant brackets, refusals.
    -> list of (formula, tokens or None)"""
    v = lambda n: A({"kind": "truthy", "lhs": n})
    eq = lambda n, z: A({"kind": "cmp", "lhs": n, "sp": "==", "rhs": ["lit", z, str(z)]})
    cmp_ = lambda n, sp, z, txt=None: A({"kind": "cmp", "lhs": n, "sp": sp, "rhs": ["lit", z, txt or str(z)]})
    cs = lambda n, sp, m: A({"kind": "cmp", "lhs": n, "sp": sp, "rhs": ["score", m]})
    out = []
    F = [
        Or(eq("$a", 1), And(eq("$b", 2), Or(eq("$c", 3), eq("$d", 4)))),          # || under && under ||
        Or(Not(And(v("$a"), v("$b"))), v("$c")),                                   # !(&&) under ||
        Or(Or(v("$a"), v("$b")), v("$c")), Or(v("$a"), Or(v("$b"), v("$c"))),      # || under ||
        Or(v("$a"), Or(v("$b"), Or(v("$c"), v("$d")))),
        Or(Or(Or(v("$a"), v("$b")), v("$c")), v("$d")),
        And(Or(v("$a"), v("$b")), Or(v("$c"), v("$d")), Or(v("$e"), v("$f"))),
        Or(And(Or(v("$a"), v("$b")), v("$c")), And(v("$d"), Or(v("$e"), v("$f")))),
        Not(And(Or(v("$a"), v("$b")), Not(And(v("$c"), v("$d"))))),
        Not(Or(Not(And(v("$a"), v("$b"))), Not(And(v("$c"), v("$d"))))),
        And(Not(And(v("$a"), v("$b"))), Not(And(v("$c"), v("$d")))),
        Or(Not(And(v("$a"), Or(v("$b"), v("$c")))), Not(And(v("$d"), v("$e")))),
        Not(Not(v("$a"))), Not(Not(And(v("$a"), v("$b")))), Not(Not(Not(Or(v("$a"), v("$b"))))),
        Not(Not(Not(And(v("$a"), v("$b"))))),
        Or(v("$a"), And(v("$b"), v("$c"))), Or(And(v("$a"), v("$b")), v("$c")),     # precedence, no brackets
        Or(And(v("$a"), v("$b")), And(v("$c"), v("$d")), v("$e")),
        And(v("$a"), And(v("$b"), v("$c"))), And(And(v("$a"), v("$b")), v("$c")),
        Or(v("$a"), v("$b"), v("$c"), v("$d"), v("$e")), And(v("$a"), v("$b"), v("$c"), v("$d"), v("$e")),
        Or(Not(v("$a")), Not(eq("$b", 0)), Not(cs("$c", "<", "$d")), Not(cs("$c", "!=", "$d"))),
        Not(Or(cs("$a", ">=", "obj:@s"), cs("$a", "!==", "$b"), cs("obj:@s", "===", "o2:@p"))),
        And(cs("$a", "=", "$a"), cs("$a", "!=", "$a")),                             # a score against itself
        Or(eq("$a", 1), eq("$a", 2), And(cmp_("$a", ">", 5), cmp_("$a", "<", 9))),   # one score in several atoms
        And(cmp_("$a", ">", INT_MAX - 1), cmp_("$b", "<", INT_MIN + 1)),
        And(cmp_("$a", ">=", INT_MAX), cmp_("$b", "<=", INT_MIN), cmp_("$c", "!=", INT_MIN)),
        Or(cmp_("$a", "==", 7, "007"), cmp_("$b", "!=", 0, "-0"), cmp_("$c", ">", -3, "-03")),
        A({"kind": "matches", "lhs": "$a", "a": INT_MIN, "b": INT_MAX}),
        Or(A({"kind": "matches", "lhs": "obj:@s", "a": -5, "b": -1}), A({"kind": "matches", "lhs": "$a", "a": 0, "b": 1})),
    ]
    # many flags (two-digit numbers), deep alternation
    wide = And(*[Or(v(f"$p{i}"), v(f"$q{i}")) for i in range(12)])
    wide_not = Or(*[Not(And(v(f"$p{i}"), v(f"$q{i}"))) for i in range(11)])
    deep = v("$z0")
    for i in range(1, 11):
        deep = Or(v(f"$z{i}"), deep) if i % 2 else And(v(f"$z{i}"), deep)
    deep_l = v("$z0")
    for i in range(1, 9):
        deep_l = Or(deep_l, v(f"$z{i}")) if i % 2 else And(Not(deep_l), v(f"$z{i}"))
    F += [wide, wide_not, deep, deep_l, Not(deep), Not(wide)]
    out += [(f, None, True) for f in F]
    # the range edge (known finding) and literals outside Java int
    for f in (cmp_("$a", ">", INT_MAX), cmp_("$a", "<", INT_MIN), Or(v("$b"), cmp_("$a", ">", INT_MAX)),
              cmp_("$a", "==", 3000000000), cmp_("$a", "<=", -3000000000)):
        out.append((f, None, True))
    # refused: matches a..b with a >= b
    for a, b in ((3, 3), (5, 1), (0, -1)):
        out.append((Or(v("$a"), A({"kind": "matches", "lhs": "$b", "a": a, "b": b})), None, True))
    # token lists that are not the canonical print of a formula
    a, b, c = T({"kind": "truthy", "lhs": "$a"}), T({"kind": "truthy", "lhs": "$b"}), T({"kind": "truthy", "lhs": "$c"})
    fa, fb, fc = v("$a"), v("$b"), v("$c")
    NC = [
        (And(fa, fb), [P([a]), TAND, b]),                       # (a) && b
        (Not(fa), [TNOT, P([a])]),                              # !(a)
        (Not(Not(fa)), [TNOT, TNOT, a]),                        # ! !a
        (Or(And(fa, fb), fc), [P([a, TAND, b]), TOR, c]),       # (a && b) || c  (redundant)
        (And(fa, fb), [P([P([a, TAND, b])])]),                  # ((a && b))  in a bracket position: refused
        (And(Or(fa, fb), fc), [P([P([a, TOR, b])]), TAND, c]),  # ((a || b)) && c : refused
        (fa, [P([a])]),                                         # ((a)) in a bracket position: refused
        (fa, [a, b]),                                           # two atoms side by side: refused
        (fa, [a, TAND]),                                        # trailing operator: refused
        (fa, [TOR, a]),                                         # leading operator: refused
        (fa, []),                                               # empty bracket: refused
    ]
    out += [(f, toks, False) for f, toks in NC]
    return out


def gen_cases(rng, tier):
    cases = []
    quick = tier == "quick"
    pi = 0
    # (i) exhaustive small shapes
    all_shapes = [s for k in range(0, 4) for s in shapes(k)]
    for si, s in enumerate(all_shapes):
        for rep in range(1 if quick else 3):
            fac = AtomFactory(rng, offset=si + 3 * rep)
            f = fill(s, fac)
            pos = POSITIONS[pi % len(POSITIONS)]
            pi += 1
            cases.append(mk_case(f, pos, (si + rep) % len(CERTS), bang_space=(si % 7 == 0)))
    # every position x every shape with <= 2 connectives (all use the lowering unchanged)
    for si, s in enumerate(s for k in range(0, 3) for s in shapes(k)):
        fac = AtomFactory(rng, offset=si, kinds=["truthy", "cmp_lit"])
        f = fill(s, fac)
        for pos in POSITIONS:
            cases.append(mk_case(f, pos, si % len(CERTS)))
    # (ii) random structured
    for i in range(250 if quick else 3000):
        fac = AtomFactory(rng, offset=i)
        f = random_formula(rng, fac, rng.choice([2, 3, 3, 4, 4, 5]))
        if len(atoms_of(f)) > 16:
            f = random_formula(rng, AtomFactory(rng, offset=i), 3)
        toks = tokens_full_paren(f) if i % 5 == 0 else None
        cases.append(mk_case(f, POSITIONS[i % len(POSITIONS)], i % len(CERTS), tokens=toks, canonical=toks is None))
    # (iii) adversarial
    for j, (f, toks, canonical) in enumerate(adversarial(rng)):
        poss = POSITIONS if (quick and (j < 12 or connectives(f) > 9)) or not quick else [POSITIONS[j % len(POSITIONS)], "if"]
        for pos in dict.fromkeys(poss):
            cases.append(mk_case(f, pos, j % len(CERTS), tokens=toks, canonical=canonical))
    # every operator spelling x operand kind x boundary literal
    for sp in SPELL:
        for z in LITS:
            if (COP[sp] == "gt" and z == INT_MAX) or (COP[sp] == "lt" and z == INT_MIN):
                continue
            f = A({"kind": "cmp", "lhs": "$a", "sp": sp, "rhs": ["lit", z, str(z)]})
            cases.append(mk_case(Not(f) if z % 2 else f, "if", 0))
        for rhs in ("$b", "obj:@s", "$a"):
            for lhs in ("$a", "my_obj:@e[tag=x,limit=1]"):
                f = A({"kind": "cmp", "lhs": lhs, "sp": sp, "rhs": ["score", rhs]})
                cases.append(mk_case(f, "if", 1))
                cases.append(mk_case(Or(Not(f), A({"kind": "truthy", "lhs": "$c"})), "while", 2))
    return cases


# ------------------------------------------------------------------ `if (...) expand { batch }` programs (round 3)
# Program trees in c04_gen's representation (its source printer, source-level interpreter and mcvm comparison are reused):
#   ("expand", cond, [statement, ...]) = every statement is guarded by its own fresh evaluation of cond.

def expand_items(rng, tier):
    """packs `f` (+ helpers g, h) whose body contains expand statements with batches of >= 2 commands in which a
    NON-LAST command evaluates another condition that needs `__logic__` flags (nested if, brace-less if, chain, loop,
    nested expand) or calls a function that does, or changes the variables the outer condition reads.
    item = dict(prog=, more=, order=, cert=, stream=, outer=, kinds=)"""
    import c04_gen as G
    quick = tier == "quick"
    pa, pb, pc, pd = (G.pos(v, i) for i, v in enumerate(["$a", "$b", "$c", "$d"]))
    outers = {
        "or": G.OR(pa, pb),
        "or_and": G.AND(G.OR(pa, pb), G.A("$m", "!=", 7)),
        "and_or": G.AND(G.A("$m", "!=", 7), G.OR(pb, pa)),
        "notand": G.NOT(G.AND(G.neg("$a", 1), G.neg("$b", 2))),          # !(!a && !b)  ==  a || b, one flag, unless-read
        "or_or": G.OR(pa, G.OR(pb, G.A("$m", "==", 7))),
        "two_flags": G.AND(G.OR(pa, pb), G.OR(pb, pa, G.A("$m", "==", 7))),
        "atomic": pa,
        "and": G.AND(pa, G.A("$m", "!=", 7)),
    }
    inners = [G.OR(pc, pd), G.NOT(G.AND(G.neg("$c"), G.neg("$d"))), G.AND(G.OR(pd, pc), G.A("$m", "!=", 7)), pc,
              G.OR(pc, G.AND(pd, G.OR(pa, pc)))]
    g_body = [("if", [([("f", G.OR(pc, pd))], [("say", "g")])], None)]                  # g evaluates a flagged condition
    h_body = [("if", [([("f", G.OR(pd, pc))], [("say", "h1"), ("say", "h2")])], [("say", "h3")]), ("set", "$s", 2)]
    more = {"g": g_body, "h": h_body}

    def first_cmd(kind, nm, j):
        inner = [("f", inners[j % len(inners)])]
        if kind == "if_inline":
            return ("if", [(inner, [nm.say("i")])], None)
        if kind == "if_fn":
            return ("if", [(inner, [nm.say("i"), nm.say("i")])], None)
        if kind == "if_braceless":
            return ("if", [(inner, G.NB([nm.say("i")]))], None)
        if kind == "if_set":
            return ("if", [(inner, [("set", "$s", 5)])], None)
        if kind == "call_g":
            return ("call", "g")
        if kind == "call_h":
            return ("call", "h")
        if kind == "chain":
            return ("if", [(inner, [nm.say("c")]), ([("f", G.OR(pd, G.A("$m", "==", 7)))], [nm.say("c"), nm.say("c")])], [nm.say("c")])
        if kind == "loop":
            lv = nm.loopvar()
            return ("for", [("set", lv, 0)], [("atom", (lv, "<", 2)), ("or", [[("$c", "==", 1)], [("$d", "!=", 1)]])], [("add", lv, 1)], [nm.say("l")])
        if kind == "nested_expand":
            return ("expand", inner, [nm.say("n"), ("set", "$t", 1), nm.say("n")])
        if kind == "clear_outer":
            return ("set", "$a", 0)
        if kind == "clear_both":
            return ("expand", [("atom", ("$m", "!=", 9))], [("set", "$a", 0), ("set", "$b", 0)])
        if kind == "set_outer":
            return ("set", "$b", 1)
        if kind == "say":
            return nm.say("p")
        raise ValueError(kind)

    FIRST = ["if_inline", "if_fn", "if_braceless", "if_set", "call_g", "call_h", "chain", "loop", "nested_expand",
             "clear_outer", "clear_both", "set_outer", "say"]

    def later_cmd(kind, nm):
        if kind == "set":
            return ("set", "$s", 1)
        if kind == "say":
            return nm.say("q")
        return ("if", [([("atom", ("$d", "!=", 5))], [nm.say("r")])], None)      # an `execute` that is merged

    items = []
    n = 0
    for oi, (ok, outer) in enumerate(outers.items()):
        for fi, fk in enumerate(FIRST):
            for li, lk in enumerate(["set", "say", "if"]):
                if quick and (oi + fi + li) % 3 and ok not in ("or", "notand"):
                    continue
                n += 1
                nm = G.Names()
                batch = [first_cmd(fk, nm, n), later_cmd(lk, nm)]
                if n % 3 == 0:
                    batch = [nm.say("o")] + batch
                if n % 4 == 0:
                    batch = batch + [later_cmd(["say", "set", "if"][li], nm)]
                prog = [("expand", [("atom", outer[1])] if outer[0] == "A" else [("f", outer)], batch)]
                items.append(dict(prog=prog, more=more, order=["f", "g", "h"], cert=n % len(CERTS), stream="expand-batch",
                                  outer=ok, kinds=[fk, lk], cap=64, values={"$m": (0, 7)}))
    # rich outer conditions, random batches, expand statements inside chains and loops and after each other
    V = ["$a", "$b", "$c", "$d"]
    for i in range(60 if quick else 600):
        nm = G.Names()
        outer = G.rich(G.RICH_KINDS[i % len(G.RICH_KINDS)], V, i) if i % 2 else G.random_formula(rng, V, rng.choice([2, 3]))
        k = rng.choice([2, 2, 3, 4])
        batch = [first_cmd(rng.choice(FIRST), nm, rng.randrange(9)) if rng.random() < 0.6 else later_cmd(rng.choice(["set", "say", "if"]), nm)
                 for _ in range(k)]
        ex = ("expand", [("atom", outer[1])] if outer[0] == "A" else [("f", outer)], batch)
        t = i % 4
        if t == 0:
            prog = [ex, nm.say("end")]
        elif t == 1:
            lv = nm.loopvar()
            prog = [("for", [("set", lv, 0)], [("atom", (lv, "<", 2))], [("add", lv, 1)], [ex, nm.say("z")])]
        elif t == 2:
            prog = [("if", [(G.or_cond("$d", "$c"), [ex]), (G.atomic_cond("$a"), [nm.say("y")])], [nm.say("x"), ex]), nm.say("end")]
        else:
            ex2 = ("expand", G.or_cond("$c", "$a"), [later_cmd("set", nm), first_cmd(rng.choice(FIRST[:9]), nm, i), later_cmd("say", nm)])
            prog = [ex, ex2]
        items.append(dict(prog=prog, more=more, order=["f", "g", "h"], cert=i % len(CERTS), stream="expand-random",
                          outer="rich" if i % 2 else "random", kinds=[], cap=64, values={"$m": (0, 7)}))
    return items


def expand_text_term(it, cert, fns):
    """Run.C03.xcase for an item whose `f` is exactly one expand statement over commands the text model covers
    (one-line commands, nested lone ifs with a one-line or two-say body); None otherwise.
    fns = real functions {path: text} or None when the compiler refused."""
    import c04_gen as G
    prog = it["prog"]
    if len(prog) != 1 or prog[0][0] != "expand":
        return None
    _, cond, batch = prog[0]
    var, priv = cert["VAR"], cert["PRIVATE"]

    def line(s):
        if s[0] == "say":
            return f"say {s[1]}"
        if s[0] == "set":
            return f"scoreboard players set {s[1]} {var} {s[2]}"
        if s[0] == "call":
            return f"function TEST:{s[1]}"
        return None

    def toks(c):
        return coq_tokens([P(tokens_of(G.f_c03(G.cond_formula(c))))], cert)
    xs = []
    n_if_else = 0
    for s in batch:
        l = line(s)
        if l is not None:
            xs.append(f"XLine {coq_str(l)}")
            continue
        if s[0] != "if" or len(s[1]) != 1 or s[2] is not None:
            return None
        c, body = s[1][0]
        if len(body) == 1 and line(body[0]) is not None:
            tail = line(body[0])
        elif len(body) == 2 and all(x[0] == "say" for x in body):
            tail = f"function TEST:{priv}/if_else/{n_if_else}"
            n_if_else += 1
        else:
            return None
        xs.append(f"XIf {toks(c)} {coq_str(tail)}")
    if fns is None:
        real, real_fns = "<refused>", []
    else:
        real = fns.get("f", "<missing function f>")
        real_fns = [(f"TEST:{k}", v) for k, v in sorted(fns.items()) if k.startswith(priv + "/expand/")]
    fl = "; ".join(f"({coq_str(k)}, {coq_str(v)})" for k, v in real_fns)
    return f"mkXCase {names_term(cert)} {toks(cond)} [{'; '.join(xs)}] {coq_str(real)} [{fl}]"
