"""C12 runner: compiles a SEQUENCE of projects in ONE process (this one), through the real entry points.

Executed with /venv/bin/python, PYTHONPATH=<repo>/src and the PYTHONHASHSEED chosen by harness/c12.py.
stdin : {"seq": [item, …], "statediff": bool}
   item = {"entry": "TEST"|"PYJMC"|"CLI", "id": str, "src": str, "header": str|None, "cert": str|None,
           "envs": [str], "pack_format": str, "namespace": str, "existing": bool}
     TEST  : jmc.compile.test_compile.JMCTestPack (cert None = the class's default jmc.txt)
     PYJMC : jmc.api.PyJMC on files written to <root>/<id>/ (cert None = its default dict)
     CLI   : what terminal_commands.compile_ does: Header().envs = envs; compile_jmc(config) on <root>/<id>/
             (existing = the namespace folder with jmc.txt `cert` is already there; else a fresh output folder)
stdout: {"results": [ {"ok": true, "files": {relpath: text}} | {"ok": false, "exc": cls, "msg": text} ],
         "statediff": [changed global paths] }
Every path of the temporary root is replaced by <ROOT>; the process works inside the root (cwd).
"""
import io
import json
import os
import shutil
import signal
import sys
import tempfile
from pathlib import Path


class _Timeout(BaseException):
    pass


def _alarm(signum, frame):
    raise _Timeout()


def cert_dict(text):
    out = {}
    for line in text.split("\n"):
        if "=" in line:
            k, v = line.split("=", 1)
            out[k.strip()] = v.strip()
    return out


def norm(s: str, root: str) -> str:
    return s.replace(root, "<ROOT>")


def run_item(item, root: Path, counter):
    from jmc.compile.header import Header
    proj = root / f"{item['id']}"
    if proj.exists():           # the same project again in this process (histories A,B1,A,B2,…): give it a new folder name of
        counter[item["id"]] = counter.get(item["id"], 0) + 1        # the same length so that diagnostics stay comparable
        proj = root / f"{item['id']}"
        shutil.rmtree(proj)
    signal.alarm(20)
    try:
        entry = item["entry"]
        if entry == "TEST":
            from jmc.compile.test_compile import JMCTestPack
            p = JMCTestPack(namespace=item.get("namespace", "TEST"))
            p.set_jmc_file(item["src"])
            if item.get("header") is not None:
                p.set_header_file(item["header"])
            if item.get("cert") is not None:
                p.set_cert(item["cert"])
            p.config.pack_format = item.get("pack_format", "-1")
            if item.get("envs"):
                p.set_envs(list(item["envs"]))
            return {"ok": True, "files": dict(p.build().built)}
        proj.mkdir(parents=True)
        (proj / "main.jmc").write_text(item["src"], encoding="utf-8")
        if item.get("header") is not None:
            (proj / "main.hjmc").write_text(item["header"], encoding="utf-8")
        if entry == "PYJMC":
            from jmc.api import PyJMC
            kw = {}
            if item.get("cert") is not None:
                kw["jmc_txt"] = cert_dict(item["cert"])
            pj = PyJMC(item.get("namespace", "TEST"), "d", item.get("pack_format", "48"), str(proj / "main.jmc"),
                       envs=list(item.get("envs") or []), **kw)
            return {"ok": True, "files": {Path(k).as_posix(): v for k, v in pj.files.items()}}
        if entry == "CLI":
            from jmc.terminal import GlobalData, Configuration
            from jmc.compile import compile_jmc
            out = proj / "out"
            ns = item.get("namespace", "TEST")
            if item.get("existing"):
                (out / "data" / ns).mkdir(parents=True)
                (out / "data" / ns / "jmc.txt").write_text(item.get("cert") or "", encoding="utf-8")
            cfg = Configuration(GlobalData(), namespace=ns, description="d", pack_format=item.get("pack_format", "48"),
                                target=proj / "main.jmc", output=out)
            Header().envs = list(item.get("envs") or [])
            compile_jmc(cfg)
            files = {}
            for f in sorted(out.rglob("*")):
                if f.is_file():
                    files[f.relative_to(out).as_posix()] = f.read_text(encoding="utf-8")
            return {"ok": True, "files": files}
        raise ValueError("unknown entry " + str(entry))
    except _Timeout:
        return {"ok": False, "exc": "Timeout", "msg": ""}
    except BaseException as e:  # noqa
        signal.alarm(0)
        return {"ok": False, "exc": type(e).__name__, "msg": str(e)[:3000]}
    finally:
        signal.alarm(0)


# ----------------------------------------------------------------------------- global-state fingerprint

def fingerprint(obj, depth, seen):
    if obj is None or isinstance(obj, (bool, int, float, str, bytes)):
        return repr(obj)
    if id(obj) in seen:
        return "<cycle>"
    if depth <= 0:
        return "<deep:%s>" % type(obj).__name__
    import types
    if isinstance(obj, (types.FunctionType, types.BuiltinFunctionType, types.MethodType, type, types.ModuleType)):
        return "<ref:%s>" % getattr(obj, "__qualname__", getattr(obj, "__name__", "?"))
    seen = seen | {id(obj)}
    if isinstance(obj, (list, tuple)):
        return [fingerprint(x, depth - 1, seen) for x in obj]
    if isinstance(obj, (set, frozenset)):
        return sorted(json.dumps(fingerprint(x, depth - 1, seen), sort_keys=True, default=str) for x in obj)
    if isinstance(obj, dict):
        return {repr(k) if not isinstance(k, type) else k.__name__: fingerprint(v, depth - 1, seen) for k, v in obj.items()}
    if isinstance(obj, io.StringIO):
        return "<StringIO len=%d>" % len(obj.getvalue())
    if isinstance(obj, Path):
        return "<Path>"
    attrs = {}
    d = getattr(obj, "__dict__", None)
    if isinstance(d, dict):
        attrs.update(d)
    for cls in type(obj).__mro__:
        for s in getattr(cls, "__slots__", ()) or ():
            if isinstance(s, str) and hasattr(obj, s):
                try:
                    attrs[s] = getattr(obj, s)
                except Exception:  # noqa
                    pass
            m = "_%s%s" % (cls.__name__.lstrip("_"), s) if isinstance(s, str) and s.startswith("__") and not s.endswith("__") else None
            if m and hasattr(obj, m):
                attrs[m] = getattr(obj, m)
    if not attrs:
        return "<%s>" % type(obj).__name__
    return {"<type>": type(obj).__name__, **{k: fingerprint(v, depth - 1, seen) for k, v in attrs.items()}}


def global_state():
    """{path: fingerprint} for module globals and class attributes of every loaded jmc module"""
    import types
    out = {}
    seen_ids = set()
    for mname in sorted(m for m in sys.modules if m == "jmc" or m.startswith("jmc.")):
        mod = sys.modules[mname]
        for name, obj in sorted(vars(mod).items()):
            if name.startswith("__") and name.endswith("__"):
                continue
            if isinstance(obj, (types.ModuleType, types.FunctionType, types.BuiltinFunctionType)):
                continue
            if isinstance(obj, type):
                if obj.__module__ != mname:
                    continue
                for an, av in sorted(vars(obj).items()):
                    if an.startswith("__") and an.endswith("__"):
                        continue
                    if isinstance(av, (types.FunctionType, staticmethod, classmethod, property, types.MemberDescriptorType,
                                       types.GetSetDescriptorType, types.WrapperDescriptorType, types.MethodDescriptorType)):
                        continue
                    out[f"{mname}.{name}.{an}"] = fingerprint(av, 5, frozenset())
                continue
            if id(obj) in seen_ids:
                continue
            seen_ids.add(id(obj))
            fp = fingerprint(obj, 5, frozenset())
            if isinstance(fp, dict) and fp.get("<type>"):
                for k, v in fp.items():
                    out[f"{mname}.{name}.{k}"] = v
            else:
                out[f"{mname}.{name}"] = fp
    # singletons: one entry per field
    try:
        from jmc.compile.utils import SingleTonMeta
        for cls, inst in SingleTonMeta._instances.items():
            fp = fingerprint(inst, 5, frozenset())
            if isinstance(fp, dict):
                for k, v in fp.items():
                    out[f"<singleton>{cls.__name__}.{k}"] = v
    except Exception:  # noqa
        pass
    return out


def main():
    import logging
    logging.disable(logging.CRITICAL)
    signal.signal(signal.SIGALRM, _alarm)
    req = json.load(sys.stdin)
    real_stdout = sys.stdout
    sys.stdout = open(os.devnull, "w")
    root = Path(tempfile.mkdtemp(prefix="c12_")).resolve()
    cwd = os.getcwd()
    os.chdir(root)
    results, diff = [], None
    try:
        import jmc.compile  # noqa  (load the package before the first snapshot)
        import jmc.api  # noqa
        import jmc.terminal  # noqa
        from jmc.terminal import GlobalData
        try:
            GlobalData().init("x", "jmc_config.json")
        except Exception:  # noqa
            pass
        from jmc.compile.header import Header
        Header()                # the singleton exists before the first snapshot: only CHANGED fields are reported
        before = global_state() if req.get("statediff") else None
        counter = {}
        changed = set()
        for item in req["seq"]:
            r = run_item(item, root, counter)
            if r.get("ok"):
                r["files"] = {norm(k, str(root)): norm(v, str(root)) for k, v in r["files"].items()}
            else:
                r["msg"] = norm(r["msg"], str(root))
            results.append(r)
            if before is not None:          # what did THIS compile write?  (union over the sequence)
                after = global_state()
                changed.update(k for k in set(before) | set(after) if before.get(k) != after.get(k))
                before = after
        if before is not None:
            diff = sorted(changed)
    finally:
        os.chdir(cwd)
        shutil.rmtree(root, ignore_errors=True)
    sys.stdout = real_stdout
    json.dump({"results": results, "statediff": diff}, sys.stdout)


if __name__ == "__main__":
    main()
