"""C12 runner: compiles a SEQUENCE of projects in ONE process (this one), through the real entry points.

Executed with /venv/bin/python, PYTHONPATH=<repo>/src and the PYTHONHASHSEED chosen by harness/c12.py.
stdin : {"seq": [item, …], "statediff": bool, "audit": bool (strengthening round 2: functools caches of the package called through a
         recording proxy; after every compile the entries stored by earlier compiles are recomputed un-cached and compared)}
   item = {"entry": "TEST"|"PYJMC"|"CLI", "id": str, "src": str, "header": str|None, "cert": str|None,
           "envs": [str], "pack_format": str, "namespace": str, "existing": bool,
           "files": {relpath: text}   further project files next to main.jmc (imported .jmc files, included .hjmc files, #copy folders),
           "pre_files": {relpath: text}  files already present in the output folder (CLI with existing=true: stale output, #static folders),
           "dir": str   project folder name (default: id) - two pool entries with the same dir are two EDITS of one project}
       optional: "keep_field": Header field whose reset in Header.__clear is UNDONE (self-test: simulates a missing / aliased reset),
                 "keep_pyenv": true (IsolatedEnvironment.reset disabled), "trace": {"sites": [...], "fields": [...]} (reach measurement)
     TEST  : jmc.compile.test_compile.JMCTestPack (cert None = the class's default jmc.txt); cwd = the project folder, so that
             imports / #include of the virtual main file resolve to the project's own files
     PYJMC : jmc.api.PyJMC on files written to <root>/<id>/ (cert None = its default dict)
     CLI   : what terminal_commands.compile_ does: Header().envs = envs; compile_jmc(config) on <root>/<id>/
             (existing = the namespace folder with jmc.txt `cert` is already there; else a fresh output folder)
stdout: {"results": [ {"ok": true, "files": {relpath: text}} | {"ok": false, "exc": cls, "msg": text} ],
         "statediff": [changed global paths] }
Every path of the temporary root is replaced by <ROOT>; the process works inside the root (cwd).

Strengthening round 4:
  * item key "rel": true  - PYJMC / CLI are given the target (and output) RELATIVE to the root folder the process started in, as an API user
    or a shell started in the workspace does;
  * AMBIENT process state (os.getcwd(), os.environ, sys.path, sys.modules, signal handlers, locale, warnings filters, logging configuration,
    recursion limit / excepthook / umask) is snapshotted right before and right after every compile, successful or failing:
    result["os_changed"] = {component: {before, after}} when they differ (lazily imported stdlib / jmc / site-packages modules are listed
    under "modules_imported", not as a change).  The runner no longer puts the working directory back after a compile: what a compile
    leaves behind is what the next compile of the sequence starts from;
  * request key "namereads": true - the jmc.txt name attributes of DataPack are wrapped in recording descriptors before every compile; an
    assignment (read_cert) replaces the descriptor, so every recorded read is a read of the name the PREVIOUS compile left:
    result["stale_reads"] = [{attr, stack: [file:function:line ...]}] (reads inside read_cert itself are the modelled default source).
"""
import io
import json
import os
import shutil
import signal
import sys
import tempfile
from pathlib import Path


class _Timeout(BaseException):
    pass


def _alarm(signum, frame):
    raise _Timeout()


def cert_dict(text):
    out = {}
    for line in text.split("\n"):
        if "=" in line:
            k, v = line.split("=", 1)
            out[k.strip()] = v.strip()
    return out


def norm(s: str, root: str) -> str:
    return s.replace(root, "<ROOT>")


def run_item(item, root: Path, counter, argstore=None):
    """argstore (dict) = keep the ARGUMENT OBJECTS of a project (the envs list, the jmc.txt dict, the JMCTestPack object) and pass the very
    same objects when the project is compiled again in this process, as an API user looping over rebuilds would"""
    from jmc.compile.header import Header
    proj = root / f"{item.get('dir') or item['id']}"
    if proj.exists():           # the same project (or another edit of it) again in this process: same folder, rebuilt from scratch
        counter[item["id"]] = counter.get(item["id"], 0) + 1
        shutil.rmtree(proj)
    signal.alarm(20)
    snap = {}
    mine = None             # the working directory THIS function chose for the compile (TEST with files), undone below if the compile kept it
    try:
        entry = item["entry"]
        if entry != "TEST" or item.get("files"):        # a virtual build without further files touches no folder
            proj.mkdir(parents=True)
            for rel, text in (item.get("files") or {}).items():
                f = proj / rel
                f.parent.mkdir(parents=True, exist_ok=True)
                f.write_text(text, encoding="utf-8")
        if entry == "TEST":
            if item.get("files"):
                os.chdir(proj)
                mine = str(proj)
            from jmc.compile.test_compile import JMCTestPack
            store = argstore.setdefault(item["id"], {}) if argstore is not None else {}
            p = store.get("pack")
            if p is None:
                p = store["pack"] = JMCTestPack(namespace=item.get("namespace", "TEST"))
                p.set_jmc_file(item["src"])
                if item.get("header") is not None:
                    p.set_header_file(item["header"])
                if item.get("cert") is not None:
                    p.set_cert(item["cert"])
                p.config.pack_format = item.get("pack_format", "-1")
                if item.get("envs"):
                    store["envs"] = list(item["envs"])
                    p.set_envs(store["envs"])
            snap["before"] = os_snapshot()
            return {"ok": True, "files": dict(p.build().built)}
        (proj / "main.jmc").write_text(item["src"], encoding="utf-8")
        if item.get("header") is not None:
            (proj / "main.hjmc").write_text(item["header"], encoding="utf-8")
        # round 4: the target as the caller would write it - absolute, or relative to the folder the process was started in
        target = os.path.relpath(proj / "main.jmc", root) if item.get("rel") else str(proj / "main.jmc")
        if entry == "PYJMC":
            from jmc.api import PyJMC
            kw = {}
            store = argstore.setdefault(item["id"], {}) if argstore is not None else {}
            if item.get("cert") is not None:
                kw["jmc_txt"] = store.setdefault("jmc_txt", cert_dict(item["cert"]))
            snap["before"] = os_snapshot()
            pj = PyJMC(item.get("namespace", "TEST"), item.get("desc", "d"), item.get("pack_format", "48"), target,
                       envs=store.setdefault("envs", list(item.get("envs") or [])), **kw)
            return {"ok": True, "files": {Path(k).as_posix(): v for k, v in pj.files.items()}}
        if entry == "CLI":
            from jmc.terminal import GlobalData, Configuration
            from jmc.compile import compile_jmc
            out = proj / "out"
            ns = item.get("namespace", "TEST")
            if item.get("existing"):
                (out / "data" / ns).mkdir(parents=True)
                if item.get("cert") is not None:       # existing folder without jmc.txt: read_cert refuses to touch it
                    (out / "data" / ns / "jmc.txt").write_text(item["cert"], encoding="utf-8")
                for rel, text in (item.get("pre_files") or {}).items():
                    f = out / rel
                    f.parent.mkdir(parents=True, exist_ok=True)
                    f.write_text(text, encoding="utf-8")
            cfg = Configuration(GlobalData(), namespace=ns, description=item.get("desc", "d"), pack_format=item.get("pack_format", "48"),
                                target=Path(target), output=Path(os.path.relpath(out, root)) if item.get("rel") else out)
            snap["before"] = os_snapshot()
            Header().envs = list(item.get("envs") or [])
            compile_jmc(cfg, debug=True)        # as terminal_commands.compile_ does (evaluates repr(datapack) for the log)
            snap["after"] = os_snapshot()       # (before the output folder is read back)
            files = {}
            for f in sorted(out.rglob("*")):
                if f.is_file():
                    files[f.relative_to(out).as_posix()] = f.read_text(encoding="utf-8")
            return {"ok": True, "files": files}
        raise ValueError("unknown entry " + str(entry))
    except _Timeout:
        return {"ok": False, "exc": "Timeout", "msg": ""}
    except BaseException as e:  # noqa
        signal.alarm(0)
        return {"ok": False, "exc": type(e).__name__, "msg": str(e)[:3000]}
    finally:
        signal.alarm(0)
        if "before" in snap:
            LAST_OS_CHANGE[0] = os_diff(snap["before"], snap.get("after") or os_snapshot(), str(root))
        else:
            LAST_OS_CHANGE[0] = None
        # the working directory this function chose is undone; one that the COMPILE left behind is not (round 4: no masking)
        try:
            here = os.getcwd()
        except OSError:
            here = None
        if mine is not None and here == mine:
            os.chdir(root)


# ----------------------------------------------------------------------------- ambient process state (strengthening round 4)

LAST_OS_CHANGE = [None]


def os_snapshot():
    import gc
    import locale
    import logging
    import threading
    import warnings
    snap = {}
    try:
        snap["cwd"] = os.getcwd()
    except OSError as e:
        snap["cwd"] = "<%s>" % type(e).__name__
    snap["environ"] = dict(os.environ)
    snap["sys.path"] = list(sys.path)
    snap["sys.modules"] = set(sys.modules)
    sigs = {}
    for sg in sorted(signal.valid_signals()):
        try:
            h = signal.getsignal(sg)
        except (ValueError, OSError):
            continue
        sigs[int(sg)] = getattr(h, "__qualname__", None) or repr(h)
    snap["signal"] = sigs
    try:
        snap["locale"] = locale.setlocale(locale.LC_ALL)
    except Exception as e:  # noqa
        snap["locale"] = "<%s>" % type(e).__name__
    snap["warnings"] = [repr(f) for f in warnings.filters]
    loggers = {}
    for name, lg in list(logging.root.manager.loggerDict.items()):
        if isinstance(lg, logging.Logger):
            loggers[name] = [lg.level, lg.disabled, lg.propagate, [type(h).__name__ + ":" + str(h.level) for h in lg.handlers]]
    snap["logging"] = {"disable": logging.root.manager.disable, "root": [logging.root.level, [type(h).__name__ for h in logging.root.handlers]],
                       "loggers": loggers}
    um = os.umask(0)
    os.umask(um)
    snap["misc"] = {"recursionlimit": sys.getrecursionlimit(), "excepthook": getattr(sys.excepthook, "__qualname__", repr(sys.excepthook)),
                    "stdout": id(sys.stdout), "stderr": id(sys.stderr), "stdin": id(sys.stdin), "umask": um, "threads": threading.active_count(),
                    "gc": gc.isenabled(), "argv": list(sys.argv), "displayhook": getattr(sys.displayhook, "__qualname__", "?"),
                    "builtins": len(vars(__import__("builtins")))}
    return snap


def _module_origin(name, root):
    """'benign' for a lazily imported module of the standard library / the jmc package / site-packages, else where it comes from"""
    top = name.split(".")[0]
    if top == "jmc" or top in sys.stdlib_module_names or top.startswith("_"):
        return "benign"
    mod = sys.modules.get(name)
    f = getattr(mod, "__file__", None) or ""
    if "site-packages" in f or "dist-packages" in f:
        return "benign"
    return f.replace(root, "<ROOT>") or "<no file>"


def os_diff(a, b, root):
    out = {}
    for k in ("cwd", "environ", "sys.path", "signal", "locale", "warnings", "misc"):
        if a[k] != b[k]:
            if isinstance(a[k], dict):
                keys = sorted(x for x in set(a[k]) | set(b[k]) if a[k].get(x) != b[k].get(x))
                out[k] = {"before": {str(x): a[k].get(x) for x in keys[:6]}, "after": {str(x): b[k].get(x) for x in keys[:6]}}
            else:
                out[k] = {"before": a[k], "after": b[k]}
    gone = sorted(a["sys.modules"] - b["sys.modules"])
    new = sorted(b["sys.modules"] - a["sys.modules"])
    foreign = {m: _module_origin(m, root) for m in new}
    foreign = {m: o for m, o in foreign.items() if o != "benign"}
    if gone or foreign:
        out["sys.modules"] = {"before": {"removed": gone[:6]}, "after": {"added_from_outside_stdlib_jmc_sitepackages": dict(list(foreign.items())[:6])}}
    la, lb = a["logging"], b["logging"]
    ldiff = {}
    if la["disable"] != lb["disable"] or la["root"] != lb["root"]:
        ldiff["root"] = {"before": [la["disable"], la["root"]], "after": [lb["disable"], lb["root"]]}
    for name in sorted(set(la["loggers"]) | set(lb["loggers"])):
        x, y = la["loggers"].get(name), lb["loggers"].get(name)
        if x != y and not (x is None and (name == "jmc" or name.startswith("jmc.")) and name in b["sys.modules"] and name not in a["sys.modules"]):
            if x is None and name.split(".")[0] in sys.stdlib_module_names:
                continue            # a logger of a lazily imported standard-library module
            ldiff[name] = {"before": x, "after": y}
    if ldiff:
        out["logging"] = {"before": {k: v["before"] for k, v in list(ldiff.items())[:4]}, "after": {k: v["after"] for k, v in list(ldiff.items())[:4]}}
    res = json.loads(json.dumps(out, default=str).replace(root, "<ROOT>")) if out else {}
    if new:
        res_new = [m for m in new if m not in foreign]
        if res_new:
            res = dict(res)
            res["modules_imported"] = res_new[:40]
    return res


# ----------------------------------------------------------------------------- reads of a jmc.txt name before read_cert assigned it (round 4)

class StaleName:
    """class-level descriptor: DataPack.<attr> (and <instance>.<attr>) reads go through __get__ until `DataPack.<attr> = …` replaces it"""

    def __init__(self, attr, value, log):
        self.attr, self.value, self.log = attr, value, log

    def __get__(self, inst, owner):
        stack = []
        f = sys._getframe(1)
        while f is not None and len(stack) < 6:
            fn = f.f_code.co_filename.replace(os.sep, "/")
            if "/jmc/" in fn:
                stack.append("%s:%s:%d" % (fn.split("/jmc/", 1)[1], f.f_code.co_name, f.f_lineno))
            f = f.f_back
        if len(self.log) < 50:
            self.log.append({"attr": self.attr, "stack": stack})
        return self.value


class NameReads:
    def __init__(self, attrs):
        self.attrs, self.log = list(attrs), []

    def begin(self):
        from jmc.compile.datapack import DataPack
        self.log = []
        for a in self.attrs:
            cur = DataPack.__dict__.get(a)
            if cur is None:
                continue
            value = cur.value if isinstance(cur, StaleName) else cur
            type.__setattr__(DataPack, a, StaleName(a, value, self.log))

    def end(self):
        seen, out = set(), []
        for r in self.log:
            if any(x.startswith("compile/compiling.py:read_cert:") for x in r["stack"]):
                continue        # the default source of read_cert: modelled (SrcInputOrPrev) and judged by the regenerated obligation
            key = (r["attr"], tuple(r["stack"][:2]))
            if key not in seen:
                seen.add(key)
                out.append(r)
        return out[:12]


# ----------------------------------------------------------------------------- global-state fingerprint

def fingerprint(obj, depth, seen):
    if obj is None or isinstance(obj, (bool, int, float, str, bytes)):
        return repr(obj)
    if id(obj) in seen:
        return "<cycle>"
    if depth <= 0:
        return "<deep:%s>" % type(obj).__name__
    import types
    if isinstance(obj, (types.FunctionType, types.BuiltinFunctionType, types.MethodType, type, types.ModuleType)):
        return "<ref:%s>" % getattr(obj, "__qualname__", getattr(obj, "__name__", "?"))
    seen = seen | {id(obj)}
    if isinstance(obj, (list, tuple)):
        return [fingerprint(x, depth - 1, seen) for x in obj]
    if isinstance(obj, (set, frozenset)):
        return sorted(json.dumps(fingerprint(x, depth - 1, seen), sort_keys=True, default=str) for x in obj)
    if isinstance(obj, dict):
        return {repr(k) if not isinstance(k, type) else k.__name__: fingerprint(v, depth - 1, seen) for k, v in obj.items()}
    if isinstance(obj, io.StringIO):
        return "<StringIO len=%d>" % len(obj.getvalue())
    if isinstance(obj, Path):
        return "<Path>"
    attrs = {}
    d = getattr(obj, "__dict__", None)
    if isinstance(d, dict):
        attrs.update(d)
    for cls in type(obj).__mro__:
        for s in getattr(cls, "__slots__", ()) or ():
            if isinstance(s, str) and hasattr(obj, s):
                try:
                    attrs[s] = getattr(obj, s)
                except Exception:  # noqa
                    pass
            m = "_%s%s" % (cls.__name__.lstrip("_"), s) if isinstance(s, str) and s.startswith("__") and not s.endswith("__") else None
            if m and hasattr(obj, m):
                attrs[m] = getattr(obj, m)
    if not attrs:
        return "<%s>" % type(obj).__name__
    return {"<type>": type(obj).__name__, **{k: fingerprint(v, depth - 1, seen) for k, v in attrs.items()}}


def global_state():
    """{path: fingerprint} for module globals and class attributes of every loaded jmc module"""
    import types
    out = {}
    seen_ids = set()
    for mname in sorted(m for m in sys.modules if m == "jmc" or m.startswith("jmc.")):
        mod = sys.modules[mname]
        for name, obj in sorted(vars(mod).items()):
            if name.startswith("__") and name.endswith("__"):
                continue
            if isinstance(obj, (types.ModuleType, types.FunctionType, types.BuiltinFunctionType)):
                continue
            if isinstance(obj, type):
                if obj.__module__ != mname:
                    continue
                for an, av in sorted(vars(obj).items()):
                    if an.startswith("__") and an.endswith("__"):
                        continue
                    if isinstance(av, (types.FunctionType, staticmethod, classmethod, property, types.MemberDescriptorType,
                                       types.GetSetDescriptorType, types.WrapperDescriptorType, types.MethodDescriptorType)):
                        continue
                    out[f"{mname}.{name}.{an}"] = fingerprint(av, 5, frozenset())
                continue
            if id(obj) in seen_ids:
                continue
            seen_ids.add(id(obj))
            fp = fingerprint(obj, 5, frozenset())
            if isinstance(fp, dict) and fp.get("<type>"):
                for k, v in fp.items():
                    out[f"{mname}.{name}.{k}"] = v
            else:
                out[f"{mname}.{name}"] = fp
    # strengthening round 2: state that lives in FUNCTION objects - mutable default arguments, containers captured by a closure
    # (hand-written memo decorators), functools caches (only their size: what they hold is examined by the cache audit)
    for path, fn in iter_functions():
        for i, dv in enumerate(getattr(fn, "__defaults__", None) or ()):
            if isinstance(dv, (list, dict, set)):
                out[f"{path}.<default {i}>"] = fingerprint(dv, 4, frozenset())
        for k, dv in (getattr(fn, "__kwdefaults__", None) or {}).items():
            if isinstance(dv, (list, dict, set)):
                out[f"{path}.<default {k}>"] = fingerprint(dv, 4, frozenset())
        code = getattr(fn, "__code__", None)
        for nm, cell in zip(getattr(code, "co_freevars", ()), getattr(fn, "__closure__", None) or ()):
            try:
                cv = cell.cell_contents
            except ValueError:
                continue
            if isinstance(cv, (list, dict, set)):
                out[f"{path}.<closure {nm}>"] = fingerprint(cv, 4, frozenset())
    for path, w in discover_caches().items():
        try:
            out[f"{path}.<functools-cache>"] = "size %d" % w.cache_info().currsize
        except Exception:  # noqa
            pass
    # singletons: one entry per field
    try:
        from jmc.compile.utils import SingleTonMeta
        for cls, inst in SingleTonMeta._instances.items():
            fp = fingerprint(inst, 5, frozenset())
            if isinstance(fp, dict):
                for k, v in fp.items():
                    out[f"<singleton>{cls.__name__}.{k}"] = v
    except Exception:  # noqa
        pass
    return out


# ----------------------------------------------------------------------------- functions, functools caches (strengthening round 2)

def _unwrap_attr(av):
    if isinstance(av, (staticmethod, classmethod)):
        return av.__func__
    if isinstance(av, property):
        return av.fget
    return av


def iter_slots():
    """(path, holder, name, raw attribute) for every module-level name and class attribute of the loaded jmc modules"""
    import types
    for mname in sorted(m for m in sys.modules if m == "jmc" or m.startswith("jmc.")):
        mod = sys.modules[mname]
        for name, obj in sorted(vars(mod).items()):
            if name.startswith("__") and name.endswith("__"):
                continue
            if isinstance(obj, types.ModuleType):
                continue
            if isinstance(obj, type):
                if obj.__module__ != mname:
                    continue
                for an, av in sorted(vars(obj).items()):
                    if not (an.startswith("__") and an.endswith("__")):
                        yield f"{mname}.{name}.{an}", obj, an, av
                continue
            yield f"{mname}.{name}", mod, name, obj


def is_cache(o):
    return hasattr(o, "cache_info") and hasattr(o, "cache_clear") and hasattr(o, "__wrapped__") and not getattr(o, "_c12_proxy", False)


def iter_functions():
    """(path, plain function) incl. the functions behind staticmethod / classmethod / property / decorators (__wrapped__ chain)"""
    import types
    seen = set()
    for path, holder, name, raw in iter_slots():
        o, depth = _unwrap_attr(raw), 0
        while o is not None and depth < 5:
            if isinstance(o, types.FunctionType) and not getattr(o, "_c12_proxy", False):
                if (getattr(o, "__module__", "") or "").startswith("jmc") and id(o) not in seen:
                    seen.add(id(o))
                    yield (path if depth == 0 else f"{path}<wrapped {depth}>"), o
                # a decorator's inner function keeps the decorated one (and any memo) in its closure: visible as closure cells
            o = getattr(o, "__wrapped__", None)
            depth += 1


def discover_caches():
    """{path: functools cache wrapper} reachable from a module-level name or class attribute of the package (directly, behind
    staticmethod / classmethod, or down a __wrapped__ chain, or in a closure cell of such a function)"""
    out, seen = {}, set()
    for path, holder, name, raw in iter_slots():
        o, depth = _unwrap_attr(raw), 0
        if getattr(o, "_c12_proxy", False):
            o = o._c12_cache
        while o is not None and depth < 5:
            if is_cache(o):
                if id(o) not in seen:
                    seen.add(id(o))
                    out[path] = o
                break
            for cell in getattr(o, "__closure__", None) or ():
                try:
                    cv = cell.cell_contents
                except ValueError:
                    continue
                if is_cache(cv) and id(cv) not in seen:
                    seen.add(id(cv))
                    out[path + "<closure>"] = cv
            o = getattr(o, "__wrapped__", None)
            depth += 1
    return out


def value_like(x, depth=0):
    import enum
    if x is None or isinstance(x, (bool, int, float, str, bytes, enum.Enum, Path)):
        return True
    if isinstance(x, (tuple, frozenset)) and depth < 4:
        return all(value_like(y, depth + 1) for y in x)
    import types
    if isinstance(x, (type, types.FunctionType, types.ModuleType, types.BuiltinFunctionType)):
        return True                     # identity-stable for the life of the process
    try:                                # the singletons (Header, GlobalData): the same object in every compile
        from jmc.compile.utils import SingleTonMeta
        if any(x is inst for inst in SingleTonMeta._instances.values()):
            return True
    except Exception:  # noqa
        pass
    t = type(x)                         # hashed by value (frozen dataclass with eq, NamedTuple ...): an equal key of a later compile hits the entry
    return getattr(t, "__eq__", object.__eq__) is not object.__eq__ and getattr(t, "__hash__", None) not in (None, object.__hash__)


class CacheAudit:
    """Every functools cache of the package that a module-level name / class attribute refers to directly is called through a recording
    proxy.  After every compile, every entry stored by an EARLIER compile is recomputed with the un-cached function under the state the
    compile just left behind (its header definitions, its names ...): a memo whose key determines its value gives the cached value again;
    one keyed by less than what the value depends on (the expression text but not the number macros, the folder but not its content)
    does not - a witness (arguments, cached value, value now, the two projects).  Hits on entries stored by an earlier compile are
    recorded too (the pairs of projects whose results are at stake)."""

    def __init__(self):
        self.caches = {}        # path -> dict(w=wrapper, keys={key: (compile index, id)}, cross_hits=[...], intercepted=bool)
        self.current = (-1, None)
        self.witnesses = []
        self.recomputed = {}

    def install(self):
        import functools
        for path, w in discover_caches().items():
            if path in self.caches or any(c["w"] is w for c in self.caches.values()):
                continue
            rec = self.caches[path] = dict(w=w, keys={}, cross_hits=[], intercepted=False, calls=0)
            proxy = self.make_proxy(rec, w)
            for p2, holder, name, raw in list(iter_slots()):
                target = _unwrap_attr(raw)
                if target is w:
                    new = proxy
                    if isinstance(raw, staticmethod):
                        new = staticmethod(proxy)
                    elif isinstance(raw, classmethod):
                        new = classmethod(proxy)
                    try:
                        setattr(holder, name, new)
                        rec["intercepted"] = True
                    except Exception:  # noqa
                        pass

    def make_proxy(self, rec, w):
        import functools
        audit = self

        def proxy(*a, **kw):
            try:
                before = w.cache_info()
            except Exception:  # noqa
                return w(*a, **kw)
            r = w(*a, **kw)
            try:
                after = w.cache_info()
                key = (a, tuple(sorted(kw.items())))
                hash(key)
                rec["calls"] += 1
                if after.misses > before.misses:
                    if len(rec["keys"]) < 400:
                        rec["keys"].setdefault(key, audit.current)
                elif after.hits > before.hits:
                    src = rec["keys"].get(key)
                    if src is not None and src[0] != audit.current[0] and len(rec["cross_hits"]) < 200:
                        rec["cross_hits"].append((key, src, audit.current))
            except Exception:  # noqa
                pass
            return r
        try:
            functools.update_wrapper(proxy, w)
        except Exception:  # noqa
            pass
        proxy._c12_proxy = True
        proxy._c12_cache = w
        proxy.cache_info = w.cache_info
        proxy.cache_clear = w.cache_clear
        return proxy

    def begin(self, index, pid):
        self.current = (index, pid)

    def end(self):
        """recompute what earlier compiles stored, under the state this compile left"""
        self.install()          # modules imported lazily by this compile
        for path, rec in self.caches.items():
            w = rec["w"]
            n = 0
            for key, src in list(rec["keys"].items()):
                if src[0] == self.current[0] or n >= 40:
                    continue
                a, kw = key[0], dict(key[1])
                if not (value_like(a) and value_like(tuple(kw.values()))):
                    continue
                n += 1
                try:
                    h0 = w.cache_info().hits
                    cached = w(*a, **kw)
                    if w.cache_info().hits == h0:          # evicted meanwhile: that call recomputed and stored it
                        rec["keys"][key] = self.current
                        continue
                except Exception:  # noqa
                    continue
                try:
                    fresh = w.__wrapped__(*a, **kw)
                    same = type(fresh) is type(cached) and (fresh == cached or repr(fresh) == repr(cached))
                    fr = repr(fresh)[:300]
                except BaseException as e:  # noqa
                    if isinstance(e, (_Timeout, KeyboardInterrupt)):
                        raise
                    if isinstance(e, OSError):      # the file / folder the entry was computed from is gone: not a statement about the memo
                        continue
                    same, fr = False, "raises %s: %s" % (type(e).__name__, str(e)[:120])
                self.recomputed[path] = self.recomputed.get(path, 0) + 1
                if not same and sum(1 for x in self.witnesses if x["cache"] == path) < 6:
                    hit = any(k2 == key and cur[0] == self.current[0] for k2, s2, cur in rec["cross_hits"])
                    self.witnesses.append(dict(cache=path, arguments=repr(a)[:300] + (repr(kw)[:100] if kw else ""), cached=repr(cached)[:300],
                                               now=fr, stored_by=src[1], stored_at=src[0], recomputed_after=self.current[1],
                                               recomputed_at=self.current[0], hit_in_that_compile=hit))

    def report(self, root=""):
        if root:
            for w in self.witnesses:
                for k in ("arguments", "cached", "now"):
                    w[k] = w[k].replace(root, "<ROOT>")
        out = []
        for path, rec in self.caches.items():
            try:
                info = rec["w"].cache_info()
                size, hits, misses = info.currsize, info.hits, info.misses
            except Exception:  # noqa
                size = hits = misses = -1
            out.append(dict(cache=path, entries=size, hits=hits, misses=misses, intercepted=rec["intercepted"], recorded_calls=rec["calls"],
                            recorded_keys=len(rec["keys"]), recomputed=self.recomputed.get(path, 0),
                            hits_on_entries_of_an_earlier_compile=len(rec["cross_hits"]),
                            cross_hit_pairs=sorted({(s[1], c[1]) for _, s, c in rec["cross_hits"]})[:20]))
        return dict(caches=out, witnesses=self.witnesses)


# ----------------------------------------------------------------------------- self-test and reach instrumentation

def install_keep_field(field):
    """Undo the reset of ONE Header field: Header.__clear runs, then the field gets back the object it held before.
    This is what a missing reset, or a reset that re-installs a shared object, looks like to later compiles."""
    from jmc.compile.header import Header
    raw = Header.__dict__["_Header__clear"]
    orig = raw.__func__ if isinstance(raw, staticmethod) else raw
    missing = object()

    def kept(obj):
        old = getattr(obj, field, missing)
        orig(obj)
        if old is not missing:
            setattr(obj, field, old)
    Header._Header__clear = staticmethod(kept)


def install_keep_pyenv():
    from jmc.compile.command.builtin_function.utils.isolated import IsolatedEnvironment
    if hasattr(IsolatedEnvironment, "reset"):
        IsolatedEnvironment.reset = lambda self: None


def global_containers():
    """{path: object} for every mutable container (set / dict / list) bound at module level or as a class attribute in a loaded jmc
    module (one path per object; enum internals, loggers, typing objects and singletons excluded)"""
    import types, enum
    out, seen = {}, set()
    for mname in sorted(m for m in sys.modules if m == "jmc" or m.startswith("jmc.")):
        mod = sys.modules[mname]
        for name, obj in sorted(vars(mod).items()):
            if name.startswith("__") and name.endswith("__"):
                continue
            cands = []
            if isinstance(obj, type) and obj.__module__ == mname and not issubclass(obj, enum.Enum) and obj.__name__ != "SingleTonMeta":
                cands = [(f"{mname}.{name}.{an}", av) for an, av in sorted(vars(obj).items()) if not (an.startswith("__") and an.endswith("__"))]
            elif not isinstance(obj, type):
                cands = [(f"{mname}.{name}", obj)]
            for path, o in cands:
                if isinstance(o, (set, dict, list)) and id(o) not in seen:
                    seen.add(id(o))
                    out[path] = o
    return out


def perturb(obj, how, words):
    """what an aliasing bug does to a shared container: content of some project is ADDED, or entries are DROPPED"""
    if how in ("drop", "both") and len(obj) > 1:
        if isinstance(obj, list):
            del obj[1::2]
        else:
            for k in sorted(obj, key=repr)[1::2]:
                if isinstance(obj, dict):
                    del obj[k]
                else:
                    obj.discard(k)
    if how in ("add", "both") and len(obj) > 0:
        sample = next(iter(obj.values())) if isinstance(obj, dict) else next(iter(obj))
        keylike = next(iter(obj)) if not isinstance(obj, list) else sample
        if not isinstance(keylike, str):
            return
        for w in words:
            if isinstance(obj, dict):
                obj.setdefault(w, sample)
            elif isinstance(obj, set):
                obj.add(w)
            elif isinstance(sample, str):
                obj.append(w)


class Tracer:
    """Counts, per compile, which set-iteration sites of the regenerated table were executed and with how many elements,
    how many elements every set-typed attribute of Header / DataPack / Lexer held, and which Header fields a compile left
    different from their reset value."""

    def __init__(self, spec):
        import ast
        self.sites = []
        for k, st in enumerate(spec.get("sites") or []):
            try:
                code = compile(ast.Expression(ast.parse(st["expr"], mode="eval").body), "<site>", "eval") if st.get("evaluable") else None
            except SyntaxError:
                code = None
            self.sites.append(dict(st, k=k, code=code))
        # insertion sites of the iterated sets (round 3): reached or not, by line
        for k, st in enumerate(spec.get("inserts") or []):
            self.sites.append(dict(st, k=k, code=None, insert=True))
        self.set_elems = spec.get("set_elems") or {}
        self.by_code = {}
        self.cur = None
        self.datapacks = []
        self.set_attrs = spec.get("set_attrs") or {}
        self.fields = spec.get("fields") or []
        self.baseline = {}

    def start(self):
        from jmc.compile.header import Header
        from jmc.compile.datapack import DataPack
        Header.clear()
        h = Header()
        self.baseline = {f: json.dumps(fingerprint(getattr(h, f, None), 4, frozenset()), sort_keys=True, default=str) for f in self.fields}
        tr = self
        orig_init = DataPack.__init__

        def init(self_, *a, **kw):
            tr.datapacks.append(self_)
            return orig_init(self_, *a, **kw)
        DataPack.__init__ = init
        sys.settrace(self.global_trace)

    def global_trace(self, frame, event, arg):
        code = frame.f_code
        hit = self.by_code.get(code)
        if hit is None:
            fn = code.co_filename.replace(os.sep, "/")
            hit = [s for s in self.sites if s["func"] == code.co_name and fn.endswith("/jmc/" + s["file"])
                   and code.co_firstlineno <= s["line"]]
            self.by_code[code] = hit
        if not hit:
            return None

        def local(frame, event, arg):
            if event == "line" and self.cur is not None:
                ln = frame.f_lineno
                for s in hit:
                    if s["line"] <= ln <= s["end_line"]:
                        if s.get("insert"):
                            self.cur["inserts"][s["k"]] = 1
                            continue
                        n = -1
                        if s["code"] is not None:
                            try:
                                n = len(eval(s["code"], frame.f_globals, frame.f_locals))
                            except Exception:  # noqa
                                n = -1
                        self.cur["sites"][s["k"]] = max(self.cur["sites"].get(s["k"], -1), n)
            return local
        return local

    def begin(self):
        self.cur = {"sites": {}, "inserts": {}}
        self.datapacks.clear()

    def end(self):
        from jmc.compile.header import Header
        cur, self.cur = self.cur, None
        h = Header()
        cur["mutated"] = [f for f in self.fields
                          if json.dumps(fingerprint(getattr(h, f, None), 4, frozenset()), sort_keys=True, default=str) != self.baseline[f]]
        sizes, type_errors = {}, []
        objs = [("Header", h)] + [("DataPack", d) for d in self.datapacks] + [("Lexer", getattr(d, "lexer", None)) for d in self.datapacks]
        for d in self.datapacks:
            data = getattr(d, "data", None)
            if data is not None:
                objs.append((type(data).__name__, data))
                for v in list(getattr(data, "__dict__", {}).values()):
                    if isinstance(v, dict):
                        objs += [(type(x).__name__, x) for x in v.values() if hasattr(x, "__dict__") or hasattr(x, "__slots__")]
        for owner, o in objs:
            for attr, own in self.set_attrs.items():
                if own != owner or o is None:
                    continue
                try:
                    v = getattr(o, attr)
                except Exception:  # noqa
                    continue
                if isinstance(v, (set, frozenset)):
                    sizes[f"{owner}.{attr}"] = max(sizes.get(f"{owner}.{attr}", 0), len(v))
                    want = self.set_elems.get(attr)
                    if want in ("int", "str", "Path"):
                        for x in v:
                            good = (type(x) is int) if want == "int" else isinstance(x, str) if want == "str" else isinstance(x, os.PathLike)
                            if not good:
                                type_errors.append(dict(set=f"{owner}.{attr}", annotated=f"set[{want}]", element=repr(x)[:60], type=type(x).__name__))
        cur["set_sizes"] = sizes
        cur["set_type_errors"] = type_errors[:5]
        self.datapacks.clear()
        return cur


def main():
    import logging
    logging.disable(logging.CRITICAL)
    signal.signal(signal.SIGALRM, _alarm)
    req = json.load(sys.stdin)
    real_stdout = sys.stdout
    sys.stdout = open(os.devnull, "w")
    root = Path(tempfile.mkdtemp(prefix="c12_")).resolve()
    cwd = os.getcwd()
    os.chdir(root)
    results, diff = [], None
    try:
        import jmc.compile  # noqa  (load the package before the first snapshot)
        import jmc.api  # noqa
        import jmc.terminal  # noqa
        from jmc.terminal import GlobalData
        try:
            GlobalData().init("x", "jmc_config.json")
        except Exception:  # noqa
            pass
        from jmc.compile.header import Header
        Header()                # the singleton exists before the first snapshot: only CHANGED fields are reported
        if req.get("list_globals"):
            sys.stdout = real_stdout
            json.dump({"globals": [dict(path=k, type=type(v).__name__, size=len(v)) for k, v in global_containers().items()]}, sys.stdout)
            return
        if req.get("perturb"):
            gc_ = global_containers()
            for path in req["perturb"]["paths"]:
                if path in gc_:
                    perturb(gc_[path], req["perturb"]["how"], req["perturb"].get("words") or [])
        if req.get("keep_field"):
            install_keep_field(req["keep_field"])
        if req.get("keep_pyenv"):
            install_keep_pyenv()
        tracer = Tracer(req["trace"]) if req.get("trace") else None
        if tracer:
            tracer.start()
        audit = CacheAudit() if req.get("audit") else None
        if audit:
            audit.install()
        namereads = NameReads(req.get("name_attrs") or ["load_name", "tick_name", "private_name", "var_name", "int_name", "storage_name"]) \
            if req.get("namereads") else None
        before = global_state() if req.get("statediff") else None
        counter = {}
        argstore = {} if req.get("reuse_args") else None
        changed = set()
        for index, item in enumerate(req["seq"]):
            if tracer:
                tracer.begin()
            if audit:
                audit.begin(index, item["id"])
            if namereads:
                namereads.begin()
            r = run_item(item, root, counter, argstore)
            if LAST_OS_CHANGE[0]:
                imported = LAST_OS_CHANGE[0].pop("modules_imported", None)
                if imported:
                    r["modules_imported"] = imported
                if LAST_OS_CHANGE[0]:
                    r["os_changed"] = LAST_OS_CHANGE[0]
            if namereads:
                r["stale_reads"] = namereads.end()
            if audit:
                signal.alarm(60)
                try:
                    audit.end()
                except _Timeout:
                    pass
                finally:
                    signal.alarm(0)
            if argstore is not None:        # did the compile change the objects it was given?
                st = argstore.get(item["id"], {})
                r["args_mutated"] = [n for n, spec in (("envs", list(item.get("envs") or [])), ("jmc_txt", cert_dict(item.get("cert") or "")))
                                     if n in st and st[n] != spec]
            if tracer:
                r["trace"] = tracer.end()
            if r.get("ok"):
                r["files"] = {norm(k, str(root)): norm(v, str(root)) for k, v in r["files"].items()}
            else:
                r["msg"] = norm(r["msg"], str(root))
            results.append(r)
            if before is not None:          # what did THIS compile write?  (union over the sequence)
                after = global_state()
                changed.update(k for k in set(before) | set(after) if before.get(k) != after.get(k))
                before = after
        if before is not None:
            diff = sorted(changed)
    finally:
        sys.settrace(None)
        os.chdir(cwd)
        shutil.rmtree(root, ignore_errors=True)
    sys.stdout = real_stdout
    json.dump({"results": results, "statediff": diff, **({"audit": audit.report(str(root))} if audit else {})}, sys.stdout)


if __name__ == "__main__":
    main()
