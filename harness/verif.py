"""Entry point:  ./check Cxx [--tier quick|thorough] [--replay path]"""
import argparse
import importlib
import os
import sys
import traceback

sys.path.insert(0, os.path.dirname(os.path.abspath(__file__)))


def main():
    ap = argparse.ArgumentParser()
    ap.add_argument("prop")
    ap.add_argument("--tier", default=os.environ.get("VERIF_TIER", "quick"), choices=["quick", "thorough"])
    ap.add_argument("--replay", default=None)
    a = ap.parse_args()
    prop = a.prop.upper()
    try:
        mod = importlib.import_module(prop.lower())
    except ModuleNotFoundError:
        print(f"no check for {prop}", file=sys.stderr)
        return 2
    try:
        if a.replay:
            return mod.replay(a.replay)
        return mod.main(a.tier)
    except Exception:  # a crash of the machinery is reported as such, never silently passed
        traceback.print_exc()
        from lib import Check
        ck = Check(prop, a.tier)
        ck.violation({"kind": "check-crashed", "traceback": traceback.format_exc()[-4000:]}, no_input=True)
        ck.cov.update(dict(obligations=1, discharged=0, checker_cmd="(check crashed)", trusted_base=[]))
        ck.finish()
        return 1


if __name__ == "__main__":
    sys.exit(main())
