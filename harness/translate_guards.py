"""translate_guards.py — regenerates the length-guard proof obligations of JMC's positional parsers (property C13).

For every function named in TARGETS the Python source of the tree under test is read with `ast`; for every
subscript  x[k], x[-k], x[p + k], x[p - k], x[p]  (x a name / dotted name, k an integer literal, p an integer
variable) the translator collects the *dominating facts* about len(x) — the tests of the enclosing `if`s in the
polarity in which they are known, the negation of tests whose branch always leaves (raise / return / continue /
break), `assert`s, the left operands of `and` / `or` — and writes the obligation

        forall lens, 0 <= len_x -> facts -> 0 <= p -> index < len_x        (resp. k <= len_x for x[-k])

into coq/Gen/C13/Guards.v, where it must be closed by `lia`.  Nothing is decided in Python: the translator only
transports tests into Coq syntax, always *weakening* (a test it cannot express becomes True).

Fail-closed: an access whose index it cannot express, a base it cannot name, or an obligation `lia` does not close
is reported as `open` and never counted as discharged.

Facts about lengths are versioned: an assignment to x, `del x[..]`, or a mutating method call (append, insert, pop,
extend, remove, clear) starts a new version of len(x) (with the exact relation for `x = x[k:]`, `del x[k]`,
append / insert); loops and try-bodies forget every variable they may modify.

Round 4 (vanilla macros): the helpers that are CALLED with positions / slices are analysed too
(Tokenizer.merge_vanilla_macro, Tokenizer.merge_tokens, condition_to_ast, find_operator, custom_condition,
FuncContent.__optimize / __parse_commands / __expect_command).  What such a function may assume about its
parameters is its PRECONDITION (table PRECONDITIONS: `key_pos >= 0`, `len(tokens) >= 1`); every assumption is turned
into an OBLIGATION at every call site inside the analysed functions (`0 <= argument`, `1 <= len(argument)`, with
Python's slice lengths), and for the functions marked `complete` every call site of the tree must lie inside an
analysed function.  A call `x.merge_vanilla_macro(tokens, k)` replaces len(tokens) by a new version with the facts
of the theorem about its model (C13_macro_merge_total / C13_macro_nonempty: never longer, at most two shorter,
non-empty stays non-empty); a loop that changes a list ONLY through such calls keeps `never longer` and `non-empty
stays non-empty` as its invariant.  A call of a method of `self` forgets every fact about `self.*` attributes.

Producer facts (the only assumptions about parameters; both are theorems about the model of the producer):
  * a parameter listed in STATEMENT_PARAMS is a statement of `Tokenizer.programs` (or a non-empty slice of one):
    len >= 1                                     [C13_tok_nonempty]
  * a name assigned from `<tokenizer>.parse(...)` is a list of statements, each of length >= 1; so are loop
    variables ranging over it                    [C13_tok_nonempty]
"""
from __future__ import annotations

import ast
import re
from pathlib import Path

TARGETS = {
    "src/jmc/compile/command/_flow_control.py": ["if_", "macro_if", "else_", "while_", "do", "switch", "for_",
                                                 "__handle_for", "async_"],
    "src/jmc/compile/lexer.py": ["parse_func_tokens", "parse_new", "parse_class", "parse_decorated_function",
                                 "parse_file", "parse_class_content", "_is_vanilla_func"],
    "src/jmc/compile/command/var_operation.py": ["variable_operation"],
    # round 4
    "src/jmc/compile/tokenizer.py": ["merge_vanilla_macro", "merge_tokens"],
    "src/jmc/compile/command/condition.py": ["condition_to_ast", "find_operator", "custom_condition", "parse_condition"],
    "src/jmc/compile/lexer_func_content.py": ["__optimize", "__parse_commands", "__expect_command"],
}
# functions analysed since round 4: nothing is assumed about their parameters except their PRECONDITIONS
NO_STATEMENT_PARAMS = {"merge_vanilla_macro", "merge_tokens", "condition_to_ast", "find_operator", "custom_condition",
                       "parse_condition", "__optimize", "__parse_commands", "__expect_command"}
# function -> what it may assume (checked at the call sites): integer parameters that are >= 0, sequence parameters
# that are non-empty; complete: every call site in jmc/compile must be inside an analysed function
PRECONDITIONS = {
    "merge_vanilla_macro": dict(nonneg=["key_pos"], nonempty=[], complete=True),
    "merge_tokens": dict(nonneg=[], nonempty=["tokens"], complete=False),
    "condition_to_ast": dict(nonneg=[], nonempty=["tokens"], complete=True),
    "find_operator": dict(nonneg=[], nonempty=["_tokens"], complete=True),
    "custom_condition": dict(nonneg=[], nonempty=["tokens"], complete=True),
    "__expect_command": dict(nonneg=["key_pos"], nonempty=[], complete=True),
}
# attributes that hold a statement of Tokenizer.programs (FuncContent.command): len >= 1 [C13_tok_nonempty, and
# C13_macro_nonempty for the merges done in place]
STATEMENT_ATTRS = {"__parse_commands": ["self.command"], "__expect_command": ["self.command"]}
# method -> position of the list argument it shrinks in place (theorem about Model/TokMacro.v: merge_vm_post)
SHRINKERS = {"merge_vanilla_macro": 0}
SELF_ALL = "self.*"
# parameters that are statements (elements of Tokenizer.programs, or slices proved non-empty at the call site)
STATEMENT_PARAMS = {"command", "tokens"}
MUTATORS_EXACT = {"append": 1, "insert": 1}
MAX_DISJ = 6     # path-sensitive joins kept per path (lia splits on each)
MUTATORS = {"append", "insert", "pop", "extend", "remove", "clear", "sort", "reverse"}


def always_exits(body) -> bool:
    if not body:
        return False
    last = body[-1]
    if isinstance(last, (ast.Raise, ast.Return, ast.Continue, ast.Break)):
        return True
    if isinstance(last, ast.If) and last.orelse:
        return always_exits(last.body) and always_exits(last.orelse)
    return False


def base_name(e) -> str | None:
    """a name for the sequence being indexed: x, self.x, a.b.c"""
    if isinstance(e, ast.Name):
        return e.id
    if isinstance(e, ast.Attribute):
        b = base_name(e.value)
        return None if b is None else b + "." + e.attr
    return None


PURE_BUILTINS = {"len", "isinstance", "str", "int", "bool", "repr", "print", "range", "enumerate", "zip", "min", "max",
                 "sorted", "any", "all", "tuple", "set", "frozenset", "float", "type", "id", "hash", "iter", "reversed", "sum"}
# filled by analyse_tree: function name -> (FunctionDef, parameter names) for every function of jmc/compile defined once
DEFS: dict = {}
_PURITY_CACHE: dict = {}
# filled by analyse_tree: function / method name -> parameter names without `self`, for every name defined exactly once
ALLDEFS: dict = {}


def reads_only(fname: str, pos: int, depth: int = 0) -> bool:
    """does the (uniquely named) function leave its pos-th positional parameter's length alone?
    Syntactic: the parameter is never a del / subscript-assignment target, never receives a mutating method,
    is never rebound or aliased, and is passed on only to functions that (recursively, depth <= 2) read only."""
    key = (fname, pos)
    if key in _PURITY_CACHE:
        return _PURITY_CACHE[key]
    _PURITY_CACHE[key] = False
    d = DEFS.get(fname)
    if d is None or depth > 2:
        return False
    fn, params = d
    if pos >= len(params):
        return False
    p = params[pos]
    ok = True
    for x in ast.walk(fn):
        if isinstance(x, ast.Name) and x.id == p and not isinstance(x.ctx, ast.Load):
            ok = False
        elif isinstance(x, (ast.Delete,)):
            for t in x.targets:
                if isinstance(t, ast.Subscript) and base_name(t.value) == p:
                    ok = False
        elif isinstance(x, ast.Subscript) and base_name(x.value) == p and not isinstance(x.ctx, ast.Load):
            ok = False
        elif isinstance(x, ast.Call):
            if isinstance(x.func, ast.Attribute) and base_name(x.func.value) == p and x.func.attr in MUTATORS:
                ok = False
            for i, a in enumerate(x.args):
                if isinstance(a, ast.Name) and a.id == p:
                    if isinstance(x.func, ast.Name) and x.func.id in PURE_BUILTINS:
                        continue
                    if isinstance(x.func, ast.Name) and reads_only(x.func.id, i, depth + 1):
                        continue
                    ok = False
            for k in x.keywords:
                if isinstance(k.value, ast.Name) and k.value.id == p:
                    ok = False
        elif isinstance(x, (ast.Assign, ast.AnnAssign)) and isinstance(getattr(x, "value", None), ast.Name) and x.value.id == p:
            ok = False      # alias
        elif isinstance(x, (ast.Return, ast.Yield)) and isinstance(x.value, ast.Name) and x.value.id == p:
            ok = False      # escapes
    _PURITY_CACHE[key] = ok
    return ok


def callee_guards(fname: str, pos: int):
    """[(test, positive=False)] : tests of the callee's top-level `if test: raise ...` statements that come before
    any `return`, provided the parameter is read-only there.  They are false whenever the callee returns normally."""
    d = DEFS.get(fname)
    if d is None or not reads_only(fname, pos):
        return None, []
    fn, params = d
    out = []
    for st in fn.body:
        if any(isinstance(x, ast.Return) for x in ast.walk(st)):
            break
        if isinstance(st, ast.If) and not st.orelse and st.body and all(isinstance(b, ast.Raise) for b in st.body[-1:]) \
                and always_exits(st.body):
            out.append(st.test)
    return params[pos], out


def call_may_mutate(call: ast.Call, argpos: int) -> bool:
    f = call.func
    if isinstance(f, ast.Name):
        if f.id in PURE_BUILTINS or f.id.endswith(("Exception", "Error", "Warning")):
            return False
        return not reads_only(f.id, argpos)
    return True


def shrink_call(x) -> str | None:
    """x = `<obj>.merge_vanilla_macro(<name>, ..)` -> the name of the list it shrinks in place"""
    if isinstance(x, ast.Call) and isinstance(x.func, ast.Attribute) and x.func.attr in SHRINKERS:
        i = SHRINKERS[x.func.attr]
        if i < len(x.args):
            return base_name(x.args[i])
    return None


def modified_names(nodes, skip_shrink: bool = False) -> set[str]:
    """names whose length may change anywhere inside the given statements (`self.*` = every attribute of self: a method
    of self was called); skip_shrink: calls of SHRINKERS are not counted for the list they shrink"""
    out = set()
    for n in nodes:
        for x in ast.walk(n):
            if isinstance(x, ast.Call) and isinstance(x.func, ast.Attribute) and base_name(x.func.value) == "self":
                out.add(SELF_ALL)
            if isinstance(x, ast.Call) and any(base_name(a) == "self" for a in x.args):
                out.add(SELF_ALL)
            if skip_shrink and shrink_call(x) is not None:
                sh = shrink_call(x)
                for i, a in enumerate(x.args):
                    b = base_name(a)
                    if b and b != sh and call_may_mutate(x, i):
                        out.add(b)
                continue
            if isinstance(x, (ast.Assign, ast.AnnAssign, ast.AugAssign)):
                targets = x.targets if isinstance(x, ast.Assign) else [x.target]
                for t in targets:
                    for y in ast.walk(t):
                        b = base_name(y) if isinstance(y, (ast.Name, ast.Attribute)) else None
                        if b and not isinstance(getattr(y, "ctx", None), ast.Load):
                            out.add(b)
            elif isinstance(x, ast.Delete):
                for t in x.targets:
                    if isinstance(t, ast.Subscript):
                        b = base_name(t.value)
                        if b:
                            out.add(b)
                    else:
                        b = base_name(t)
                        if b:
                            out.add(b)
            elif isinstance(x, ast.Call) and isinstance(x.func, ast.Attribute) and x.func.attr in MUTATORS:
                b = base_name(x.func.value)
                if b:
                    out.add(b)
            elif isinstance(x, (ast.For, ast.comprehension)):
                for y in ast.walk(x.target):
                    if isinstance(y, ast.Name):
                        out.add(y.id)
            elif isinstance(x, ast.NamedExpr):
                out.add(x.target.id)
            elif isinstance(x, ast.Call):
                # a list passed to a callee may be mutated there (merge_vanilla_macro(tokens, i) does)
                for i, a in enumerate(x.args):
                    b = base_name(a)
                    if b and call_may_mutate(x, i):
                        out.add(b)
                for k in x.keywords:
                    b = base_name(k.value)
                    if b and not (isinstance(x.func, ast.Name) and x.func.id.endswith(("Exception", "Error", "Warning"))):
                        out.add(b)
    return out


class Env:
    """versions of len(x), integer variables, facts (Coq propositions as strings)"""

    def __init__(self):
        self.ver: dict[str, int] = {}
        self.facts: list[str] = []
        self.vars: set[str] = set()
        self.intvars: set[str] = set()
        self.elem_nonempty: set[str] = set()       # names that are lists of non-empty statements
        self.seqs: set[str] = set()                # names known to be sequences
        self.known_ints: set[str] = set()          # local names holding an integer the facts speak about

    def copy(self):
        e = Env()
        e.ver, e.facts, e.vars = dict(self.ver), list(self.facts), self.vars
        e.intvars, e.elem_nonempty, e.seqs = self.intvars, set(self.elem_nonempty), self.seqs
        e.known_ints = set(self.known_ints)
        return e

    def lenvar(self, name: str) -> str:
        v = "len_" + re.sub(r"\W", "_", name) + "_" + str(self.ver.get(name, 0))
        self.vars.add(v)
        return v

    def fresh(self, name: str) -> str:
        self.ver[name] = max([self.ver.get(name, 0)] + [int(v.rsplit("_", 1)[1]) for v in self.vars
                                                        if v.rsplit("_", 1)[0] == "len_" + re.sub(r"\W", "_", name)]) + 1
        self.elem_nonempty.discard(name)
        return self.lenvar(name)

    def intvar(self, name: str) -> str:
        v = "i_" + re.sub(r"\W", "_", name)
        self.intvars.add(v)
        return v


class Analyser:
    def __init__(self, file: str, fn: ast.FunctionDef, src_lines):
        self.file, self.fn, self.lines = file, fn, src_lines
        self.obligations = []     # dict(line, expr, vars, intvars, facts, goal)
        self.unanalysed = []      # dict(line, expr, why)
        self.int_params = {a.arg for a in fn.args.args + fn.args.kwonlyargs
                           if isinstance(a.annotation, ast.Name) and a.annotation.id == "int"}
        self.pre = PRECONDITIONS.get(fn.name, dict(nonneg=[], nonempty=[]))
        self.int_params |= set(self.pre["nonneg"])

    def expand(self, names, env: "Env"):
        """`self.*` -> every attribute of self the environment knows"""
        out = []
        for n in sorted(names):
            if n == SELF_ALL:
                known = set(env.ver) | set(env.seqs) | set(env.elem_nonempty)
                known |= {re.sub(r"^len_self_", "self.", v).rsplit("_", 1)[0] for v in env.vars if v.startswith("len_self_")}
                out += sorted(k for k in known if k.startswith("self.") and k not in out)
            elif n not in out:
                out.append(n)
        return out

    def len_term(self, a, env: "Env") -> str | None:
        """Coq term for len(<argument expression>): a name, a list display, a slice x[a:], x[a:b] (bounds >= 0)"""
        b = base_name(a)
        if b is not None:
            env.seqs.add(b)
            return env.lenvar(b)
        if isinstance(a, (ast.List, ast.Tuple)) and not any(isinstance(x, ast.Starred) for x in a.elts):
            return f"({len(a.elts)})"
        if isinstance(a, ast.Subscript) and isinstance(a.slice, ast.Slice) and a.slice.step is None:
            b = base_name(a.value)
            lo = self.term(a.slice.lower, env) if a.slice.lower is not None else "(0)"
            if b is None or lo is None:
                return None
            L = env.lenvar(b)
            env.seqs.add(b)
            if a.slice.upper is None:
                return f"(Z.max 0 ({L} - {lo}))"
            hi = self.term(a.slice.upper, env)
            if hi is None:
                return None
            # valid for 0 <= lo, 0 <= hi only: the obligation carries both as extra goals
            return f"(Z.max 0 (Z.min {hi} {L} - {lo}))"
        return None

    def call_site(self, call: ast.Call, env: "Env"):
        """obligations of the callee's precondition at this call"""
        f = call.func
        name = f.id if isinstance(f, ast.Name) else f.attr if isinstance(f, ast.Attribute) else None
        pre = PRECONDITIONS.get(name)
        if pre is None or name not in ALLDEFS:
            return
        params = ALLDEFS[name]
        bound = {}
        for i, a in enumerate(call.args):
            if i < len(params):
                bound[params[i]] = a
        for k in call.keywords:
            if k.arg:
                bound[k.arg] = k.value
        text = f"{name}({', '.join(self.src(a) for a in call.args)})"
        for p_ in pre["nonneg"]:
            a = bound.get(p_)
            t = self.term(a, env) if a is not None else None
            if t is None:
                self.unanalysed.append(dict(line=call.lineno, expr=text, why=f"precondition 0 <= {p_}: argument is not an integer term"))
                continue
            self.obligations.append(dict(line=call.lineno, expr=f"call {text}: 0 <= {p_}", vars=sorted(env.vars),
                                         intvars=sorted(env.intvars), facts=list(env.facts), goal=f"(0 <= {t})", note="call-site precondition"))
        for p_ in pre["nonempty"]:
            a = bound.get(p_)
            L = self.len_term(a, env) if a is not None else None
            if L is None:
                self.unanalysed.append(dict(line=call.lineno, expr=text, why=f"precondition len({p_}) >= 1: length of the argument is not expressible"))
                continue
            extra = ""
            if isinstance(a, ast.Subscript) and isinstance(a.slice, ast.Slice):
                for bnd in (a.slice.lower, a.slice.upper):
                    if bnd is not None:
                        extra += f" /\\ (0 <= {self.term(bnd, env)})"
            self.obligations.append(dict(line=call.lineno, expr=f"call {text}: len({p_}) >= 1", vars=sorted(env.vars),
                                         intvars=sorted(env.intvars), facts=list(env.facts), goal=f"((1 <= {L}){extra})",
                                         note="call-site precondition"))

    # ---------------------------------------------------------------- linear integer terms
    def term(self, e, env: Env) -> str | None:
        if isinstance(e, ast.Constant) and isinstance(e.value, int) and not isinstance(e.value, bool):
            return f"({e.value})"
        if isinstance(e, ast.Name) and (e.id in self.int_params or e.id in self.loop_ints or e.id in env.known_ints):
            return env.intvar(e.id)
        if isinstance(e, ast.UnaryOp) and isinstance(e.op, ast.USub):
            t = self.term(e.operand, env)
            return None if t is None else f"(- {t})"
        if isinstance(e, ast.BinOp) and isinstance(e.op, (ast.Add, ast.Sub)):
            a, b = self.term(e.left, env), self.term(e.right, env)
            if a is None or b is None:
                return None
            return f"({a} {'+' if isinstance(e.op, ast.Add) else '-'} {b})"
        if isinstance(e, ast.Call) and isinstance(e.func, ast.Name) and e.func.id == "len" and len(e.args) == 1:
            a = e.args[0]
            b = base_name(a)
            if b is not None:
                env.seqs.add(b)
                return env.lenvar(b)
            # len(x[k:]) = max 0 (len x - k)     (k >= 0 literal or integer variable)
            if isinstance(a, ast.Subscript) and isinstance(a.slice, ast.Slice) and a.slice.upper is None \
                    and a.slice.step is None and a.slice.lower is not None:
                b = base_name(a.value)
                k = self.term(a.slice.lower, env)
                if b is not None and k is not None and not k.startswith("(- ") and not k.startswith("(-"):
                    return f"(Z.max 0 ({env.lenvar(b)} - {k}))"
        return None

    # ---------------------------------------------------------------- facts from a test, polarity aware
    def fact(self, t, positive: bool, env: Env) -> str:
        if isinstance(t, ast.BoolOp):
            parts = [self.fact(v, positive, env) for v in t.values]
            conj = isinstance(t.op, ast.And) == positive
            if conj:
                parts = [p for p in parts if p != "True"]
                return "(" + " /\\ ".join(parts) + ")" if parts else "True"
            if any(p == "True" for p in parts):
                return "True"
            return "(" + " \\/ ".join(parts) + ")"
        if isinstance(t, ast.UnaryOp) and isinstance(t.op, ast.Not):
            return self.fact(t.operand, not positive, env)
        if isinstance(t, ast.Compare) and len(t.ops) == 1:
            a, b = self.term(t.left, env), self.term(t.comparators[0], env)
            op = {ast.Lt: "<", ast.LtE: "<=", ast.Gt: ">", ast.GtE: ">=", ast.Eq: "=", ast.NotEq: "<>"}.get(type(t.ops[0]))
            if a is not None and b is not None and op is not None:
                p = f"({a} {op} {b})"
                return p if positive else f"(~ {p})"
            return "True"
        b = base_name(t) if isinstance(t, (ast.Name, ast.Attribute)) else None
        if b is not None and b in self.subscripted:
            # truthiness of a sequence
            return f"({env.lenvar(b)} >= 1)" if positive else f"({env.lenvar(b)} = 0)"
        return "True"

    # ---------------------------------------------------------------- expressions
    def expr(self, e, env: Env):
        if e is None:
            return
        if isinstance(e, ast.BoolOp):
            cur = env.copy()
            for v in e.values:
                self.expr(v, cur)
                f = self.fact(v, isinstance(e.op, ast.And), cur)
                if f != "True":
                    cur.facts.append(f)
            return
        if isinstance(e, ast.IfExp):
            self.expr(e.test, env)
            a, b = env.copy(), env.copy()
            fa, fb = self.fact(e.test, True, a), self.fact(e.test, False, b)
            if fa != "True":
                a.facts.append(fa)
            if fb != "True":
                b.facts.append(fb)
            self.expr(e.body, a)
            self.expr(e.orelse, b)
            return
        if isinstance(e, (ast.Lambda, ast.ListComp, ast.SetComp, ast.DictComp, ast.GeneratorExp)):
            inner = env.copy()
            for n in self.expand(modified_names([e]), inner):
                inner.fresh(n)
            for c in ast.iter_child_nodes(e):
                if isinstance(c, ast.comprehension):
                    self.expr(c.iter, inner)
                    for i in c.ifs:
                        self.expr(i, inner)
                elif isinstance(c, ast.expr):
                    self.expr(c, inner)
            return
        if isinstance(e, ast.Subscript) and isinstance(e.ctx, ast.Load) and not isinstance(e.slice, ast.Slice):
            self.access(e, env)
        if isinstance(e, ast.Call):
            self.call_site(e, env)
        for c in ast.iter_child_nodes(e):
            if isinstance(c, ast.expr):
                self.expr(c, env)

    def src(self, node) -> str:
        try:
            return ast.unparse(node)
        except Exception:  # noqa
            return "?"

    def access(self, e: ast.Subscript, env: Env):
        text = self.src(e)
        idx = e.slice
        if isinstance(idx, ast.Constant) and isinstance(idx.value, str):
            self.unanalysed.append(dict(line=e.lineno, expr=text, why="mapping key (KeyError not analysed)"))
            return
        b = base_name(e.value)
        if b is None:
            # x[i][k] where x is a list of non-empty statements
            if isinstance(e.value, ast.Subscript) and base_name(e.value.value) in env.elem_nonempty \
                    and isinstance(idx, ast.Constant) and idx.value in (0, -1):
                self.obligations.append(dict(line=e.lineno, expr=text, vars=["len_elem"], intvars=[],
                                             facts=["(1 <= len_elem)"], goal="(0 < len_elem)",
                                             note="element of Tokenizer.programs (C13_tok_nonempty)"))
                return
            self.unanalysed.append(dict(line=e.lineno, expr=text, why="base is not a name"))
            return
        t = self.term(idx, env)
        if t is None:
            self.unanalysed.append(dict(line=e.lineno, expr=text, why="index is not an integer literal / integer variable +- literal"))
            return
        env.seqs.add(b)
        L = env.lenvar(b)
        goal = f"(- {L} <= {t} /\\ {t} < {L})"
        facts = list(env.facts)
        self.obligations.append(dict(line=e.lineno, expr=text, vars=sorted(env.vars), intvars=sorted(env.intvars),
                                     facts=facts, goal=goal, note=""))

    # ---------------------------------------------------------------- statements
    def kill(self, names, env: Env):
        for n in names:
            if n in env.ver or ("len_" + re.sub(r"\W", "_", n) + "_0") in env.vars or True:
                env.fresh(n)

    def assign(self, st, env: Env):
        targets = st.targets if isinstance(st, ast.Assign) else [st.target]
        value = st.value
        self.expr(value, env)
        for t in targets:
            if isinstance(t, ast.Subscript):
                # x[k] = ... : needs the index to be valid, keeps the length
                if not isinstance(t.slice, ast.Slice):
                    self.access(ast.Subscript(value=t.value, slice=t.slice, ctx=ast.Load(), lineno=t.lineno,
                                              col_offset=t.col_offset), env)
                self.expr(t.slice, env)
                continue
            names = [base_name(y) for y in ast.walk(t) if isinstance(y, (ast.Name, ast.Attribute))]
            single = base_name(t)
            if isinstance(t, ast.Name):
                self.forget_int(t.id, env)
                if isinstance(value, ast.Constant) and isinstance(value.value, int) and not isinstance(value.value, bool) \
                        and t.id not in self.int_params and t.id not in self.loop_ints:
                    env.known_ints.add(t.id)
                    env.facts.append(f"({env.intvar(t.id)} = ({value.value}))")
                    continue
            for n in names:
                if n is None:
                    continue
                old = env.lenvar(n) if n in env.seqs else None
                was_elem = n in env.elem_nonempty
                new = env.fresh(n)
                if n != single or value is None:
                    continue
                # x = x[k:]  /  x = y[k:]
                if isinstance(value, ast.Subscript) and isinstance(value.slice, ast.Slice) and value.slice.step is None:
                    src = base_name(value.value)
                    lo = self.term(value.slice.lower, env) if value.slice.lower is not None else "(0)"
                    if src is not None and lo is not None and value.slice.upper is None and not lo.startswith("(-"):
                        sl = old if src == n else env.lenvar(src)
                        if sl is not None:
                            env.facts.append(f"({new} = Z.max 0 ({sl} - {lo}))")
                            env.seqs.add(n)
                # x = <tok>.parse(...)  -> list of non-empty statements;  x = <tok>.parse(...)[0] -> non-empty statement
                v = value
                if isinstance(v, ast.Call) and isinstance(v.func, ast.Attribute) and v.func.attr == "parse" \
                        and any(k.arg == "expect_semicolon" for k in v.keywords):
                    env.elem_nonempty.add(n)
                    env.seqs.add(n)
                if isinstance(v, ast.Subscript) and isinstance(v.value, ast.Call) and isinstance(v.value.func, ast.Attribute) \
                        and v.value.func.attr == "parse" and any(k.arg == "expect_semicolon" for k in v.value.keywords):
                    pass   # the [0] itself is reported by access(): base is a call -> unanalysed
                if isinstance(v, ast.Subscript) and not isinstance(v.slice, ast.Slice) and \
                        (base_name(v.value) in env.elem_nonempty or (base_name(v.value) or "").endswith(".programs")):
                    env.facts.append(f"({new} >= 1)")
                    env.seqs.add(n)
                if isinstance(v, (ast.List, ast.Tuple)) and not any(isinstance(x, ast.Starred) for x in v.elts):
                    env.facts.append(f"({new} = {len(v.elts)})")
                    env.seqs.add(n)

    def callee_post(self, st, env: Env):
        """after `... f(x, ...) ...` returned normally: the callee's raise-guards on len(x) were false"""
        for x in ast.walk(st):
            if isinstance(x, ast.Call) and isinstance(x.func, ast.Name):
                for i, a in enumerate(x.args):
                    if isinstance(a, ast.Name):
                        pname, tests = callee_guards(x.func.id, i)
                        for t in tests:
                            # rename the callee's parameter to the caller's argument
                            t2 = ast.parse(ast.unparse(t), mode="eval").body
                            for y in ast.walk(t2):
                                if isinstance(y, ast.Name) and y.id == pname:
                                    y.id = a.id
                            saved = self.subscripted
                            self.subscripted = saved | {a.id}
                            f = self.fact(t2, False, env)
                            self.subscripted = saved
                            if f != "True":
                                env.facts.append(f)

    def forget_int(self, name: str, env: Env):
        if name in env.known_ints:
            env.known_ints.discard(name)
            v = "i_" + re.sub(r"\W", "_", name)
            env.facts = [f for f in env.facts if not re.search(r"\b" + re.escape(v) + r"\b", f)]

    def block(self, body, env: Env) -> Env:
        for st in body:
            if isinstance(st, ast.If):
                self.expr(st.test, env)
                a, b = env.copy(), env.copy()
                fa, fb = self.fact(st.test, True, a), self.fact(st.test, False, b)
                if fa != "True":
                    a.facts.append(fa)
                if fb != "True":
                    b.facts.append(fb)
                ea = self.block(st.body, a)
                eb = self.block(st.orelse, b)
                xa, xb = always_exits(st.body), bool(st.orelse) and always_exits(st.orelse)
                if xa and not xb:
                    env = eb
                elif xb and not xa:
                    env = ea
                elif xa and xb:
                    env = eb          # unreachable
                else:
                    # join: both fall through.  What held before stays; for every name either branch may have
                    # modified a new version is introduced, tied to the branch's last version inside a
                    # disjunction of what the two paths established.
                    mod = self.expand(modified_names(st.body) | modified_names(st.orelse), env)
                    n0 = len(env.facts)
                    fa_, fb_ = ea.facts[n0:], eb.facts[n0:]
                    new_env = env.copy()
                    new_env.ver = {k: max(ea.ver.get(k, 0), eb.ver.get(k, 0), env.ver.get(k, 0))
                                   for k in set(ea.ver) | set(eb.ver) | set(env.ver)}
                    new_env.elem_nonempty = ea.elem_nonempty & eb.elem_nonempty
                    for n in list(new_env.known_ints):
                        if n not in ea.known_ints or n not in eb.known_ints:
                            self.forget_int(n, new_env)
                    eqa, eqb = [], []
                    for n in mod:
                        va, vb = ea.lenvar(n), eb.lenvar(n)
                        keep = n in new_env.elem_nonempty
                        nv = new_env.fresh(n)
                        if keep:
                            new_env.elem_nonempty.add(n)
                        eqa.append(f"({nv} = {va})")
                        eqb.append(f"({nv} = {vb})")
                    if (fa_ or eqa) and (fb_ or eqb) and sum(1 for f in new_env.facts if f.startswith("((")) < MAX_DISJ:
                        new_env.facts.append("((" + " /\\ ".join(fa_ + eqa) + ") \\/ (" + " /\\ ".join(fb_ + eqb) + "))")
                    env = new_env
            elif isinstance(st, (ast.For, ast.While)):
                mod = self.expand(modified_names([st]), env)
                # round 4: lists the loop changes ONLY through calls of SHRINKERS: `never longer` and `non-empty stays
                # non-empty` hold at every iteration and after the loop (range_loop_post of Proofs/TokMacro.v)
                shrink_only = [n for n in mod if n not in self.expand(modified_names([st], skip_shrink=True), env)]
                pre_len = {n: env.lenvar(n) for n in shrink_only}
                if isinstance(st, ast.For):
                    self.expr(st.iter, env)
                inner = env.copy()
                for n in mod:
                    v = inner.fresh(n)
                    if n in pre_len:
                        inner.facts.append(f"({v} <= {pre_len[n]} /\\ ({pre_len[n]} >= 1 -> {v} >= 1))")
                        inner.seqs.add(n)
                    self.forget_int(n, inner)
                    self.forget_int(n, env)
                if isinstance(st, ast.For):
                    it = base_name(st.iter)
                    if isinstance(st.target, ast.Name) and (it in env.elem_nonempty or (it or "").endswith(".programs")):
                        inner.facts.append(f"({inner.lenvar(st.target.id)} >= 1)")
                        inner.seqs.add(st.target.id)
                    # for k, x in enumerate(seq): 0 <= k (and k < len seq when the loop leaves seq alone)
                    if isinstance(st.target, ast.Tuple) and len(st.target.elts) == 2 and isinstance(st.target.elts[0], ast.Name) \
                            and isinstance(st.iter, ast.Call) and isinstance(st.iter.func, ast.Name) and st.iter.func.id == "enumerate" \
                            and len(st.iter.args) == 1:
                        kname = st.target.elts[0].id
                        self.loop_ints.add(kname)
                        iv = inner.intvar(kname)
                        inner.facts.append(f"(0 <= {iv})")
                        sq = base_name(st.iter.args[0])
                        if sq is not None and sq not in mod:
                            inner.facts.append(f"({iv} < {inner.lenvar(sq)})")
                    # for i in range(len(x)) : 0 <= i < len x  (x unmodified in the loop only)
                    if isinstance(st.target, ast.Name) and isinstance(st.iter, ast.Call) and isinstance(st.iter.func, ast.Name) \
                            and st.iter.func.id == "range" and len(st.iter.args) == 1:
                        hi = self.term(st.iter.args[0], inner) if not (
                            isinstance(st.iter.args[0], ast.Call) and base_name(st.iter.args[0].args[0]) in mod) else None
                        self.loop_ints.add(st.target.id)
                        iv = inner.intvar(st.target.id)
                        inner.facts.append(f"(0 <= {iv})")
                        if hi is not None:
                            inner.facts.append(f"({iv} < {hi})")
                else:
                    self.expr(st.test, inner)
                    f = self.fact(st.test, True, inner)
                    if f != "True":
                        inner.facts.append(f)
                self.block(st.body, inner)
                after = env.copy()
                after.ver = dict(inner.ver)
                for n in mod:
                    v = after.fresh(n)
                    if n in pre_len:
                        after.facts.append(f"({v} <= {pre_len[n]} /\\ ({pre_len[n]} >= 1 -> {v} >= 1))")
                        after.seqs.add(n)
                self.block(st.orelse, after.copy())
                env = after
            elif isinstance(st, ast.Try):
                mod = self.expand(modified_names(st.body), env)
                self.block(st.body, env.copy())
                after = env.copy()
                for n in mod:
                    after.fresh(n)
                    self.forget_int(n, after)
                for h in st.handlers:
                    self.block(h.body, after.copy())
                self.block(st.finalbody, after.copy())
                env = after
            elif isinstance(st, (ast.FunctionDef, ast.AsyncFunctionDef, ast.ClassDef)):
                continue
            elif isinstance(st, (ast.Assign, ast.AnnAssign)):
                self.assign(st, env)
                if st.value is not None and SELF_ALL in modified_names([st.value]):
                    for n in self.expand({SELF_ALL}, env):
                        env.fresh(n)
                self.callee_post(st, env)
            elif isinstance(st, ast.AugAssign):
                self.expr(st.value, env)
                b = base_name(st.target)
                if b:
                    env.fresh(b)
                if isinstance(st.target, ast.Name):
                    self.forget_int(st.target.id, env)
            elif isinstance(st, ast.Delete):
                for t in st.targets:
                    if isinstance(t, ast.Subscript):
                        b = base_name(t.value)
                        if not isinstance(t.slice, ast.Slice):
                            self.access(ast.Subscript(value=t.value, slice=t.slice, ctx=ast.Load(), lineno=t.lineno,
                                                      col_offset=t.col_offset), env)
                            if b:
                                old = env.lenvar(b)
                                new = env.fresh(b)
                                env.facts.append(f"({new} = {old} - 1)")
                        elif b:
                            env.fresh(b)
                    else:
                        b = base_name(t)
                        if b:
                            env.fresh(b)
            elif isinstance(st, ast.Assert):
                self.expr(st.test, env)
                f = self.fact(st.test, True, env)
                if f != "True":
                    env.facts.append(f)
            elif isinstance(st, ast.With):
                for it in st.items:
                    self.expr(it.context_expr, env)
                env = self.block(st.body, env)
            else:
                for c in ast.iter_child_nodes(st):
                    if isinstance(c, ast.expr):
                        self.expr(c, env)
                self.callee_post(st, env)
                # mutating calls / callee-side mutation
                shr = shrink_call(st.value) if isinstance(st, ast.Expr) else None
                for n in self.expand(modified_names([st]), env):
                    if shr is not None and n == shr and n not in self.expand(modified_names([st], skip_shrink=True), env):
                        old = env.lenvar(n)
                        new = env.fresh(n)
                        env.facts.append(f"({new} <= {old} /\\ {old} - 2 <= {new} /\\ ({old} >= 1 -> {new} >= 1))")
                        env.seqs.add(n)
                        continue
                    exact = None
                    if isinstance(st, ast.Expr) and isinstance(st.value, ast.Call) and isinstance(st.value.func, ast.Attribute) \
                            and st.value.func.attr in MUTATORS_EXACT and base_name(st.value.func.value) == n:
                        exact = MUTATORS_EXACT[st.value.func.attr]
                    old = env.lenvar(n)
                    new = env.fresh(n)
                    if exact is not None:
                        env.facts.append(f"({new} = {old} + {exact})")
        return env

    def run(self):
        self.loop_ints = set()
        self.subscripted = set()
        for x in ast.walk(self.fn):
            if isinstance(x, ast.Subscript):
                b = base_name(x.value)
                if b:
                    self.subscripted.add(b)
        env = Env()
        for a in self.fn.args.args + self.fn.args.kwonlyargs:
            if (a.arg in STATEMENT_PARAMS and self.fn.name not in NO_STATEMENT_PARAMS) or a.arg in self.pre["nonempty"]:
                env.facts.append(f"({env.lenvar(a.arg)} >= 1)")
                env.seqs.add(a.arg)
            if a.arg in self.pre["nonneg"]:
                env.facts.append(f"(0 <= {env.intvar(a.arg)})")
        for attr in STATEMENT_ATTRS.get(self.fn.name, []):
            env.facts.append(f"({env.lenvar(attr)} >= 1)")
            env.seqs.add(attr)
        self.block(self.fn.body, env)


def analyse_tree(repo: Path):
    """-> list of dict(file, function, line, expr, kind: 'obligation'|'unanalysed', ...)"""
    out = []
    DEFS.clear()
    ALLDEFS.clear()
    _PURITY_CACHE.clear()
    every = {}
    callers = {}        # precondition function -> [(file, enclosing function name, line)] of its call sites in the tree
    seen_names = {}
    for py in sorted((repo / "src" / "jmc" / "compile").rglob("*.py")):
        try:
            t = ast.parse(py.read_text(encoding="utf-8"))
        except SyntaxError:
            continue
        for node in t.body:
            if isinstance(node, ast.FunctionDef):
                seen_names.setdefault(node.name, []).append(node)
        for node in ast.walk(t):
            if isinstance(node, ast.FunctionDef):
                every.setdefault(node.name, []).append(node)
                for x in ast.walk(node):
                    if isinstance(x, ast.Call):
                        nm = x.func.id if isinstance(x.func, ast.Name) else x.func.attr if isinstance(x.func, ast.Attribute) else None
                        if nm in PRECONDITIONS:
                            encl = node.name       # innermost enclosing def: the last one seen wins below
                            callers.setdefault(nm, {})[(py.name, x.lineno)] = encl if (py.name, x.lineno) not in callers.get(nm, {}) \
                                or True else encl
    for name, nodes in seen_names.items():
        if len(nodes) == 1:
            DEFS[name] = (nodes[0], [a.arg for a in nodes[0].args.args])
    for name, nodes in every.items():
        if len(nodes) == 1:
            ALLDEFS[name] = [a.arg for a in nodes[0].args.args if a.arg != "self"]
    for rel, fns in TARGETS.items():
        path = repo / rel
        text = path.read_text(encoding="utf-8")
        tree = ast.parse(text)
        found = set()
        for node in ast.walk(tree):
            if isinstance(node, ast.FunctionDef) and node.name in fns:
                found.add(node.name)
                a = Analyser(rel, node, text.split("\n"))
                a.run()
                for o in a.obligations:
                    out.append(dict(file=rel.split("/")[-1], function=node.name, kind="obligation", **o))
                for u in a.unanalysed:
                    out.append(dict(file=rel.split("/")[-1], function=node.name, kind="unanalysed", **u))
        for f in fns:
            if f not in found:
                out.append(dict(file=rel.split("/")[-1], function=f, kind="unanalysed", line=0, expr="<function>",
                                why="function not found in the tree under test"))
    # round 4: every call site of a `complete` precondition function must lie inside an analysed function
    analysed = {(rel.split("/")[-1], f) for rel, fns in TARGETS.items() for f in fns}
    for name, sites in sorted(callers.items()):
        if not PRECONDITIONS[name].get("complete"):
            continue
        for (fname, line), encl in sorted(sites.items()):
            if (fname, encl) not in analysed:
                out.append(dict(file=fname, function=encl, kind="unanalysed", line=line, expr=f"call of {name}",
                                why=f"call site of {name} (precondition {PRECONDITIONS[name]}) outside the analysed functions"))
    return out


def coq_statement(o) -> str:
    vs = " ".join(o["vars"] + o["intvars"])
    hyps = [f"0 <= {v}" for v in o["vars"]] + o["facts"]
    body = " -> ".join(hyps + [o["goal"]])
    return f"forall ({vs} : Z), {body}" if vs else body


def probe_file(items) -> str:
    """first pass: which obligations does lia close?  (nothing is admitted: every Goal is aborted)"""
    s = ["From Coq Require Import ZArith Lia.", "Open Scope Z_scope."]
    for i, o in enumerate(items):
        s.append(f"Goal {coq_statement(o)}.\nProof. intros. first [ lia; idtac \"DISCHARGED {i}\" | idtac \"OPEN {i}\" ]. Abort.")
    return "\n".join(s) + "\n"


def guards_file(items, closed: set[int], only=None) -> str:
    """`only`: indices of the obligations written into this file (the check splits them over several files)"""
    s = ["(* REGENERATED on every run by harness/translate_guards.py from the tree under test. *)",
         "From Coq Require Import ZArith Lia.", "Open Scope Z_scope.", ""]
    for i, o in enumerate(items):
        if only is not None and i not in only:
            continue
        loc = f"{o['file']}:{o['function']}:{o['line']}  {o['expr']}"
        if i in closed:
            s.append(f"(* {loc} {o.get('note', '')} *)\nLemma guard_{i} : {coq_statement(o)}.\nProof. intros; lia. Qed.")
        else:
            s.append(f"(* OPEN (not closed by lia, not counted): {loc} *)")
    return "\n".join(s) + "\n"
