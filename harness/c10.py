"""C10 — disk build touches only its own territory; failed compiles change nothing.
Proof step + correspondence of Model/Build.v with the real `compile_jmc` (harness/fstrace.py) + search.
The case machinery (job -> Coq case terms -> codes) is shared with C11 (harness/c11.py)."""
from __future__ import annotations

import json
import posixpath
import re
from concurrent.futures import ThreadPoolExecutor

from lib import (Check, COMMON_TRUSTED, NCPU, VERIF, coq_list, coq_str, known_for, parse_nat_list, run_coq_files,
                 run_py)

PROP = "C10"
RUNNER = VERIF / "harness" / "fstrace.py"
VARIANT = "fixed"          # the first round of repairs (Model/Build.v); current_variant() adds what the tree under test has on top

COQ_HEADER = ("From Coq Require Import String List.\nFrom JMCV Require Import Model.FS Model.Build Model.BuildPath Run.C10.\n"
              "Import ListNotations.\nOpen Scope string_scope.\n")

DEFAULT_CERT = [("LOAD", "__load__"), ("TICK", "__tick__"), ("PRIVATE", "__private__"), ("VAR", "__variable__"),
                ("INT", "__int__"), ("STORAGE", "__storage__")]

TRUSTED = [t for t in COMMON_TRUSTED if not t.startswith("MC/")] + [
    "Model/FS.v: hand-written model of a POSIX directory tree and of mkdir/open-truncate/write/unlink/rmdir "
    "(strict: an operation the OS would refuse has no result); symbolic links INSIDE the output directory, permissions, hard links "
    "are outside the model",
    "Model/BuildPath.v: hand-written model of Path.resolve() / os.path.realpath(strict=False) (resolve: \"\" and \".\" dropped, "
    "\"..\" = parent of what is resolved so far, a symbolic link continues at the location it denotes) and of the folder a `#static` "
    "argument denotes (static_of); the table of symbolic links ABOVE the output directory maps each link the harness created to "
    "os.path.realpath of the link itself (one kernel answer per link; the composition along the spelled path is the model's); the "
    "model is given the output directory and the `#static` arguments as written (configuration, header text parsed by the harness "
    "with a regular expression: `#static \"<arg>\"` lines without escapes), never Header.statics of the code under test",
    "Model/Build.v: hand-written port of compile_jmc/read_cert/rmtree/build (compiling.py) as a generator of primitive "
    "mutations; the compiler front end is abstracted to its outcome (failing stage, or the compiled files), which the "
    "harness captures from the same real run (DataPack.build wrapper in fstrace.py)",
    "harness/fstrace.py: observes mutations by wrapping os.mkdir/unlink/rmdir/remove/rename/replace and io.open in the "
    "runner process (Python 3.12 shutil.rmtree / pathlib); a mutation done through another API would only be seen in the "
    "before/after snapshots (which are compared too); os.replace/os.rename of a regular file is recorded as the two halves of "
    "Model/FS.v rename_ops (Replace dst <bytes of src>, Unlink src) - the model's crash prefixes also contain the state between "
    "the halves, which the kernel never exposes",
    "which of the later repairs (function tags read before the first mutation: fixes/C10-function-tags-read-first.patch; "
    "jmc.txt written through jmc.txt.tmp + os.replace: fixes/C11-atomic-cert.patch; #override / #link namespaces validated: "
    "fixes/C10-reject-non-namespace-override.patch; resource paths validated: fixes/C10-reject-resource-path-outside-folder.patch; "
    "stale own entry removed from a surviving tick.json: fixes/C11-stale-own-tick-entry.patch) the tree under test contains is "
    "detected by witness builds (detect_variant); the model is run with the matching flags (theorems hold for every `sound` "
    "variant), the behaviour of a tree without a repair is reported as its (pending) finding",
    "a run whose header / resource names contain `..`, an empty or `.` segment or a separator on a tree WITHOUT the matching "
    "check is outside the model (a model path is a list of child names): there the territory is evaluated in plain Python on the "
    "real snapshots (escape_verdict), incl. a folder NEXT TO the output directory",
    "function-tag files are compared in parsed form ({\"values\": [...]} in json.dump(indent=4) layout = Tag, anything "
    "unparsable = Raw); tag files with extra keys, #credit, custom pack.mcmeta entries and non-default pack formats "
    "other than 48/26 are not generated",
]


# ----------------------------------------------------------------------------------- running the real compiler

def run_jobs(jobs: list[dict], chunk: int = 6, timeout: int = 900) -> list[dict]:
    if not jobs:
        return []
    chunks = [jobs[i:i + chunk] for i in range(0, len(jobs), chunk)]
    with ThreadPoolExecutor(max_workers=NCPU) as ex:
        res = list(ex.map(lambda c: run_py(RUNNER, c, timeout=timeout), chunks))
    return [r for rs in res for r in rs]


# ----------------------------------------------------------------------------------- which behaviour does the tree have?

_VARIANT: dict = {}


LOCATIONS = ('Predicate.locations(name="%s", predicate={"condition":"minecraft:random_chance","chance":0.5}, '
             'xMin=0, xMax=0, yMin=0, yMax=0, zMin=0, zMax=0);')


def detect_variant() -> dict:
    """Witness builds on the tree under test (lib.REPO):
    tags_early    - a malformed foreign data/minecraft/tags/function/load.json: the build stops with the JMCBuildError of
                    read_func_tag WITHOUT having performed a mutation (else: after jmc.txt was written);
    cert_atomic   - a plain first build moves jmc.txt.tmp over jmc.txt with os.replace (else: writes jmc.txt in place);
    ns_checked    - `#override ".."`, `#link ".."` or `#link <own namespace>` is a header error (probed on an empty output
                    directory, where nothing is deleted); ANY of the three rejected = the tree has the check, and then all
                    non-namespace arguments must be rejected (a hole is a VIOLATION);
    paths_checked - Predicate.locations(name="a/../b") (a JSON path) or jmc.txt PRIVATE=a/../b (function paths) is a build error
                    (else: predicate/b.json, function/b/... are written); ANY of the two rejected = the tree has the check;
    tick_refresh  - a surviving foreign tick.json naming ns:__tick__ is rewritten without that entry by a build without
                    tick function (else: left alone)."""
    if _VARIANT:
        return _VARIANT
    base = dict(ns="ns", pack_format="48", desc="d", out_exists=True, copy_src=None)
    jobs = [dict(base, init=[["data/minecraft/tags/function/load.json", '{"values": [']], builds=[dict(src=fn("g"), header=None)]),
            dict(base, init=[], builds=[dict(src=fn("g"), header=None)]),
            dict(base, init=[], builds=[dict(src=fn("g"), header='#override ".."')]),
            dict(base, init=[], builds=[dict(src=fn("g"), header='#link ".."')]),
            dict(base, init=[], builds=[dict(src=fn("g"), header='#link ns')]),
            dict(base, init=[], builds=[dict(src=LOCATIONS % "a/../b", header=None)]),
            dict(base, init=[["data/ns/jmc.txt", "\n".join(f"{k}={'a/../b' if k == 'PRIVATE' else v}" for k, v in DEFAULT_CERT)]],
                 builds=[dict(src=fn("branch", 'if ($x == 1) { say "a"; say "b"; }'), header=None)]),
            dict(base, init=[["data/minecraft/tags/function/tick.json", canon(["ns:__tick__", "other:t"])]],
                 builds=[dict(src=fn("g"), header=None)])]
    flags = dict(tags_early=False, cert_atomic=False, ns_checked=False, paths_checked=False, tick_refresh=False, probe_ok=False)
    try:
        r_tag, r_cert, r_ov, r_lk, r_own, r_path, r_fpath, r_tick = run_jobs(jobs)
        b_tag, b_cert = r_tag["builds"][0], r_cert["builds"][0]
        flags["tags_early"] = real_result(b_tag) == "RTagErr" and not b_tag["trace"] and b_tag["before"] == b_tag["after"]
        flags["cert_atomic"] = any(ev[0] == "replace" and ev[1] == "data/ns/jmc.txt" for ev in b_cert["trace"])
        rejected = [real_result(r["builds"][0]) == "RHeaderErr" for r in (r_ov, r_lk, r_own)]
        flags["ns_checked"] = any(rejected)
        flags["ns_checked_probes"] = dict(zip(("override_dotdot", "link_dotdot", "link_own"), rejected))
        prej = [real_result(r["builds"][0]) == "RBuildErr" for r in (r_path, r_fpath)]
        flags["paths_checked"] = any(prej)
        flags["paths_checked_probes"] = dict(zip(("json_name", "private_function_folder"), prej))
        tick_after = dict(r_tick["builds"][0]["after"]).get("data/minecraft/tags/function/tick.json")
        flags["tick_refresh"] = tick_after == canon(["other:t"])
        flags["probe_ok"] = real_result(b_tag) == "RTagErr" and real_result(b_cert) == "RDone"
    except Exception as e:  # noqa  (a broken tree: the correspondence below reports it)
        flags["probe_error"] = repr(e)[:300]
    _VARIANT.update(flags)
    return _VARIANT


def current_variant() -> str:
    """Coq term of the Build.variant the tree under test is compared with: [fixed] plus the detected later repairs."""
    f = detect_variant()
    b = lambda k: "true" if f.get(k) else "false"  # noqa
    return (f"(mkVariant false true true {b('tags_early')} {b('cert_atomic')} {b('ns_checked')} {b('paths_checked')} "
            f"{b('tick_refresh')})")


# ----------------------------------------------------------------------------------- Coq terms

class Share:
    """(round 4) Parsing string literals is what coqc spends its time on with these case files (a path or a file content is
    repeated in every snapshot of every case): every path, longer content and whole snapshot is given a name once and the case
    terms refer to it; a generated file defines the names it uses (with_defs).  The terms are unchanged up to delta."""

    def __init__(self):
        self.names: dict = {}
        self.defs: list = []

    def name(self, kind: str, typ: str, text: str) -> str:
        key = (kind, text)
        if key not in self.names:
            self.names[key] = f"zz{kind}{len(self.defs)}q"
            self.defs.append((self.names[key], typ, text))
        return self.names[key]

    NAME = re.compile(r"zz[A-Z](\d+)q")

    def with_defs(self, body: str) -> str:
        """Coq definitions of every shared name `body` uses (transitively), in order of creation (inner terms first)"""
        need, todo = set(), [int(i) for i in self.NAME.findall(body)]
        while todo:
            i = todo.pop()
            if i in need or i >= len(self.defs):
                continue
            need.add(i)
            todo += [int(j) for j in self.NAME.findall(self.defs[i][2])]
        return "".join(f"Definition {self.defs[i][0]} : {self.defs[i][1]} := {self.defs[i][2]}.\n" for i in sorted(need)) + body


SHARE = Share()


def cpath(rel: str) -> str:
    comps = ["."] if rel == "." else ["."] + rel.split("/")
    return SHARE.name("P", "path", coq_list(coq_str(c) for c in comps))


# ---- (round 4) path spellings: the model is given the `#static` arguments and the output directory AS WRITTEN (header text,
# configuration) and resolves them itself (Model/BuildPath.v resolve / static_of) - never the paths the code under test
# computed from them (Header.statics), which is the very computation that can be wrong.
STATIC_DIRECTIVE = re.compile(r'^[ \t]*#static[ \t]+"([^"\n]*)"[ \t]*$', re.M)


def static_args(header_text: str | None) -> list[str]:
    """arguments of the `#static "<arg>"` lines of a header text, in order"""
    return [m.group(1) for m in STATIC_DIRECTIVE.finditer(header_text or "")]


def abs_segments(p: str) -> list[str]:
    """absolute path text -> its segments below "/" as written ("", ".", ".." kept)"""
    if not p.startswith("/"):
        raise Unmodelled(f"not an absolute path: {p!r}")
    return p.split("/")[1:]


def coq_segs(segs) -> str:
    return coq_list(coq_str(c) for c in segs)


def env_term(f: dict) -> str:
    links = coq_list(f"({coq_segs(abs_segments(a))}, {coq_segs(abs_segments(b))})" for a, b in f.get("links") or [])
    return f"(mkEnv {links} {coq_segs(abs_segments(f.get('out_given') or f['root']))})"


def sarg_term(arg: str) -> str:
    if arg.startswith("/"):
        return f"(mkSArg true {coq_segs(arg.split('/')[1:])})"
    return f"(mkSArg false {coq_segs(arg.split('/'))})"


def py_resolve(links: dict, segs: list[str]) -> list[str]:
    """Model/BuildPath.v resolve (from "/"), for the Python-side bookkeeping only"""
    acc: list[str] = []
    for x in segs:
        if x in ("", "."):
            continue
        if x == "..":
            acc = acc[:-1]
            continue
        t = links.get(tuple(acc + [x]))
        acc = list(t) if t is not None else acc + [x]
    return acc


def spelled_statics(f: dict, ns: str) -> list[str]:
    """the #static folders of the header as written, as paths relative to the output directory (those inside it)"""
    links = {tuple(abs_segments(a)): abs_segments(b) for a, b in f.get("links") or []}
    out_given = abs_segments(f.get("out_given") or f["root"])
    oc = py_resolve(links, out_given)
    res = []
    for arg in static_args(f.get("header_text")):
        p = py_resolve(links, arg.split("/")[1:] if arg.startswith("/") else out_given + ["data", ns] + arg.split("/"))
        if p[:len(oc)] == oc:
            res.append("/".join(p[len(oc):]) or ".")
    return res


def hdr_term(f: dict, cfg: str, overrides: list[str], copy: str, ns: str) -> str:
    """Coq term of the header of a real run: the statics from the spellings (Model/BuildPath.v hdr_of)"""
    sargs = coq_list(sarg_term(a) for a in static_args(f.get("header_text")))
    cfg = SHARE.name("G", "cfg", cfg)
    return (f"(hdr_of {env_term(f)} {cfg} (mkRHdr {sargs} {coq_list(coq_str(o) for o in overrides)} {copy} "
            f"{'true' if f.get('nometa') else 'false'}))")


def tag_rel(ff: str) -> set[str]:
    return {f"data/minecraft/tags/{ff}/load.json", f"data/minecraft/tags/{ff}/tick.json"}


class Unmodelled(Exception):
    pass


def typed(rel: str, text: str, ff: str):
    """('raw', text) | ('tag', [values])"""
    if rel not in tag_rel(ff):
        return ("raw", text)
    try:
        d = json.loads(text, strict=False)
    except ValueError:
        return ("raw", text)
    if isinstance(d, dict) and "values" not in d:
        return ("raw", text)
    if (isinstance(d, dict) and set(d) == {"values"} and isinstance(d["values"], list)
            and all(isinstance(v, str) for v in d["values"]) and json.dumps(d, indent=4) == text):
        return ("tag", d["values"])
    raise Unmodelled(f"tag file {rel} is valid JSON outside the modelled shape")


def ccontent(t) -> str:
    if t[0] == "raw":
        if any(ord(ch) > 126 or (ord(ch) < 32 and ch not in "\n\t") for ch in t[1]):
            raise Unmodelled("non-ASCII file content")
        text = f"(Raw {coq_str(t[1])})"
    else:
        text = f"(Tag {coq_list(coq_str(v) for v in t[1])})"
    return SHARE.name("C", "content", text) if len(text) > 16 else text


def tree_term(snap: list, ff: str, dest_prefix: str = "") -> str:
    """snapshot [[rel, None|text], ...] (scandir pre-order, first entry '.') -> Coq tree of the directory '.'"""
    root: dict = {}
    for rel, text in snap:
        if rel == ".":
            continue
        comps = rel.split("/")
        d = root
        for c in comps[:-1]:
            d = d[c][1]
        if text is None:
            d[comps[-1]] = ("d", {})
        else:
            d[comps[-1]] = ("f", typed((dest_prefix + rel), text, ff))

    def term(n):
        if n[0] == "f":
            return f"TFile {ccontent(n[1])}"
        return "TDir " + coq_list(f"({coq_str(k)}, {term(v)})" for k, v in n[1].items())
    return SHARE.name("T", "tree", term(("d", root)))


def fs_term(snap: list, ff: str) -> str:
    if not snap:
        return "(TDir [])"
    return f'(TDir [(".", {tree_term(snap, ff)})])'


def flat_term(snap: list, ff: str) -> str:
    items = []
    for rel, text in snap:
        n = "NDir" if text is None else f"NFile {ccontent(typed(rel, text, ff))}"
        items.append(f"({cpath(rel)}, {n})")
    return SHARE.name("F", "list (path * node)", coq_list(items))


def op_term(ev, ff: str) -> str:
    kind, rel = ev[0], ev[1]
    if kind == "write":
        return f"Write {cpath(rel)} {ccontent(typed(rel, ev[2], ff))}"
    if kind == "replace":
        return f"Replace {cpath(rel)} {ccontent(typed(rel, ev[2], ff))}"
    name = {"mkdir": "Mkdir", "create": "Create", "unlink": "Unlink", "rmdir": "Rmdir"}.get(kind)
    if name is None:
        raise Unmodelled(f"mutation {kind}")
    return f"{name} {cpath(rel)}"


def parse_cert(text: str) -> dict:
    cfg = {}
    try:
        for line in text.split("\n"):
            if not line or line.isspace():
                continue
            k, v = line.split("=")
            cfg[k.strip()] = v.strip()
    except ValueError:
        cfg = {}
    return cfg


def cert_names(before: list, ns: str) -> list[tuple[str, str]]:
    """The names the build uses: jmc.txt of an existing namespace folder, defaults otherwise (names do not leak
    between the runner's compiles: fstrace resets them)."""
    d = dict(before)
    if f"data/{ns}" in d and d.get(f"data/{ns}/jmc.txt") is not None:
        got = parse_cert(d[f"data/{ns}/jmc.txt"])
        return [(k, got.get(k, v)) for k, v in DEFAULT_CERT]
    return list(DEFAULT_CERT)


def pack_meta_text(pack_format: str, desc: str) -> str:
    pf = float(pack_format)
    ppf = pf if int(pf) != pf else (int(pf) if pf < 88.0 else pf)
    return json.dumps({"pack": {"pack_format": ppf, "description": desc}}, indent=4)


RESULTS = ["RHeaderErr", "RRefused", "RLexErr", "RBuildErr", "ROsErr", "RTagErr", "RDone"]


def real_result(b: dict) -> str:
    exc, stage = b["exc"], b["stage"]
    if exc is None:
        return "RDone" if stage == "done" else "?"
    if exc[0] == "KeyboardInterrupt":
        return "CRASH"
    if stage == "header":
        return "RHeaderErr"
    if stage == "cert":
        return "RRefused" if exc[0] == "JMCBuildError" and "jmc.txt" in exc[1] else "?"
    if stage == "lex":
        return "RLexErr"
    if stage == "build":
        return "RBuildErr"
    if stage == "fs":
        if exc[0] == "JMCBuildError" and "is not a valid resource path" in exc[1]:
            return "RBuildErr"          # compiling.py check_resource_paths, right after DataPack.build()
        if exc[0] == "JMCBuildError" and "deleting files" in exc[1]:
            return "ROsErr"
        if exc[0] == "OSError" and "injected" in exc[1]:
            return "ROsErr"
        if exc[0] == "JMCBuildError" and ("MalformedJsonException" in exc[1] or '"values" key' in exc[1]):
            return "RTagErr"
    return "?"


def override_order(overrides: list[str], trace: list) -> list[str]:
    first = {}
    for i, ev in enumerate(trace):
        if ev[0] in ("unlink", "rmdir"):
            parts = ev[1].split("/")
            if len(parts) >= 2 and parts[0] == "data" and parts[1] in overrides:
                first.setdefault(parts[1], i)
    return sorted(overrides, key=lambda o: (first.get(o, 10**9), o))


def plain_name(seg: str) -> bool:
    """Build.plain"""
    return seg not in ("", ".", "..") and "/" not in seg and "\\" not in seg


def plain_path(name: str) -> bool:
    return all(plain_name(c) for c in name.split("/"))


DIRECTIVE = re.compile(r'^#(override|link)\s+(?:"([^"]*)"|(\S+))\s*$', re.M)


def header_namespaces(header: str | None) -> list[str]:
    """arguments of the #override / #link lines of a header text"""
    return [(m.group(2) if m.group(2) is not None else m.group(3)).replace("{OUTSIDE}", "/<the folder next to the output directory>")
            for m in DIRECTIVE.finditer(header or "")]


def escape_verdict(job: dict, bi: int, b: dict) -> dict | None:
    """Plain-Python evaluation of the territory on the REAL snapshots, for runs the Coq model does not cover: a tree WITHOUT
    the namespace / resource-path checks given an #override / #link argument or a resource name that is not a list of plain
    names.  -> None when the run has no such input, else
    {"escaped": [...changed paths outside the lexical territory...], "outside": bool, "finding": id | None}: `finding` is the
    pending finding that explains EVERY escaped path, None when something else moved too (a VIOLATION)."""
    spec, f = job["builds"][bi], b["facts"]
    ns = job.get("ns", "ns")
    bad_ns = [n for n in header_namespaces(spec.get("header")) if not plain_name(n)]
    names = [n for n, _ in (f.get("functions") or []) + (f.get("jsons") or [])]
    bad_res = [n for n in names if not plain_path(n)]
    if not bad_ns and not bad_res:
        return None
    pf = f.get("pack_format") or job.get("pack_format", "48")
    ff = f.get("ff") or ("function" if float(pf) >= 48 else "functions")
    overrides = [o for o in header_namespaces(spec.get("header")) if plain_name(o)]
    roots = [f"data/{ns}", "data/minecraft"] + [f"data/{o}" for o in overrides]
    copy_paths = {r for r, _ in (f.get("copy_tree") or []) if r != "."}

    def in_territory(pth: str) -> bool:
        return (any(pth == r or pth.startswith(r + "/") for r in roots) or pth == "pack.mcmeta" or pth in copy_paths)
    changed = describe_change(b)
    escaped = [c for c in changed if not in_territory(c[0]) and not (c[0] in (".", "data") and c[1] == "absent" and c[2] == "dir")]
    # where the offending names point (normalised, relative to the output directory; "../x" = next to it)
    targets = []
    func_names = {n for n, _ in f.get("functions") or []}
    for n in bad_res:
        first = n.split("/")[0]
        if n in func_names:
            rel = (f"data/{first}/{ff}/{n[len(first) + 1:]}.mcfunction" if first in overrides + bad_ns else f"data/{ns}/{ff}/{n}.mcfunction")
        else:
            rel = f"data/{first}/{n[len(first) + 1:]}.json" if first in overrides + bad_ns else f"data/{ns}/{n}.json"
        targets.append(posixpath.normpath(rel))
    del_roots = [posixpath.normpath("data/" + n) if not n.startswith("/") else None for n in bad_ns]

    def reasons(pth: str) -> set:
        out = set()
        for t in targets:
            if pth == t or t.startswith(pth + "/"):          # the file, or an ancestor folder created for it
                out.add("C10-resource-path-escapes")
        for r in del_roots:
            if r is not None and (r == "." or r.startswith("..") or pth == r or pth.startswith(r + "/")):
                out.add("C10-override-namespace-escapes")
        return out
    why = [reasons(c[0]) for c in escaped]
    if b.get("outside_changed"):
        why.append(({"C10-resource-path-escapes"} if any(t.startswith("../") for t in targets) else set()) |
                   ({"C10-override-namespace-escapes"} if any(r is None or r.startswith("..") for r in del_roots) else set()))
    finding = None
    if why and all(why):
        common = set.intersection(*why)
        # one defect that explains every escaped path; else (both kinds of input in one run) each path by one of them
        finding = sorted(common)[0] if common else "+".join(sorted(set.union(*why)))
    return dict(escaped=escaped, outside=bool(b.get("outside_changed")), finding=finding, bad_namespaces=bad_ns,
                bad_resource_paths=bad_res, targets=targets)


def case_term(job: dict, bi: int, b: dict, variant: str | None = None, ov_order: list[str] | None = None) -> tuple[str, dict]:
    """Coq term of type Run.C10.case for build number bi of the job, plus a small description."""
    variant = variant or current_variant()
    f = b["facts"]
    ns, pf, desc = job.get("ns", "ns"), f.get("pack_format") or job.get("pack_format", "48"), job.get("desc", "d")
    ff = f.get("ff") or ("function" if float(pf) >= 48 else "functions")
    names = cert_names(b["before"], ns)
    cert_text = "\n".join(f"{k}={v}" for k, v in names)
    nm = dict(names)
    if "load_name" in f and (f["load_name"], f["tick_name"]) != (nm["LOAD"], nm["TICK"]):
        raise Unmodelled("load/tick names differ from jmc.txt")
    cfg = f"(mkCfg {coq_str(ns)} {coq_str(ff)} {coq_str(cert_text)} {coq_str(nm['LOAD'])} {coq_str(nm['TICK'])})"
    overrides = ov_order if ov_order is not None else override_order(f.get("overrides", []), b["trace"])
    if f.get("copy"):
        snap = f["copy_tree"]
        top: dict = {}
        for rel, text in snap:
            if rel == ".":
                continue
            top.setdefault(rel.split("/")[0], []).append([rel, text])
        items = []
        for name, sub in top.items():
            if sub[0][1] is None and sub[0][0] == name:      # a directory
                inner = [["." if r == name else r[len(name) + 1:], t] for r, t in sub]
                items.append(f"({coq_str(name)}, {tree_term(inner, ff, dest_prefix=name + '/')})")
            else:
                items.append(f"({coq_str(name)}, TFile {ccontent(typed(name, sub[0][1], ff))})")
        copy = f"(Some {coq_list(items)})"
    else:
        copy = "None"
    if not detect_variant().get("ns_checked") and not all(plain_name(o) for o in overrides):
        raise Unmodelled(f"override namespaces {overrides!r}")
    hdr = hdr_term(f, cfg, overrides, copy, ns)
    res = real_result(b)
    stage = b["stage"]
    if stage == "header":
        out = "FailHeader"
    elif stage in ("cert", "lex", "start"):
        out = "FailLex"
    elif stage == "build" or (stage == "fs" and res == "RBuildErr"):
        out = "FailBuild"
    else:
        if f.get("custom_meta"):
            raise Unmodelled("custom pack.mcmeta entries")
        if not detect_variant().get("paths_checked"):
            # a model path is a list of child names: without the check of the resource paths a `..` reaches the OS
            for name, _ in f["functions"] + f["jsons"]:
                if not plain_path(name):
                    raise Unmodelled(f"resource path {name!r}")
        funcs = coq_list(f"({coq_list(coq_str(c) for c in n.split('/'))}, {coq_str(t)})" for n, t in f["functions"])
        jsons = coq_list(f"({coq_list(coq_str(c) for c in n.split('/'))}, {coq_str(t)})" for n, t in f["jsons"] if t is not None)
        out = (f"(Success (mkOutput {funcs} {jsons} {'true' if f['tick'] else 'false'} "
               f"{coq_str(pack_meta_text(pf, desc))}))")
    spec = job["builds"][bi]
    fault = f"(Some {cpath(spec['oserror_path'])})" if spec.get("oserror_path") else "None"
    crash = f"(Some {b['n_mut']})" if res == "CRASH" else "None"
    if res == "?":
        raise Unmodelled(f"exception {b['exc']} at stage {stage}")
    trace = coq_list(op_term(ev, ff) for ev in b["trace"])
    cfg, hdr = SHARE.name("G", "cfg", cfg), SHARE.name("H", "hdr", hdr)
    if out.startswith("(Success"):
        out = SHARE.name("O", "outcome", out)
    term = (f"(mkCase {variant} {cfg} {hdr} {out} {fault} {fs_term(b['before'], ff)} {crash} {trace} "
            f"{'RDone' if res == 'CRASH' else res} {flat_term(b['after'], ff)})")
    return term, dict(result=res, stage=stage, n_mut=b["n_mut"], overrides=overrides, statics=spelled_statics(f, ns),
                      copy=bool(f.get("copy")), ff=ff)


def eval_codes(prop: str, terms: list[str], per_file: int = 25, prefix: str = "cases") -> tuple[list[int | None], list[str]]:
    files = []
    for fi, start in enumerate(range(0, len(terms), per_file)):
        chunk = terms[start:start + per_file]
        body = COQ_HEADER + SHARE.with_defs("Definition cases : list case := [\n" + ";\n".join(chunk) + "\n].\nEval vm_compute in codes cases.\n")
        files.append((f"{prefix}_{fi}.v", body))
    outs = run_coq_files(prop, files, timeout=600)
    codes: list = []
    errs = []
    for fi, (ok, out) in enumerate(outs):
        n = len(terms[fi * per_file:(fi + 1) * per_file])
        if not ok:
            errs.append(f"{files[fi][0]}: {out[-2500:]}")
            codes += [None] * n
            continue
        got = parse_nat_list(out)
        if len(got) != n:
            errs.append(f"{files[fi][0]}: expected {n} codes, got {len(got)}")
            got = [None] * n
        codes += got
    return codes, errs


# ----------------------------------------------------------------------------------- generators

def fn(name: str, body: str | None = None) -> str:
    return f'function {name}() {{ {body or "say " + json.dumps(name) + ";"} }}'


VALID_PARTS = [
    fn("f"), fn("g"), fn("a.b"), fn("a.deep.c"), fn("__tick__", 'say "t";'),
    'new advancement(x.y) {"a":1}', 'new predicate(p) {"condition":"minecraft:random_chance","chance":0.5}',
    fn("branch", 'if ($x == 1) { say "a"; say "b"; } else { say "c"; say "d"; }'),
    fn("k", "$n = 7; $n *= 3;"),
]
OVERRIDE_PARTS = {"foo": [fn("foo.h"), 'new advancement(foo.adv) {"b":2}', fn("foo")], "bar": [fn("bar.x.y")],
                  "minecraft": [fn("minecraft.mcf")], "ns": [fn("ns.q")]}
# names taken from a string argument become a path segment of the generated file (Predicate.locations -> DataPack.add_json)
ESCAPING_NAMES = ["../../foreign/predicate/x", "../../../../outside/x", "../../../pack.mcmeta", "a/../b", "./c", "a//b", "..", "/abs/x",
                  "sub/../../../ns2/predicate/y"]
FINE_NAMES = ["plain", "nested/name", "a.b", "x-y_z/w"]
FAIL_LEX = ['function g() { say "g" }', 'function f( { }', 'say "top";;;; function () {}']
FAIL_BUILD = ['function f() { nope(); }']
FAIL_HEADER = ['#bogus', '#static "does_not_exist"', '#override']


ESCAPING_NAMESPACES = ['".."', '""', '"."', '"a/../.."', '"../.."', '"../../outside"', '"{OUTSIDE}"', '"foo/../bar"', '"foo/"', '"../other"',
                       '"Foo"']


# ---- (round 4) how JMC is GIVEN its paths (fstrace job field "paths") and how a `#static` argument may be spelled.
# <tmp> holds proj/ (sources), out/ (the output directory), outside/.  Every entry denotes the same two locations.
PATH_ENVS = [
    dict(name="config-dotdot", cwd="proj", output="../out", target="main.jmc", mode="config"),          # jmc_config.json next to main.jmc
    dict(name="config-slash-dot", cwd="proj", output=".././out/", target="./main.jmc", mode="config"),
    dict(name="raw-relative", cwd=".", output="out", target="proj/main.jmc", mode="raw"),               # relative Paths from an API caller
    dict(name="raw-relative-dotdot", cwd="proj", output="../out", target="main.jmc", mode="raw"),
    dict(name="absolute-cwd-elsewhere", cwd="elsewhere/deep", output="{TMP}/out", target="{TMP}/proj/main.jmc", mode="config"),
    dict(name="relative-cwd-elsewhere", cwd="elsewhere/deep", output="../../out", target="../../proj/main.jmc", mode="raw"),
    dict(name="linked-parent", links=[["lnk", "."]], cwd="proj", output="{TMP}/lnk/out", target="main.jmc", mode="config"),
    dict(name="linked-parent-relative", links=[["lnk", "."]], cwd="proj", output="../lnk/lnk/out", target="../lnk/proj/main.jmc", mode="raw"),
    dict(name="linked-output", links=[["outlnk", "out"]], cwd="proj", output="../outlnk", target="main.jmc", mode="config", needs_out=True),
    # `..` after a symbolic link is the parent of the link's TARGET: <tmp>/a/lnk2 -> <tmp>/proj, so a/lnk2/../out = <tmp>/out
    dict(name="dotdot-after-link", links=[["a/lnk2", "{TMP}/proj"]], cwd="proj", output="{TMP}/a/lnk2/../out", target="{TMP}/a/lnk2/main.jmc", mode="config"),
    dict(name="linked-chain", links=[["l1", "l2"], ["l2", "{TMP}"]], cwd=".", output="l1/out/", target="l1/proj/main.jmc", mode="config"),
]


def path_env(env: dict | None) -> dict | None:
    return None if env is None else {k: v for k, v in env.items() if k not in ("name", "needs_out")}


def static_spellings(st: str, env: dict | None = None) -> list[str]:
    """spellings of the `#static` argument that denote the same folder as the plain spelling `st` (relative to data/<ns>)"""
    import posixpath
    out = [st, "./" + st, st + "/", "zz/../" + st, "function/../" + st, st + "/.", st + "/nothere/..", ".//" + st]
    if st.startswith("../"):
        out += ["../../data/" + st[3:], "../ns/" + st, "../" + st[3:].split("/")[0] + "/../" + st[3:]]
    elif st == ".":
        out += ["", "../ns", "nothere/..", "../../data/ns/"]
    else:
        out += ["../ns/" + st, "../../data/ns/" + st]
    canon = posixpath.normpath("data/ns/" + st)
    out.append("{TMP}/out/" + canon)                                   # an absolute argument replaces the namespace folder
    out.append("{TMP}/proj/../out/" + canon)
    for rel, _ in (env or {}).get("links") or []:
        if rel == "lnk":
            out.append("{TMP}/lnk/out/" + canon)
        if rel == "outlnk":
            out.append("{TMP}/outlnk/" + canon)
    return out


def spell(rng, st: str, env: dict | None = None, p_plain: float = 0.45) -> str:
    return st if rng.random() < p_plain else rng.choice(static_spellings(st, env))


def gen_project(rng, tree_has: dict, env: dict | None = None) -> dict:
    """One compile attempt: {"src", "header", "kind"}; tree_has says which static folders can exist."""
    r = rng.random()
    overrides = [o for o in ("foo", "bar", "minecraft", "ns") if rng.random() < (0.3 if o in ("foo", "bar") else 0.06)]
    # every directive that feeds Header.namespace_overrides: #override and #link (the own namespace too: `#override ns` is a
    # header error since fixes/C08-reject-own-namespace-override.patch, `#link ns` until fixes/C10-reject-non-namespace-override.patch)
    hl = [f"#{'link' if rng.random() < 0.3 else 'override'} {o}" for o in overrides]
    escape = None
    if rng.random() < 0.07:
        escape = rng.choice(ESCAPING_NAMESPACES)
        hl.append(f"#{'link' if rng.random() < 0.3 else 'override'} {escape}")
    for st, ok in tree_has.items():
        if ok is True and not st.startswith("__") and rng.random() < (0.25 if st in ROOT_STATICS else 0.45):
            hl.append(f'#static "{spell(rng, st, env)}"')
    if tree_has.get("__copy__") and rng.random() < 0.35:
        hl.append('#copy "cp"')
    if rng.random() < 0.12:
        hl.append("#nometa")
    rng.shuffle(hl)
    parts = [p for p in VALID_PARTS if rng.random() < 0.35] or [fn("f")]
    for o in overrides:
        parts += [p for p in OVERRIDE_PARTS[o] if rng.random() < 0.6]
    if rng.random() < 0.08:
        parts.append(LOCATIONS % rng.choice(ESCAPING_NAMES))
    elif rng.random() < 0.08:
        parts.append(LOCATIONS % rng.choice(FINE_NAMES))
    rng.shuffle(parts)
    kind = "valid"
    p_fail = 0.6 if tree_has.get("__oddcert__") else 0.24       # failing compiles over a certificate with hand-made bytes
    if r < p_fail * 10 / 24:
        kind, parts = "lex", parts + [rng.choice(FAIL_LEX)]
    elif r < p_fail * 17 / 24:
        kind, parts = "build", parts + [rng.choice(FAIL_BUILD)]
    elif r < p_fail:
        kind, hl = "header", hl + [rng.choice(FAIL_HEADER)]
    return dict(src="\n".join(parts), header="\n".join(hl) if hl else None, kind=kind)


def canon(values):
    return json.dumps({"values": values}, indent=4)


# statics that ARE a folder the build deletes
ROOT_STATICS = (".", "../minecraft", "../foo")
# certificates a user (or an older JMC) left with bytes that make_cert would not write: a failed compile must keep them
ODD_CERTS = [
    "\n".join(f"{k}={v}" for k, v in DEFAULT_CERT) + "\n",                                    # trailing newline
    "\n".join(f"{k} = {v}" for k, v in DEFAULT_CERT),                                          # blanks around "="
    "LOAD=__load__\nTICK=__tick__\nPRIVATE=__private__",                                      # older version: three keys
    "\n\nLOAD=init\n\nTICK=loop\nPRIVATE=priv\nVAR=v\nINT=i\nSTORAGE=st\n\n",                  # custom names, blank lines
    "LOAD=init\nTICK=loop\nPRIVATE=priv\nVAR=v\nINT=i\nSTORAGE=st\nthis line is not a pair",    # malformed line: every custom name is dropped
    "STORAGE=st\nINT=i\nVAR=v\nPRIVATE=priv\nTICK=loop\nLOAD=init",                            # another key order
    "\n".join(f"{k}={v}" for k, v in DEFAULT_CERT) + "\nEXTRA=1",                              # a key JMC does not know
    "LOAD=__load__\nTICK=__tick__\nPRIVATE=../../../zz\nVAR=__variable__\nINT=__int__\nSTORAGE=__storage__",   # a private folder that leaves data/<ns>
]


def gen_init(rng) -> tuple[dict, dict]:
    """Initial output tree + what it contains.  Returns (job fields, tree_has)."""
    init: list = []
    has = {}
    out_exists = rng.random() < 0.85
    if out_exists and rng.random() < 0.6:
        init += [["readme.txt", "hi"], ["data/other/function/a.mcfunction", "say a"]]
        if rng.random() < 0.5:
            init += [["pack.mcmeta", '{"pack":{"pack_format":1,"description":"old"}}'], ["data/other/tags/function/t.json", canon(["other:a"])]]
    nsk = rng.choice(["absent", "absent", "cert", "cert", "cert", "customcert", "badcert", "nocert", "emptydir", "oddcert", "oddcert",
                      "nocert_static", "nocert_static"])
    if nsk in ("cert", "customcert", "badcert", "oddcert"):
        cert = {"cert": "\n".join(f"{k}={v}" for k, v in DEFAULT_CERT),
                "customcert": "LOAD=init\nTICK=loop\nPRIVATE=priv\nVAR=v\nINT=i\nSTORAGE=st",
                "badcert": "LOAD=__load__\nnonsense line\nTICK",
                "oddcert": rng.choice(ODD_CERTS)}[nsk]
        if nsk == "oddcert":
            has["__oddcert__"] = True
        init.append(["data/ns/jmc.txt", cert])
        for item in [["data/ns/function/old.mcfunction", "say old"], ["data/ns/function/sub/deep/x.mcfunction", "say x"],
                     ["data/ns/function/sub/y.mcfunction", "say y"], ["data/ns/advancement/q.json", "{}"],
                     ["data/ns/emptyd", None]]:
            if rng.random() < 0.6:
                init.append(item)
        if rng.random() < 0.55:
            init += [["data/ns/keep/a.txt", "precious"], ["data/ns/keep/sub/b.txt", "precious too"]]
            has["keep"] = True
            if rng.random() < 0.3:
                init += [["data/ns/keep/sub/empty", None]]
        if rng.random() < 0.2:
            has["."] = True                        # `#static "."`: the static IS the namespace folder
    elif nsk == "nocert":
        init += [["data/ns/function/mine.mcfunction", "say hand written"], ["data/ns/notes.txt", "user data"]]
    elif nsk == "nocert_static":
        # a namespace folder WITHOUT jmc.txt whose direct children only LEAD to (or are) #static folders, with hand-written
        # files next to the static folder that carry the names of generated files: refusal must not depend on the statics
        shape = rng.choice(["lib", "lib", "keep", "both"])
        if shape in ("lib", "both"):
            init += [["data/ns/function/lib/hand.mcfunction", "say lib"], ["data/ns/function/g.mcfunction", "say hand-written g"],
                     ["data/ns/function/f.mcfunction", "say hand-written f"]]
            has["function/lib"] = True
        if shape in ("keep", "both"):
            init += [["data/ns/keep/a.txt", "precious"]]
            has["keep"] = True
        if shape == "keep" and rng.random() < 0.5:
            init += [["data/ns/keep/sub/b.txt", "precious too"]]
    elif nsk == "emptydir":
        init.append(["data/ns", None])
    mck = rng.choice(["absent", "absent", "tags", "tags", "stale", "malformed", "novalues", "other"])
    if mck in ("tags", "stale"):
        vals = ["other:init", "nsx:init"] if mck == "tags" else ["other:init", "ns:__load__", "nsfoo:bar", "ns:old"]
        init.append(["data/minecraft/tags/function/load.json", canon(vals)])
        if rng.random() < 0.6:
            init.append(["data/minecraft/tags/function/tick.json", canon(["ns:__tick__"] if mck == "stale" else ["other:tick", "ns:__tick__", "ns2:t"])])
        if rng.random() < 0.3:
            init.append(["data/minecraft/tags/functions/load.json", canon(["legacy:x"])])
    elif mck == "malformed":
        init.append(["data/minecraft/tags/function/" + rng.choice(["load.json", "tick.json"]), '{"values": ['])
    elif mck == "novalues":
        init.append(["data/minecraft/tags/function/load.json", '{"replace": false}'])
    elif mck == "other":
        init.append(["data/minecraft/loot_table/x.json", "{}"])
    if rng.random() < 0.35:
        init += [["data/minecraft/keep/m.txt", "vanilla override kept by hand"]]
        has["../minecraft/keep"] = True
    if any(p.startswith("data/minecraft/") for p, _ in init) and rng.random() < 0.25:
        has["../minecraft"] = True               # the static IS a deleted folder
    if mck in ("tags", "stale", "malformed", "novalues") and rng.random() < 0.3:
        has["../minecraft/tags"] = True          # a #static that shields the function-tag files themselves
    if rng.random() < 0.4:
        init += [["data/foo/function/old.mcfunction", "say foo old"]]
        if rng.random() < 0.5:
            init += [["data/foo/keepfoo/z.txt", "z"]]
            has["../foo/keepfoo"] = True
        if rng.random() < 0.3:
            has["../foo"] = True                  # the static IS the folder of an (possibly) overridden namespace
    copy_src = None
    if rng.random() < 0.45:
        copy_src = [["top.txt", "T"]]
        if rng.random() < 0.6:
            copy_src += [["extra/x.txt", "X"], ["extra/sub/y.txt", "Y"]]
        if rng.random() < 0.4:
            copy_src += [["data/ns2/function/c.mcfunction", "say c"]]
        u = rng.random()
        if u < 0.25:
            copy_src += [["data/minecraft/tags/function/load.json", canon(["copied:init"])]]
        elif u < 0.33:       # an unparsable / "values"-less tag file arrives through #copy
            copy_src += [["data/minecraft/tags/function/" + rng.choice(["load.json", "tick.json"]), rng.choice(['{"values": [', '{"replace": false}'])]]
        elif u < 0.38:
            copy_src += [["data/minecraft/tags/function/tick.json", canon(["copied:tick", "ns:__tick__"])]]
        if rng.random() < 0.15:
            copy_src += [["emptydir", None]]
        rng.shuffle(copy_src)
        has["__copy__"] = True
    job = dict(ns="ns", pack_format=rng.choice(["48", "48", "48", "26", "61"]), desc="d", out_exists=out_exists or bool(init),
               init=init, copy_src=copy_src, out_dotdot=rng.random() < 0.2)
    if rng.random() < 0.4:
        env = rng.choice(PATH_ENVS)
        if job["out_exists"] or not env.get("needs_out"):
            job["out_dotdot"] = False
            job["paths"] = path_env(env)
            has["__env__"] = env
    return job, has


FAULT_PATHS = ["data/ns/function/old.mcfunction", "data/ns/jmc.txt", "data/ns/function/sub/y.mcfunction",
               "data/minecraft/tags/function/load.json", "data/ns/function/__load__.mcfunction",
               "data/foo/function/old.mcfunction", "data/ns/advancement/q.json"]
FAULT_DIRS = ["data/ns", "data/ns/function", "data/minecraft/tags", "data/minecraft", "data/foo"]


STATIC_DIRS = {"keep": "data/ns/keep", "../minecraft/keep": "data/minecraft/keep", "../foo/keepfoo": "data/foo/keepfoo"}
FOREIGN_EDITS = [["data/other/function/b.mcfunction", "say b"], ["notes/todo.txt", "todo"], ["readme.txt", "changed"],
                 ["data/other2/tags/function/t.json", '{"values": []}']]


def user_edits(rng, job: dict, has: dict, state: dict) -> dict:
    """What the user does to the output directory between two builds of the same process (strengthening round 2): adds,
    overwrites and deletes files INSIDE the #static folders and foreign files elsewhere.  state = files known per folder."""
    touch, remove = [], []
    for st, d in STATIC_DIRS.items():
        if not has.get(st):
            continue
        files = state.setdefault(st, sorted(p for p, c in job["init"] if c is not None and p.startswith(d + "/")))
        k = rng.random()
        if k < 0.45:
            state["n"] = state.get("n", 0) + 1
            new = f"{d}/{rng.choice(['', 'sub/', 'later/deep/'])}added{state['n']}.txt"
            touch.append([new, f"added by the user {state['n']}"])
            files.append(new)
        if files and rng.random() < 0.3:
            touch.append([rng.choice(files), "edited by the user"])
        if len(files) > 1 and rng.random() < 0.25:
            victim = rng.choice(files)
            files.remove(victim)
            touch[:] = [t for t in touch if t[0] != victim]
            remove.append(victim)
    if rng.random() < 0.3:
        touch.append(list(rng.choice(FOREIGN_EDITS)))
    out = {}
    if touch:
        out["touch"] = touch
    if remove:
        out["remove"] = remove
    return out


def gen_history(rng, n_builds=None) -> dict:
    job, has = gen_init(rng)
    n = n_builds or rng.choice([1, 2, 2, 3, 3, 4])
    builds = []
    state: dict = {}
    for i in range(n):
        p = gen_project(rng, has, has.get("__env__"))
        if p["kind"] == "valid" and rng.random() < 0.25:
            statics = p["header"] is not None and "#static" in p["header"]
            p["oserror_path"] = rng.choice(FAULT_PATHS if statics else FAULT_PATHS + FAULT_DIRS)
        if i > 0 and rng.random() < 0.6:
            p.update(user_edits(rng, job, has, state))
        if i > 0 and rng.random() < 0.25:
            p["pack_format"] = rng.choice(["26", "48", "61", "15"])      # the format changes between builds (both directions)
        builds.append(p)
    job["builds"] = builds
    return job


def fixed_histories() -> list[dict]:
    """Hand-written histories: every documented defect window of the pinned tree and the boundary shapes."""
    cert = "\n".join(f"{k}={v}" for k, v in DEFAULT_CERT)
    A = "\n".join([fn("__tick__", 'say "t";'), fn("f"), 'new advancement(x.y) {"a":1}'])
    B = fn("g")
    base = dict(ns="ns", pack_format="48", desc="d", out_exists=True, copy_src=None)
    hs = [
        # failing compile into a fresh directory (pinned: leaves jmc.txt)
        dict(base, init=[], out_exists=False, builds=[dict(src='function g() { say "g" }', header=None)]),
        dict(base, init=[["readme.txt", "x"]], builds=[dict(src=fn("f", "nope();"), header=None)]),
        dict(base, init=[], builds=[dict(src=B, header="#bogus")]),
        # #static below data/minecraft (pinned: deleted)
        dict(base, init=[["data/ns/jmc.txt", cert], ["data/ns/function/old.mcfunction", "o"], ["data/minecraft/keep/m.txt", "m"],
                         ["data/minecraft/tags/function/tick.json", canon(["ns:__tick__"])]],
             builds=[dict(src=B, header='#static "../minecraft/keep"'), dict(src=A, header='#static "../minecraft/keep"')]),
        # #static with an output path that is not normalised (pinned: statics ignored)
        dict(base, out_dotdot=True, init=[["data/ns/jmc.txt", cert], ["data/ns/keep/a.txt", "precious"], ["data/ns/function/o.mcfunction", "o"]],
             builds=[dict(src=B, header='#static "keep"')]),
        # refusal
        dict(base, init=[["data/ns/function/mine.mcfunction", "hand"]], builds=[dict(src=B, header=None), dict(src=B, header="#override foo")]),
        dict(base, init=[["data/ns", None]], builds=[dict(src=B, header=None)]),
        # stale build replaced, overrides, copy, nometa
        dict(base, init=[], copy_src=[["top.txt", "T"], ["data/zz/function/c.mcfunction", "c"]],
             builds=[dict(src=A, header=None), dict(src=B + "\n" + fn("foo.h"), header='#override foo\n#copy "cp"'),
                     dict(src=B, header="#nometa"), dict(src=A, header="#override foo")]),
        # foreign tags merged / malformed foreign tag
        dict(base, init=[["data/minecraft/tags/function/load.json", canon(["other:init", "ns:stale"])],
                         ["data/minecraft/tags/function/tick.json", canon(["other:t"])]], builds=[dict(src=A, header=None), dict(src=B, header=None)]),
        dict(base, init=[["data/minecraft/tags/function/load.json", '{"values": [']], builds=[dict(src=A, header=None)]),
        # which tag file does the build merge into?  (read before the first mutation by fixes/C10-function-tags-read-first.patch)
        # - an unparsable tag of the OLD output is deleted with data/minecraft: the build succeeds
        dict(base, init=[["data/ns/jmc.txt", cert], ["data/minecraft/tags/function/load.json", '{"values": [']],
             builds=[dict(src=A, header=None), dict(src=B, header=None)]),
        # - #copy replaces the unparsable foreign tag (fresh namespace / rebuild): the build succeeds and merges the copied values
        dict(base, init=[["data/minecraft/tags/function/load.json", '{"values": [']],
             copy_src=[["data/minecraft/tags/function/load.json", canon(["copied:init", "ns:stale"])]],
             builds=[dict(src=A, header='#copy "cp"'), dict(src=B, header='#copy "cp"')]),
        # - the unparsable / "values"-less tag arrives through #copy (fresh namespace, then rebuild over a good output)
        dict(base, init=[["readme.txt", "x"]], copy_src=[["top.txt", "T"], ["data/minecraft/tags/function/tick.json", '{"values": [']],
             builds=[dict(src=A, header='#copy "cp"')]),
        dict(base, init=[], copy_src=[["data/minecraft/tags/function/load.json", '{"replace": false}'], ["extra/x.txt", "X"]],
             builds=[dict(src=A, header=None), dict(src=B, header='#copy "cp"'), dict(src=B, header=None)]),
        # - a #static shields the tag files from the deletion: unparsable -> error; parsable -> foreign values survive the rebuild
        dict(base, init=[["data/ns/jmc.txt", cert], ["data/ns/function/old.mcfunction", "o"],
                         ["data/minecraft/tags/function/tick.json", '{"values": [']],
             builds=[dict(src=A, header='#static "../minecraft/tags"'), dict(src=A, header=None)]),
        dict(base, init=[["data/ns/jmc.txt", cert], ["data/minecraft/tags/function/load.json", canon(["other:init", "ns:old"])],
                         ["data/minecraft/loot_table/x.json", "{}"]],
             builds=[dict(src=A, header='#static "../minecraft/tags"'), dict(src=B, header='#static "../minecraft/tags/function"'),
                     dict(src=B, header=None)]),
        # deletion failure
        dict(base, init=[["data/ns/jmc.txt", cert], ["data/ns/function/old.mcfunction", "o"], ["data/ns/function/z/w.mcfunction", "w"]],
             builds=[dict(src=B, header=None, oserror_path="data/ns/function/old.mcfunction"), dict(src=B, header=None)]),
        # (round 2) one process, same #static set in every build, the user edits the static folders in between
        dict(base, init=[["data/ns/jmc.txt", cert], ["data/ns/keep/a.txt", "precious"], ["data/ns/function/old.mcfunction", "o"],
                         ["data/minecraft/keep/m.txt", "m"]],
             builds=[dict(src=B, header='#static "keep"\n#static "../minecraft/keep"'),
                     dict(src=A, header='#static "keep"\n#static "../minecraft/keep"',
                          touch=[["data/ns/keep/new.txt", "new"], ["data/ns/keep/a.txt", "edited"], ["data/minecraft/keep/sub/n.txt", "n"],
                                 ["data/other/function/z.mcfunction", "say z"]]),
                     dict(src=B, header='#static "../minecraft/keep"\n#static "keep"', remove=["data/ns/keep/a.txt"],
                          touch=[["data/ns/keep/sub/deep/later.txt", "later"]]),
                     dict(src=A, header='#static "keep"', touch=[["data/ns/keep/third.txt", "3"]])]),
        # (round 2) the pack format crosses 48 between builds, in both directions: the other format's tag folder must not survive
        dict(base, init=[], builds=[dict(src=A, header=None), dict(src=B, header=None, pack_format="26"),
                                    dict(src=A, header=None, pack_format="26"), dict(src=B, header=None, pack_format="61")]),
        # override == minecraft, function named like the override namespace
        dict(base, init=[["data/ns/jmc.txt", cert], ["data/minecraft/function/v.mcfunction", "v"], ["data/ns/keep/a.txt", "p"]],
             builds=[dict(src=B + "\n" + fn("minecraft.mcf"), header="#override minecraft"),
                     dict(src=B + "\n" + fn("minecraft.mcf"), header='#override minecraft\n#static "keep"')]),
    ]
    hs += triage_histories()
    hs += spelling_histories()
    hs += prefix_histories()
    return hs


# (round 5) the pack's OWN top-level folders whose name merely starts with (or is a proper prefix of) a declared override name
PREFIX_PAIRS = [("lib", "library"), ("lib", "lib2"), ("lib", "libs"), ("lib", "lib_x"), ("lib", "lib0"), ("library", "lib"),
                ("lib2", "lib"), ("foo", "foobar"), ("n", "ns"), ("nsx", "ns"), ("minecraf", "minecraft"), ("lib", "li")]


def prefix_histories() -> list[dict]:
    """`#override o` / `#link o` + own resources (function, class method, `new` JSON) under a folder `w` where one of o, w is a
    proper prefix of the other: they belong to data/ns; data/<w> is a FOREIGN bystander namespace that exists beforehand with a
    file at exactly the path a startswith-test would write (overwriting) and without one (creation)."""
    cert = "\n".join(f"{k}={v}" for k, v in DEFAULT_CERT)
    hs = []
    for i, (o, w) in enumerate(PREFIX_PAIRS):
        d = "link" if i % 3 == 1 else "override"
        by = [] if w in ("ns", "minecraft") else [[f"data/{w}/function/init.mcfunction", "say foreign init"],
                                                  [f"data/{w}/function/other.mcfunction", "say foreign other"],
                                                  [f"data/{w}/advancement/keepme.json", '{"foreign":1}']]
        tree = ([["readme.txt", "hi"], [f"data/{o}/function/old.mcfunction", "say o old"],
                 ["data/library/function/init.mcfunction", "say foreign library"], ["data/lib2/function/a.mcfunction", "say lib2"],
                 ["data/libs/advancement/adv.json", '{"foreign":2}']] + [x for x in by if not x[0].startswith(("data/library/function/init", ))])
        if i % 2 == 0:
            tree += [["data/ns/jmc.txt", cert], ["data/ns/function/old.mcfunction", "say old"]]
        own = [fn(w + ".init"), f'new advancement({w}.adv) {{"b":2}}', f'class {w}.deep {{ function m() {{ say "m"; }} }}', fn(w + ".a")]
        src1 = "\n".join([fn("g"), fn(o + ".h")] + own)
        src2 = "\n".join([fn("f"), own[0], own[1], f'class {w} {{ function init2() {{ say "c"; }} new advancement(adv2) {{"c":3}} }}'])
        hs.append(dict(ns="ns", pack_format="48" if i % 4 else "26", desc="d", out_exists=True, copy_src=None, init=tree,
                       builds=[dict(src=src1, header=f"#{d} {o}"),
                               dict(src=src2, header=f"#{d} {o}\n#override {o}zz"),
                               dict(src=src1, header=f"#override {o}" + ("" if w in ("ns", "minecraft") else f"\n#{d} {w}")),   # now BOTH are declared
                               dict(src=src2, header=None)]))                                       # no override: all own
    return hs


def spelling_histories() -> list[dict]:
    """(round 4) every way of handing JMC its paths x spellings of the `#static` argument, on a built tree with hand-made
    folders in the namespace folder, in data/minecraft and in an override namespace; build, user edits, rebuild, rebuild."""
    cert = "\n".join(f"{k}={v}" for k, v in DEFAULT_CERT)
    A = "\n".join([fn("__tick__", 'say "t";'), fn("f"), 'new advancement(x.y) {"a":1}'])
    B = fn("g")
    tree = [["data/ns/jmc.txt", cert], ["data/ns/function/old.mcfunction", "o"], ["data/ns/keep/a.txt", "precious"],
            ["data/ns/keep/sub/b.txt", "more"], ["data/ns/function/lib/hand.mcfunction", "say lib"],
            ["data/minecraft/loot_table/x.json", "{}"], ["data/minecraft/keep/m.txt", "m"],
            ["data/minecraft/tags/function/load.json", canon(["other:init"])],
            ["data/foo/keepfoo/z.txt", "z"], ["data/foo/function/old.mcfunction", "o"], ["readme.txt", "hi"]]
    plain = ["keep", "../minecraft/loot_table", "../minecraft/keep", "../foo/keepfoo", "function/lib", "keep/sub", "../minecraft", "../foo", "."]
    hs = []
    for ei, env in enumerate([None] + PATH_ENVS):
        def hdr(k, sts, extra=()):
            lines = [f'#static "{static_spellings(st, env)[(ei + k + 3 * j) % len(static_spellings(st, env))]}"' for j, st in enumerate(sts)]
            return "\n".join(list(extra) + lines)
        if ei % 2 == 0:      # the function tags themselves shielded: their foreign entries must survive every rebuild
            hdr0 = hdr
            hdr = lambda k, sts, extra=(): hdr0(k, list(sts) + ["../minecraft/tags"], extra)  # noqa
        job = dict(ns="ns", pack_format="48", desc="d", out_exists=True, copy_src=None, init=list(tree), paths=path_env(env),
                   builds=[       # (a folder that is not declared in a build is gone afterwards: every build names them all)
                       dict(src=A, header=hdr(0, ["keep", "../minecraft/loot_table", "../minecraft/keep", "function/lib"])),
                       dict(src=B + "\n" + fn("foo.h"),
                            header=hdr(1, ["../foo/keepfoo", "keep", "../minecraft/keep", "keep/sub", "function/lib", "../minecraft/loot_table"], ["#override foo"]),
                            touch=[["data/ns/keep/new.txt", "new"], ["data/minecraft/loot_table/y.json", "{}"]]),
                       dict(src=A, header=hdr(2, ["function/lib", "../minecraft/loot_table", "keep", "../minecraft/keep"]), touch=[["data/ns/keep/sub/c.txt", "c"]]),
                       dict(src=B, header=hdr(3, [plain[6 + ei % 3], "keep", "../minecraft/keep", "function/lib", "../minecraft/loot_table"])),
                   ])
        hs.append(job)
    # a spelling that LOOKS like the static folder but is not: `keep/..` is the namespace folder, `../keep` is data/keep
    hs.append(dict(ns="ns", pack_format="48", desc="d", out_exists=True, copy_src=None, init=list(tree) + [["data/keep/k.txt", "k"]],
                   builds=[dict(src=B, header='#static "../keep"\n#static "function/lib/../lib"'), dict(src=A, header='#static "keep/sub/../../function/lib"')]))
    return hs


def triage_histories() -> list[dict]:
    """Hand-written histories for the inputs of reports/C10C11-triage.md (always run, quick tier too)."""
    cert = "\n".join(f"{k}={v}" for k, v in DEFAULT_CERT)
    A = "\n".join([fn("__tick__", 'say "t";'), fn("f"), 'new advancement(x.y) {"a":1}'])
    B = fn("g")
    BR = fn("branch", 'if ($x == 1) { say "a"; say "b"; } else { say "c"; say "d"; }')
    base = dict(ns="ns", pack_format="48", desc="d", out_exists=True, copy_src=None)
    built = [["data/ns/jmc.txt", cert], ["data/ns/function/old.mcfunction", "o"], ["data/other/function/a.mcfunction", "say a"],
             ["readme.txt", "hi"], ["data/foreign/predicate/keep.json", "{}"]]
    hs = []
    # 1. a generated resource whose NAME comes from a string argument / from jmc.txt and leaves data/<ns>
    for name in ("../../foreign/predicate/x", "../../../../outside/x", "a/../b", "nested/fine"):
        hs.append(dict(base, init=list(built), builds=[dict(src=B + "\n" + LOCATIONS % name, header=None), dict(src=B, header=None)]))
    hs.append(dict(base, init=[["data/ns/jmc.txt", cert.replace("__private__", "../../../zz")], ["readme.txt", "hi"]],
                   builds=[dict(src=BR, header=None), dict(src=B, header=None)]))
    # 2. #override / #link arguments that are not a namespace: the deleted "folder" is the output / data directory or beyond
    for arg in ('".."', '""', '"."', '"../../outside"', '"{OUTSIDE}"', '"a/../.."', '"../other"'):
        for d in ("override", "link") if arg in ('".."', '""') else ("override",):
            hs.append(dict(base, init=list(built), builds=[dict(src=B, header=f"#{d} {arg}"), dict(src=B, header=None)]))
    # 3. every directive that feeds namespace_overrides, own namespace included
    hs.append(dict(base, init=list(built), builds=[dict(src=A + "\n" + fn("ns.q"), header="#link ns"), dict(src=B, header="#link ns")]))
    hs.append(dict(base, init=list(built) + [["data/foo/function/old.mcfunction", "o"]],
                   builds=[dict(src=A + "\n" + fn("foo.q"), header="#link foo"), dict(src=B, header="#link foo\n#override bar"),
                           dict(src=B, header=None)]))
    # 6a. namespace folder without jmc.txt that holds only folders leading to #static folders, hand-written siblings
    nocert = [["data/ns/function/lib/hand.mcfunction", "say lib"], ["data/ns/function/g.mcfunction", "say hand-written g"]]
    hs.append(dict(base, init=list(nocert), builds=[dict(src=B, header='#static "function/lib"'), dict(src=B, header=None)]))
    hs.append(dict(base, init=[["data/ns/keep/a.txt", "precious"]], builds=[dict(src=B, header='#static "keep"')]))
    hs.append(dict(base, init=list(nocert) + [["data/ns/keep/a.txt", "precious"]],
                   builds=[dict(src=B + "\n" + fn("lib.x"), header='#static "function/lib"\n#static "keep"')]))
    # 6b. certificates with bytes make_cert would not write + a compile that fails at each stage: jmc.txt keeps its bytes
    for i, odd in enumerate(ODD_CERTS[:7]):
        fail = [dict(src='function g() { say "g" }', header=None), dict(src=fn("f", "nope();"), header=None), dict(src=B, header="#bogus")]
        hs.append(dict(base, init=[["data/ns/jmc.txt", odd], ["data/ns/function/old.mcfunction", "o"]],
                       builds=[fail[i % 3], fail[(i + 1) % 3], dict(src=BR, header=None)]))
    # 7. #static folders that ARE a deleted folder
    roots = [["data/ns/jmc.txt", cert], ["data/ns/function/old.mcfunction", "o"], ["data/ns/hand.txt", "h"],
             ["data/minecraft/loot_table/x.json", "{}"], ["data/minecraft/tags/function/tick.json", canon(["other:t", "ns:__tick__"])],
             ["data/foo/k.txt", "k"], ["data/foo/function/old.mcfunction", "o"]]
    hs.append(dict(base, init=list(roots), builds=[dict(src=B, header='#static "../minecraft"'), dict(src=A, header='#static "../minecraft"'),
                                                   dict(src=B, header='#static "../minecraft"')]))
    hs.append(dict(base, init=list(roots), builds=[dict(src=B + "\n" + fn("foo.h"), header='#override foo\n#static "../foo"'),
                                                   dict(src=B, header='#link foo\n#static "../foo"')]))
    hs.append(dict(base, init=list(roots), builds=[dict(src=B, header='#static "."'), dict(src=A, header='#static "."\n#static "../minecraft"')]))
    return hs


# ----------------------------------------------------------------------------------- the check

BITS = {1: "trace differs from the model's plan", 2: "tree after the run differs from exec(plan, tree before)",
        4: "result (refusal / error kind / done) differs from the model's", 8: "a path outside the territory changed",
        16: "a #static folder changed", 32: "a refused or failed compile modified the tree",
        64: "a namespace folder without jmc.txt was touched",
        128: "a function tag inside a #static folder lost a foreign entry"}


def describe_change(b: dict) -> list:
    before, after = dict(b["before"]), dict(b["after"])
    out = []
    for p in sorted(set(before) | set(after)):
        if (p in before) != (p in after) or before.get(p) != after.get(p):
            out.append([p, "absent" if p not in before else ("dir" if before[p] is None else "file"),
                        "absent" if p not in after else ("dir" if after[p] is None else "file")])
    return out


def run_histories(prop: str, jobs: list[dict], variant: str | None = None, prefix: str = "cases"):
    """Run jobs on the real compiler, evaluate every build as a Coq case.
    Returns list of records {job, bi, build, code, info|unmodelled}, and coq errors."""
    results = run_jobs(jobs)
    recs, terms = [], []
    for ji, (job, r) in enumerate(zip(jobs, results)):
        if "runner_error" in r:
            recs.append(dict(job=job, ji=ji, bi=-1, build=None, code=None, error=r["runner_error"]))
            continue
        for bi, b in enumerate(r["builds"]):
            rec = dict(job=job, ji=ji, bi=bi, build=b, code=None)
            try:
                t, info = case_term(job, bi, b, variant)
                rec["info"] = info
                rec["term_index"] = len(terms)
                terms.append(t)
            except Unmodelled as e:
                rec["unmodelled"] = str(e)
            recs.append(rec)
    codes, errs = eval_codes(prop, terms, prefix=prefix)
    for rec in recs:
        if "term_index" in rec:
            rec["code"] = codes[rec["term_index"]]
    # The override folders are deleted in the iteration order of a Python *set of Paths*
    # (compiling.py: `for folder in overrides_folders - {namespace_folder}`), which depends on the
    # hash of the (temporary) output path.  The harness recovers that order from the first deletion
    # seen per folder; folders never touched (absent, or the build stopped earlier) leave it
    # undetermined.  Build.run takes the order as part of the header and every theorem quantifies
    # over all headers, so a case agrees with the model iff SOME order consistent with the
    # observations reproduces the run: retry the remaining permutations before reporting.
    import itertools
    retry = []
    for rec in recs:
        if rec.get("code") and "info" in rec and len(rec["info"]["overrides"]) >= 2:
            base = rec["info"]["overrides"]
            for perm in itertools.permutations(base):
                if list(perm) != base:
                    try:
                        t, _ = case_term(rec["job"], rec["bi"], rec["build"], variant, ov_order=list(perm))
                    except Unmodelled:
                        continue
                    retry.append((rec, list(perm), t))
    if retry:
        rcodes, rerrs = eval_codes(prop, [t for _, _, t in retry], prefix=prefix + "_perm")
        errs += rerrs
        for (rec, perm, _), c in zip(retry, rcodes):
            if c == 0 and rec["code"]:
                rec["code"] = 0
                rec["info"]["overrides"] = perm
                rec["info"]["override_order_inferred_by_retry"] = True
    return recs, errs


def replay_obj(rec: dict, what: str) -> dict:
    b = rec["build"]
    bits = [BITS[k] for k in BITS if rec["code"] and rec["code"] & k]
    return dict(kind=what, history=rec["job"], build_index=rec["bi"], failed_checks=bits, code=rec["code"],
                real=dict(stage=b["stage"], exc=b["exc"], trace=[e[:2] for e in b["trace"]], changed=describe_change(b)),
                expected=f"model Build.run (variant {current_variant()}) on the recorded tree: same mutation sequence, same tree, "
                         "every changed path inside the territory, #static folders and failed compiles unchanged",
                how_to_replay="./check %s --replay <this file>" % rec.get("prop", PROP))


def main(tier: str) -> int:
    ck = Check(PROP, tier)
    ck.cov["trusted_base"] = TRUSTED
    ck.proof(extra_targets=["Run/C10.vo"])
    n_rand = 200 if tier == "quick" else 1200
    jobs = fixed_histories() + [gen_history(ck.rng) for _ in range(n_rand)]
    recs, errs = run_histories(PROP, jobs)
    for e in errs:
        ck.violation(dict(kind="correspondence-file-failed", log=e), no_input=True)
    hist, n_ok, unmodelled, reported = {}, 0, 0, set()
    known = {f["id"]: f for f in known_for(PROP)}
    # records whose run violates the property itself first: their history is the concrete failing input
    recs.sort(key=lambda r: 0 if (r.get("code") or 0) & (8 | 16 | 32 | 64 | 128) else 1)
    escapes = dict(inputs=0, harmless=0, pending=0)
    for rec in recs:
        if rec.get("error"):
            ck.violation(dict(kind="runner-error", history=rec["job"], log=rec["error"]), no_input=True)
            continue
        verdict = escape_verdict(rec["job"], rec["bi"], rec["build"])
        if verdict is not None:
            escapes["inputs"] += 1
        if rec["build"].get("outside_changed") and (verdict is None or verdict["finding"] is None):
            rec["prop"] = PROP
            obj = replay_obj(dict(rec, code=rec.get("code") or 0), "a folder NEXT TO the output directory was modified")
            obj["outside"] = rec["build"].get("outside")
            ck.violation(obj)
            continue
        if "unmodelled" in rec:
            if verdict is None:
                unmodelled += 1
                continue
            # outside the model (no namespace / resource-path check in this tree): the territory on the real snapshots
            if not verdict["escaped"] and not verdict["outside"]:
                escapes["harmless"] += 1
                continue
            fid = verdict["finding"]
            if fid is not None and all(x in known or x in PENDING_FIXES for x in fid.split("+")):
                escapes["pending"] += 1
                for x in fid.split("+"):
                    ck.known(x, (known.get(x) or PENDING_FIXES[x])["what"])
            elif ("escape", fid) not in reported:
                reported.add(("escape", fid))
                rec["prop"] = PROP
                obj = replay_obj(dict(rec, code=8), "property-violated-on-real-run (evaluated outside the model: a path that is not a list of names)")
                obj["escape"] = verdict
                ck.violation(obj)
            continue
        code, info = rec["code"], rec["info"]
        key = f"{info['result']}|statics={bool(info['statics'])}|ov={len(info['overrides'])}|copy={info['copy']}"
        hist[key] = hist.get(key, 0) + 1
        if code is None:
            continue
        if code == 0:
            n_ok += 1
            if info["result"] == "RTagErr" and describe_change(rec["build"]):
                fid = "C10-malformed-tag-after-mutation"
                if fid in known:
                    ck.known(fid, known[fid]["what"])
                else:
                    ck.violation(replay_obj(rec, "a failed build (unparsable function tag) modified the tree"))
            continue
        sig = code
        if sig in reported:
            continue
        reported.add(sig)
        prop_bits = code & (8 | 16 | 32 | 64 | 128)
        rec["prop"] = PROP
        # (round 2) a run that ENDED IN AN ERROR after modifying the tree, where the model of the accepted behaviour predicts
        # another result (e.g. success): the recorded history is a concrete failing input ("failed compiles change nothing"),
        # not only a broken correspondence.  (The listed RTagErr finding is the case where the model agrees: code 0.)
        failed_after_change = bool(code & 4) and info["result"] in ("ROsErr", "RTagErr", "RBuildErr", "RLexErr", "RHeaderErr") \
            and bool(describe_change(rec["build"])) and not rec["job"]["builds"][rec["bi"]].get("oserror_path")
        if prop_bits:
            ck.violation(replay_obj(rec, "property-violated-on-real-run"))
        elif failed_after_change:
            ck.violation(replay_obj(rec, f"a compile that failed ({info['result']}: {rec['build']['exc']}) modified the tree, and the "
                                         "model of the accepted behaviour does not predict this failure"))
        else:
            ck.violation(replay_obj(rec, "correspondence-differs (theorems of Props/C10.v no longer speak about this code); "
                                         "no property violation visible in this run"), no_input=True)
    builds = [r for r in recs if r.get("build")]
    ck.cov.update(dict(
        evaluations=len(builds), distinct_nontrivial=len({json.dumps([r["job"]["init"], r["job"]["builds"][r["bi"]]], sort_keys=True)
                                                          for r in builds if r["build"]["n_mut"] > 0}),
        rule="one evaluation = one real compile_jmc run of a generated history (initial tree x sequence of projects x injected "
             "deletion failure); compared: mutation trace == Build.plan, tree after == exec plan, result kind, and the property "
             "(territory / statics / no-op) on the real before/after trees, all evaluated in Coq; distinct_nontrivial = distinct "
             "(initial tree, project) pairs whose run performed at least one mutation",
        programs=len(jobs), histories=len(jobs), agree=n_ok, unmodelled_skipped=unmodelled, branch_histogram=hist,
        disagreements_checked=len([r for r in recs if r.get("code")]),
        samples=[dict(init=r["job"]["init"][:4], build=r["job"]["builds"][r["bi"]], result=r["info"]["result"],
                      n_mutations=r["build"]["n_mut"]) for r in builds[:40:8] if "info" in r],
        variant=current_variant(), variant_probe=dict(detect_variant()), escaping_inputs=escapes,
    ))
    return ck.finish()


# Defects demonstrated on the real code whose repair is a patch in /verif/fixes that /repo does not contain yet.  A tree WITHOUT the
# repair (detect_variant) prints them as KNOWN-FINDING for exactly the inputs escape_verdict attributes to them; a tree WITH the
# repair is compared with the repaired model, where the same inputs must be refused before the first mutation.
# Integrator: after committing a patch delete its entry here - a tree without the repair is then a VIOLATION.
PENDING_FIXES = {}   # every pending repair has been committed upstream; known_findings.json is the only authority

PROPOSED_KNOWN = {
    "C10-malformed-tag-after-mutation": dict(
        id="C10-malformed-tag-after-mutation", property="C10",
        what="a build that stops with JMCBuildError on an unparsable function-tag file (data/minecraft/tags/function/load.json|tick.json "
             "left by another pack or copied in by #copy) has already written jmc.txt / copied files - compiling.py:321-336 read_func_tag "
             "after make_cert; theorem C10_tag_error_noop_refuted_fixed; repaired by fixes/C10-function-tags-read-first.patch",
        match=dict(result="RTagErr", model_agrees=True)),
}


def replay(path: str) -> int:
    obj = json.loads(open(path).read())
    job, bi = obj["history"], obj["build_index"]
    recs, errs = run_histories(PROP, [job], prefix="replay")
    rec = [r for r in recs if r["bi"] == bi][0]
    print("expected:", obj.get("expected"))
    print("recorded failed checks:", obj.get("failed_checks"))
    if "unmodelled" in rec or errs:
        print("actual: could not evaluate:", rec.get("unmodelled"), errs)
        return 1
    bits = [BITS[k] for k in BITS if rec["code"] & k]
    print("actual: stage=%s exc=%s" % (rec["build"]["stage"], rec["build"]["exc"]))
    print("actual changed paths:", describe_change(rec["build"]))
    print("actual failed checks:", bits or "none (run agrees with model and property)")
    return 1 if bits else 0
