"""C07, strengthening round 4 — DISK builds: generators, the direct oracle on the tree read back from disk, the Coq replay
(Model/AllocDisk.v: deletion, make_cert, #copy, merged function tags, tick clean-up, generated files) and replay support.
Used by harness/c07.py; the real builds are run by harness/c07_disk.py."""
from __future__ import annotations

import json
import re
from concurrent.futures import ThreadPoolExecutor

from lib import NCPU, VERIF, coq_bool, coq_list, run_coq_files, run_py

DISK_RUNNER = VERIF / "harness" / "c07_disk.py"
TAG_PATH = re.compile(r"^data/minecraft/tags/functions?/(load|tick)\.json$")
DISK_NAMESPACES = ["mypack", "ns_1.x-y", "pk"]
DISK_PACK_FORMATS = ["48", "15", "61", "26", "7", "48", "81"]

EXPECTED = ("on the tree read back from disk after every build (first build and rebuilds into the same output, #copy / #static / "
            "left-over tag files): the load tag registers <ns>:<LOAD>; the tick tag registers <ns>:<TICK> iff the tick function is "
            "non-empty; neither tag holds another value of the pack's namespace; every own-namespace function call, schedule, "
            "function-tag entry, `#tag` and advancement reward of every generated file names a file of the tree; the tree is the "
            "one Model.AllocDisk.dbuild predicts")


def run_disk_jobs(jobs: list[dict], chunk: int = 12) -> list[dict]:
    if not jobs:
        return []
    chunks = [jobs[i:i + chunk] for i in range(0, len(jobs), chunk)]
    with ThreadPoolExecutor(max_workers=NCPU) as ex:
        res = list(ex.map(lambda c: run_py(DISK_RUNNER, {"jobs": c}, timeout=900), chunks))
    return [r for rs in res for r in rs]


# --------------------------------------------------------------------------- generators

def tag_json(values, extra=None, compact=False):
    obj = dict(extra or {})
    obj["values"] = list(values)
    return json.dumps(obj) if compact else json.dumps(obj, indent=4)


def fname(cert_name: str) -> str:
    """jmc.txt name -> the name a JMC program uses for that function"""
    return cert_name.replace("/", ".")


PROGRAMS = {
    # name -> (source template, has a non-empty tick function, header lines it needs)
    "plain": ('function main() { say "hi"; if ($x > 1) { say "a"; say "b"; } }', False, []),
    "tick-user": ('function @TICK@() { say "t"; main(); } function main() { say "m"; }', True, []),
    "tick-empty": ('function @TICK@() { } function main() { say "m"; }', False, []),
    "tick-timer": ('Timer.add(cd, runOnce, @a, ()=>{ say "done"; say "x"; });', True, []),
    "tick-add": ('@add(@TICK@) function pulse() { say "p"; }', True, []),
    "tag-adv": ('function a.b() { say "1"; } new tags.@FF@(mytag) {"values": ["@NS@:a/b"]} '
                'function caller() { @TAGCALL@ schedule function a.b() 5t; } '
                'new @ADV@(adv) {"criteria": {"x": {"trigger": "minecraft:tick"}}, "rewards": {"function": "@NS@:a/b"}}', False, []),
    "firstjoin": ('Player.firstJoin(()=>{ say "1"; say "2"; }); function @TICK@() { say "tick"; }', True, []),
    "override": ('function minecraft.foo() { say "mc"; } function main() { minecraft.foo(); while ($i < 3) { $i++; say "w"; } }', False,
                 ["#override minecraft"]),
    "override-tick": ('function minecraft.foo() { say "mc"; } function @TICK@() { minecraft.foo(); }', True, ["#override minecraft"]),
    "link": ('function main() { other.lib.f(); switch($x) { case 1: say "1"; say "1b"; case 2: say "2"; } }', False, ["#link other"]),
}
NO_TICK = [k for k, v in PROGRAMS.items() if not v[1]]
WITH_TICK = [k for k, v in PROGRAMS.items() if v[1]]


def program(name, cert, ns, pf="48"):
    src, _tick, hdr = PROGRAMS[name]
    # the JSON types are spelled like the folders of the pack format; `function #<ns>:<tag>;` is vanilla syntax that JMC only
    # tokenizes for plain namespaces
    src = src.replace("@FF@", ff_of(pf)).replace("@ADV@", "advancement" if float(pf) >= 48 else "advancements")
    src = src.replace("@TAGCALL@", "function #@NS@:mytag;" if re.fullmatch(r"[a-z0-9_]+", ns) else "execute as @a run function #@NS@:mytag;")
    return src.replace("@TICK@", fname(cert["TICK"])).replace("@LOAD@", fname(cert["LOAD"])).replace("@NS@", ns), list(hdr)


def tag_values(kind, ns, own_name):
    """values a user-supplied tag file holds"""
    return {"empty": [], "foreign": ["other:f"], "foreign+own": ["other:f", f"{ns}:{own_name}", "zlib:g/h"],
            "own": [f"{ns}:{own_name}"], "stale": ["other:f", f"{ns}:old/gone"],
            "default-own": ["other:f", f"{ns}:__tick__", f"{ns}:__load__"]}[kind]


VALUE_KINDS = ["empty", "foreign", "foreign+own", "own", "stale", "default-own"]


def ff_of(pf: str) -> str:
    return "function" if float(pf) >= 48 else "functions"


def disk_job(rng, cert, ns, pf, seq, load_kind, tick_kind, where, extras=(), entry="compile_jmc", spelling=None, extra_tag_keys=None,
             compact=False):
    """One history: the programs of `seq` built one after the other into the same output directory; the user's load / tick tag
    (kinds; None = no such file) lives in `where`: 'copy' (#copy folder), 'static' (a #static folder of the output), 'leftover'
    (the output directory holds data/minecraft but not data/<ns>) or 'previous' (a complete earlier output incl. jmc.txt)."""
    ff = spelling or ff_of(pf)
    tags = []
    if load_kind is not None:
        tags.append((f"data/minecraft/tags/{ff}/load.json", tag_json(tag_values(load_kind, ns, cert["LOAD"]), extra_tag_keys, compact)))
    if tick_kind is not None:
        tags.append((f"data/minecraft/tags/{ff}/tick.json", tag_json(tag_values(tick_kind, ns, cert["TICK"]), extra_tag_keys, compact)))
    init, copy, header = [], None, []
    custom = cert["LOAD"] != "__load__" or cert["PRIVATE"] != "__private__"
    cert_file = (f"data/{ns}/jmc.txt", "\n".join(f"{k}={v}" for k, v in cert.items()))
    if where == "copy":
        copy = [list(t) for t in tags] + [["pack.png", "png"], [f"data/{ns}/{ff}/user/kept.mcfunction", "say kept"]]
        header.append('#copy "cp"')
        if custom:
            init.append(list(cert_file))
    elif where == "static":
        init += [list(cert_file)] + [list(t) for t in tags] + [[f"data/minecraft/tags/{ff}/other.json", tag_json(["other:f"])]]
        header.append(f'#static "../minecraft/tags/{ff}"')
    elif where == "leftover":
        # the namespace folder was removed by hand (or the output belongs to another tool): no jmc.txt -> default names only
        init += [list(t) for t in tags]
    elif where == "previous":
        init += [list(cert_file)] + [list(t) for t in tags] + [[f"data/{ns}/{ff}/old/gone.mcfunction", "say old"]]
    else:
        raise ValueError(where)
    header += list(extras)
    builds = []
    for name in seq:
        if name == "gen":
            # a random core-language program (functions, classes, if/else chains, loops, switch, schedule, @add onto tick / load)
            import c07
            g = c07.Gen(rng, [], tick_name=cert["TICK"], load_name=cert["LOAD"], p_empty=0.1, builtins=rng.random() < 0.5)
            builds.append(dict(src=g.program().replace("__variable__", cert["VAR"]), header="\n".join(header) or None, program=name))
            continue
        src, hdr = program(name, cert, ns, pf)
        builds.append(dict(src=src, header="\n".join(hdr + header) or None, program=name))
    return dict(ns=ns, pack_format=str(pf), entry=entry, init=init, copy=copy, builds=builds,
                meta=dict(where=where, load_kind=load_kind, tick_kind=tick_kind, seq=list(seq), spelling=ff, cert=cert))


def disk_jobs(rng, tier, certs):
    """(origin, job) list.  A fixed core (every place a user tag can live x tick / no tick x both folder spellings x own entry
    present / absent) plus a sample of the full matrix drawn from rng."""
    jobs = []
    default = certs[0]

    def add(origin, **kw):
        jobs.append((f"disk:{origin}", disk_job(rng, **kw)))
    # ---- core: always
    i = 0
    for where in ("copy", "static", "leftover", "previous"):
        for pf in ("48", "15"):
            for kinds in (("foreign", "foreign+own"), ("foreign+own", "foreign"), ("own", "stale"), ("empty", "own"), (None, "foreign+own"),
                          ("stale", None)):
                cert = default if where == "leftover" else certs[i % len(certs)]
                ns = DISK_NAMESPACES[i % len(DISK_NAMESPACES)]
                seq = [["plain", "tick-user", "plain"], ["tick-timer", "tick-empty"], ["tick-add", "plain", "tick-user"],
                       ["tag-adv", "firstjoin"]][i % 4]
                add(f"core:{where}:{pf}:{kinds[0]}/{kinds[1]}", cert=cert, ns=ns, pf=pf, seq=seq, load_kind=kinds[0], tick_kind=kinds[1],
                    where=where, entry="steps" if i % 5 == 4 else "compile_jmc", compact=bool(i % 2),
                    extra_tag_keys={"replace": False} if i % 3 == 0 else None)
                i += 1
    # ---- the neighbourhood
    add("override:copy", cert=certs[1], ns="mypack", pf="48", seq=["override", "override-tick", "override"], load_kind="foreign",
        tick_kind="foreign+own", where="copy")
    add("override:static", cert=default, ns="pk", pf="15", seq=["override-tick", "override"], load_kind="foreign+own", tick_kind="own",
        where="static")
    add("link:copy", cert=certs[4], ns="mypack", pf="61", seq=["link", "tick-user", "link"], load_kind="stale", tick_kind="foreign+own",
        where="copy")
    add("nometa:copy", cert=default, ns="mypack", pf="48", seq=["plain", "tick-user"], load_kind="foreign", tick_kind="foreign",
        where="copy", extras=["#nometa"])
    add("wrong-spelling:copy", cert=default, ns="mypack", pf="48", seq=["plain", "tick-user", "tick-empty"], load_kind="foreign",
        tick_kind="foreign+own", where="copy", spelling="functions")
    add("wrong-spelling:previous", cert=default, ns="pk", pf="15", seq=["tick-user", "plain"], load_kind="foreign+own",
        tick_kind="foreign+own", where="previous", spelling="function")
    # a #copy folder that appears / changes / disappears between builds, a pack format that changes between builds
    j = disk_job(rng, cert=default, ns="mypack", pf="48", seq=["tick-user", "plain", "plain", "tick-user"], load_kind="foreign",
                 tick_kind="foreign+own", where="copy")
    j["builds"][1]["copy_touch"] = [["data/minecraft/tags/function/tick.json", tag_json(["mypack:__tick__"])]]
    j["builds"][2]["copy_remove"] = ["data/minecraft/tags/function/tick.json", "data/minecraft/tags/function/load.json"]
    j["builds"][3]["pack_format"] = "15"
    j["builds"][3]["copy_touch"] = [["data/minecraft/tags/functions/tick.json", tag_json(["other:f", "mypack:__tick__"])]]
    jobs.append(("disk:copy-edited", j))
    j = disk_job(rng, cert=default, ns="mypack", pf="48", seq=["tick-user", "plain", "tick-user"], load_kind=None, tick_kind=None,
                 where="copy")
    j["builds"][1]["header"] = None          # #copy dropped: the copied tick tag of build 1 is previous output now
    j["builds"][2]["touch"] = [["data/minecraft/tags/function/tick.json", tag_json(["other:f", "mypack:__tick__", "mypack:old"])]]
    jobs.append(("disk:copy-dropped", j))
    # a user-edited output between builds (tick tag rewritten by hand, namespace folder removed by hand)
    j = disk_job(rng, cert=default, ns="pk", pf="48", seq=["tick-user", "plain", "plain"], load_kind=None, tick_kind=None, where="previous")
    j["builds"][1]["remove"] = ["data/pk"]
    j["builds"][2]["touch"] = [["data/minecraft/tags/function/tick.json", tag_json(["pk:__tick__", "other:f"])]]
    jobs.append(("disk:hand-edited", j))
    # malformed / value-less user tags: the build must stop with JMCBuildError (model: DTagErr)
    for k, text in enumerate(['{"values": [', '{"replace": false}', 'not json']):
        j = disk_job(rng, cert=default, ns="mypack", pf="48", seq=["plain", "tick-user"], load_kind="foreign", tick_kind="foreign",
                     where=("copy", "static", "leftover")[k])
        target = j["copy"] if j["copy"] is not None else j["init"]
        for item in target:
            if item[0].endswith("tick.json"):
                item[1] = text
        jobs.append((f"disk:malformed:{k}", j))
    # ---- (round 5) calls into the #copy library x the function folder the library uses x pack formats on both sides of 48
    for origin, j in lib_jobs(rng, certs):
        jobs.append((origin, j))
    # ---- sample of the full matrix
    n = 40 if tier == "quick" else 300
    for k in range(n):
        where = rng.choice(["copy", "copy", "copy", "static", "leftover", "previous"])
        cert = default if where == "leftover" else rng.choice(certs)
        ns = rng.choice(DISK_NAMESPACES)
        pf = rng.choice(DISK_PACK_FORMATS)
        seq = [rng.choice(list(PROGRAMS) + ["gen", "gen", "gen"]) for _ in range(rng.choice([1, 2, 2, 3, 3, 4]))]
        extras = []
        hdrs = {h for name in seq if name != "gen" for h in PROGRAMS[name][2]}
        if rng.random() < 0.15:
            extras.append("#nometa")
        if rng.random() < 0.2 and "#override minecraft" not in hdrs:
            extras.append("#override lib_x")
        job = disk_job(rng, cert=cert, ns=ns, pf=pf, seq=seq, load_kind=rng.choice(VALUE_KINDS + [None]),
                       tick_kind=rng.choice(VALUE_KINDS + [None]), where=where, extras=extras,
                       entry=rng.choice(["compile_jmc", "compile_jmc", "steps"]),
                       spelling=rng.choice([None, None, None, None, "function", "functions"]),
                       extra_tag_keys=rng.choice([None, None, {"replace": False}, {"replace": True, "x": [1]}]), compact=rng.random() < 0.5)
        jobs.append((f"disk:random:{k}", job))
    return jobs


# --------------------------------------------------------------------------- (round 5) #copy libraries
# the program CALLS functions that only a file of the #copy folder defines (DataPack.is_function_in_copy feeds build()'s
# undefined-call check).  Only the function folder the configured pack format loads counts: `function` from 48, `functions` below.
LIB_CALLS = {
    "plain": 'function main() { say "m"; lib.f(); }',
    "execute-run": 'function main() { execute as @a at @s run lib.f(); say "after"; }',
    "class": 'class util { function go() { say "go"; lib.f(); } } function main() { util.go(); }',
    "schedule": 'function main() { schedule function lib.f() 5t; say "s"; }',
    "nested-if": 'function main() { if ($x > 1) { say "a"; lib.deep.g(); } else { lib.f(); say "b"; } }',
    "tick": 'function @TICK@() { lib.f(); } function main() { lib.deep.g(); }',
}
LIB_LAYOUTS = {"function": ["function"], "functions": ["functions"], "both": ["function", "functions"]}
LIB_PACK_FORMATS = ["48", "61", "47", "15", "81", "26"]


def lib_files(ns, folders, names=("lib/f", "lib/deep/g")):
    return [[f"data/{ns}/{folder}/{n}.mcfunction", f"say library {n}"] for folder in folders for n in names]


def lib_jobs(rng, certs):
    out = []
    i = 0
    for layout, folders in LIB_LAYOUTS.items():
        for pf in LIB_PACK_FORMATS:
            cert = certs[i % len(certs)]
            ns = DISK_NAMESPACES[i % len(DISK_NAMESPACES)]
            forms = list(LIB_CALLS)
            forms = forms[i % len(forms):] + forms[:i % len(forms)]
            forms = forms[:4 if pf in ("48", "47", "15") else 2]
            j = disk_job(rng, cert=cert, ns=ns, pf=pf, seq=["plain"] * len(forms), load_kind="foreign" if i % 2 else None,
                         tick_kind=None, where="copy", entry="steps" if i % 4 == 3 else "compile_jmc")
            j["copy"] += lib_files(ns, folders)
            loaded = ff_of(pf) in folders
            for b, form in zip(j["builds"], forms):
                b["src"] = LIB_CALLS[form].replace("@TICK@", fname(cert["TICK"]))
                b["program"] = f"lib:{form}"
            j["meta"].update(lib_layout=layout, expect_ok=[loaded] * len(forms),
                             expect_note="a call to a function only the #copy library defines is accepted iff the library ships the file under "
                                         f"data/<ns>/{ff_of(pf)}/ — the function folder pack format {pf} loads")
            out.append((f"disk:lib:{layout}:{pf}", j))
            i += 1
    # the library lives in an #override namespace; one name in the loaded folder, the other only in the other folder
    for pf in ("48", "15"):
        other = "functions" if ff_of(pf) == "function" else "function"
        j = disk_job(rng, cert=certs[0], ns="mypack", pf=pf, seq=["plain", "plain", "plain"], load_kind=None, tick_kind=None, where="copy",
                     extras=["#override lib_x"])
        j["copy"] += [[f"data/lib_x/{ff_of(pf)}/a/ok.mcfunction", "say ok"], [f"data/lib_x/{other}/a/wrong.mcfunction", "say wrong"],
                      [f"data/mypack/{other}/lib/f.mcfunction", "say wrong too"], [f"data/mypack/{ff_of(pf)}/lib/deep/g.mcfunction", "say g"]]
        j["builds"][0]["src"] = 'function main() { lib_x.a.ok(); lib.deep.g(); }'
        j["builds"][1]["src"] = 'function main() { lib_x.a.ok(); lib_x.a.wrong(); }'
        j["builds"][2]["src"] = 'function main() { lib.deep.g(); execute as @a run lib.f(); }'
        # a generated function the library also ships (in the loaded folder: refused; in the other folder: no clash)
        j["builds"].append(dict(j["builds"][0], src='function lib.deep.g() { say "mine"; } function main() { lib.deep.g(); }'))
        j["builds"].append(dict(j["builds"][0], src='function lib.f() { say "mine"; } function main() { lib.f(); lib_x.a.ok(); }'))
        j["meta"].update(lib_layout="mixed", expect_ok=[True, False, False, False, True],
                         expect_note=f"only files under the {ff_of(pf)}/ folder of the #copy library count at pack format {pf}")
        out.append((f"disk:lib:override:{pf}", j))
    return out


# --------------------------------------------------------------------------- the direct oracle on the tree read back from disk

def parse_tag(text):
    """('tag', extra, values) for what read_func_tag understands; ('text',) for what it rejects with JMCBuildError;
    ('other',) for JSON it would crash on or that holds object entries (outside the model)"""
    try:
        obj = json.loads(text, strict=False)
    except ValueError:
        return ("text",)
    if not isinstance(obj, dict):
        return ("other",)
    if "values" not in obj:
        return ("text",)
    vs = obj["values"]
    if not isinstance(vs, list) or not all(isinstance(v, str) for v in vs):
        return ("other",)
    return ("tag", json.dumps({k: v for k, v in obj.items() if k != "values"}), vs)


def user_texts(job, upto):
    texts = [t for _, t in job.get("init") or []] + [t for _, t in job.get("copy") or []]
    for b in job["builds"][:upto + 1]:
        texts += [t for _, t in b.get("touch") or []] + [t for _, t in b.get("copy_touch") or []]
        texts += [b["src"], b.get("header") or ""]
    return texts


def disk_oracle(job, bi, res):
    """failures of C07 visible in the output directory after build `bi` (accepted builds only)"""
    import c07
    cfg, tree = res["cfg"], res["after"]
    ns, ff = cfg["ns"], ("functions" if cfg["legacy"] else "function")
    own = [n for n in [ns] + cfg["overrides"] if n not in cfg["links"]]
    supplied = user_texts(job, bi)
    supplied_files = set()
    for rel, text in (job.get("init") or []) + (job.get("copy") or []) + [x for b in job["builds"][:bi + 1] for x in (b.get("touch") or []) + (b.get("copy_touch") or [])]:
        supplied_files.add((rel, text))
    fails = []

    def values_of(rel):
        text = tree.get(rel)
        if text is None:
            return None
        p = parse_tag(text)
        if p[0] != "tag":
            try:
                obj = json.loads(text, strict=False)
                return [v if isinstance(v, str) else (v.get("id") if isinstance(v, dict) else None) for v in obj.get("values", [])]
            except Exception:  # noqa
                return "unreadable"
        return p[2]
    load_rel, tick_rel = f"data/minecraft/tags/{ff}/load.json", f"data/minecraft/tags/{ff}/tick.json"
    load_loc, tick_loc = f"{ns}:{cfg['load']}", f"{ns}:{cfg['tick']}"
    lv = values_of(load_rel)
    if not isinstance(lv, list) or load_loc not in lv:
        fails.append(dict(kind="load-not-registered", tag_file=load_rel, tag=tree.get(load_rel)))
    elif any(isinstance(v, str) and v.startswith(ns + ":") and v != load_loc for v in lv):
        fails.append(dict(kind="stale-own-tag-entry", tag_file=load_rel, tag=tree.get(load_rel)))
    tick_file = tree.get(disk_func_file(cfg, cfg["tick"]))
    tv = values_of(tick_rel)
    if tick_file:
        if not isinstance(tv, list) or tick_loc not in tv:
            fails.append(dict(kind="tick-not-registered", tag_file=tick_rel, tag=tree.get(tick_rel)))
        elif any(isinstance(v, str) and v.startswith(ns + ":") and v != tick_loc for v in tv):
            fails.append(dict(kind="stale-own-tag-entry", tag_file=tick_rel, tag=tree.get(tick_rel)))
    elif isinstance(tv, list) and any(isinstance(v, str) and v.startswith(ns + ":") for v in tv):
        fails.append(dict(kind="dangling-tag-entry", tag_file=tick_rel, tag=tree.get(tick_rel),
                          note="the pack has no (non-empty) tick function, yet the tick tag names a function of its namespace"))

    def resolves(kind, loc):
        n, path = loc.split(":", 1)
        if kind == "func":
            return f"data/{n}/{ff}/{path}.mcfunction" in tree
        return f"data/{n}/tags/{ff}/{path}.json" in tree
    for rel, content in tree.items():
        m = re.match(r"^data/([^/]*)/(.*)\.(mcfunction|json)$", rel)
        if not m or (rel, content) in supplied_files:
            continue          # not a datapack resource / a file the user supplied verbatim (copy, static, left-over)
        n, sub, ext = m.groups()
        if n not in own and n != "minecraft":
            continue
        if ext == "json":
            refs = c07.json_refs(sub.startswith(f"tags/{ff}/"), content)
        else:
            refs = [r for line in c07.MC_LINE_BREAK.split(content) for r in c07.line_refs(line)]
        for kind, loc in refs:
            if loc.split(":", 1)[0] not in own or resolves(kind, loc):
                continue
            literal = any(loc in t for t in supplied)
            fails.append(dict(kind="dangling-reference", path=rel, ref=("#" if kind == "tag" else "") + loc, user_literal=literal))
    return fails


def disk_func_file(cfg, p):
    ff = "functions" if cfg["legacy"] else "function"
    first = p.split("/")[0]
    if first in cfg["overrides"]:
        return f"data/{first}/{ff}/{p[len(first) + 1:]}.mcfunction"
    return f"data/{cfg['ns']}/{ff}/{p}.mcfunction"


# --------------------------------------------------------------------------- Coq terms

def dcontent_term(rel, text):
    import c07
    if TAG_PATH.match(rel):
        p = parse_tag(text)
        if p[0] == "other":
            raise c07.Unsupported(f"tag file {rel} holds JSON that read_func_tag does not understand (outside Model/AllocDisk.v)")
        if p[0] == "tag":
            return f"DTag {c07.coq_str(p[1])} {c07.strs(p[2])}"
    return f"DText {c07.coq_text(text)}"


def dtree_term(tree: dict):
    import c07
    return coq_list(f"({c07.coq_str(rel)}, {dcontent_term(rel, text)})" for rel, text in tree.items() if rel != "pack.mcmeta")


REFUSED_AFTER_DATAPACK_BUILD = ("is not a valid resource path", "replaces the function tag generated by JMC")


def dcase_term(job, res):
    """Coq term of one traced disk build, or raises c07.Unsupported"""
    import c07
    if res.get("unsupported"):
        raise c07.Unsupported("; ".join(res["unsupported"]))
    if not res.get("copy_is_cp", True):
        raise c07.Unsupported("#copy of another folder")
    if None in res["statics"]:
        pass        # a #static folder outside the output directory shields nothing inside it
    if not res["ok"] and any(m in (res.get("msg") or "") for m in REFUSED_AFTER_DATAPACK_BUILD):
        raise c07.Unsupported("refused by check_resource_paths / check_function_tag (outside Model/Alloc.v)")
    ops, b = [], None
    for op in res["ops"]:
        if op[0] == "build":
            b = op[1]
        else:
            ops.append(c07.op_term(op))
    # a compile that failed before build(): the names are the ones of the jmc.txt that was in the output directory
    cfg = res["cfg"] or c07.default_cfg(dict(namespace=job["ns"], pack_format=job["pack_format"],
                                              cert=res["before"].get(f'data/{job["ns"]}/jmc.txt')))
    copy = "None" if res["copy"] is None else f"(Some {dtree_term(res['copy'])})"
    env = (f'(mkDenv {dtree_term(res["before"])} {coq_bool(res["is_delete"])} {copy} '
           f'{c07.strs([s for s in res["statics"] if s not in (None, ".")])})')
    return (f'mkDCase {c07.cfg_term(cfg)} {coq_list(ops)} {"(Some " + c07.bdata_term(b) + ")" if b else "None"} {env} '
            f'{coq_bool(res["ok"])} {c07.coq_str(res.get("exc") or "")} {coq_bool(bool(res.get("jmc")))} {dtree_term(res["after"])}')


DISK_FLAGS = ("undisciplined", "not_closed", "load_unregistered", "tick_unregistered", "tag_occupied")


def eval_disk_cases(pairs: list, per_file: int = 10, prefix: str = "disk", diff_of=()):
    """pairs = [(job, build result)] -> dict(mismatch=[...], codes={i: code}, <flag>=[...]), errors"""
    import c07
    files = []
    for fi, start in enumerate(range(0, len(pairs), per_file)):
        c07._INTERN = {}
        try:
            chunk = [dcase_term(job, res) for job, res in pairs[start:start + per_file]]
            defs = "".join(f"Definition {name} := {c07._lib_coq_str(text)}.\n" for text, name in c07._INTERN.items())
        finally:
            c07._INTERN = None
        body = (c07.COQ_HEADER + "From JMCV Require Import Model.AllocDisk.\nDefinition jn := String.concat nls.\n" + defs
                + "Definition cases := [\n" + ";\n".join(chunk) + "\n].\nEval vm_compute in dsummaries cases.\n")
        for k in diff_of:
            if start <= k < start + per_file:
                body += f"Eval vm_compute in dtree_diff (nth {k - start} cases (nth 0 cases (mkDCase (mkCfg (mkNames \"\" \"\" \"\" \"\" \"\" \"\" \"\") false [] [] []) [] None (mkDenv [] false None []) false \"\" false []))).\n"
        files.append((f"{prefix}_{fi}.v", body))
    outs = run_coq_files(c07.PROP, files, timeout=900, clean=False)
    res = dict(mismatch=[], codes={}, diffs={})
    for name in DISK_FLAGS:
        res[name] = []
    errs = []
    for fi, (ok, out) in enumerate(outs):
        n_here = len(pairs[fi * per_file:(fi + 1) * per_file])
        first = out.split(": list (list nat)")[0] if ok else ""
        rows = re.findall(r"\[((?:\s*\d+\s*;?)+)\]", first[first.index("="):]) if ok and "=" in first else []
        if not ok or len(rows) != n_here:
            errs.append(f"{files[fi][0]}: {out[-2000:]}")
            continue
        for j, row in enumerate(rows):
            code, *flags = [int(x) for x in re.findall(r"\d+", row)]
            k = fi * per_file + j
            if code:
                res["mismatch"].append(k)
                res["codes"][k] = code
            for name, flag in zip(DISK_FLAGS, flags):
                if flag:
                    res[name].append(k)
        rest = out.split(": list (list nat)", 1)[1] if ": list (list nat)" in out else ""
        ks = [k for k in diff_of if fi * per_file <= k < (fi + 1) * per_file]
        for k, part in zip(ks, rest.split(": list string")):
            res["diffs"][k] = re.findall(r'"((?:[^"]|"")*)"', part)[:12]
    return res, errs


# --------------------------------------------------------------------------- orchestration

def run_disk(ck, tier, certs, reported):
    """runs the disk histories, the oracle and the Coq replay; reports violations; returns the coverage dictionary"""
    import c07
    jobs = disk_jobs(ck.rng, tier, certs)
    results = run_disk_jobs([j for _, j in jobs])
    flat = []            # (origin, job, build index, build result)
    for (origin, job), r in zip(jobs, results):
        for bi, br in enumerate(r["builds"]):
            flat.append((origin, job, bi, br))
    n_ok = n_failing = literal = 0
    failing = set()
    kinds: dict = {}
    for idx, (origin, job, bi, br) in enumerate(flat):
        exp = job["meta"].get("expect_ok")
        if exp is not None and bool(br["ok"]) != exp[bi]:
            failing.add(idx)
            kinds["library-call-verdict"] = kinds.get("library-call-verdict", 0) + 1
            if ("disk", "library-call-verdict", exp[bi]) not in reported:
                reported.add(("disk", "library-call-verdict", exp[bi]))
                f = dict(kind="library-call-verdict", expected_accepted=exp[bi], actual_accepted=bool(br["ok"]), exc=br.get("exc"),
                         msg=(br.get("msg") or "")[:300], note=job["meta"].get("expect_note"),
                         library_files=[rel for rel, _ in job.get("copy") or [] if rel.endswith(".mcfunction")])
                ck.violation(disk_report(origin, job, bi, br, f))
        if not br["ok"] or not br.get("cfg"):
            continue
        n_ok += 1
        fs = disk_oracle(job, bi, br)
        real = [f for f in fs if not f.get("user_literal")]
        literal += len(fs) - len(real)
        if real:
            failing.add(idx)
            n_failing += 1
            for f in real:
                key = ("disk", f["kind"])
                kinds[f["kind"]] = kinds.get(f["kind"], 0) + 1
                if key in reported:
                    continue
                reported.add(key)
                ck.violation(disk_report(origin, job, bi, br, f))
    # ---- Coq replay of every build whose trace the model covers
    pairs, pidx, unsupported = [], [], []
    for idx, (origin, job, bi, br) in enumerate(flat):
        try:
            c07._INTERN = {}
            dcase_term(job, br)
            pairs.append((job, br))
            pidx.append(idx)
        except c07.Unsupported as e:
            unsupported.append((origin, bi, str(e)))
        finally:
            c07._INTERN = None
    ev, errs = eval_disk_cases(pairs)
    for e in errs:
        ck.violation(dict(kind="correspondence-file-failed", what="disk replay", log=e), no_input=True)
    mism = [k for k in ev["mismatch"] if pidx[k] not in failing]
    if mism:
        ev2, _ = eval_disk_cases(pairs, diff_of=mism[:3], prefix="diskdiff")
        for k in mism[:3]:
            origin, job, bi, br = flat[pidx[k]]
            ck.violation(dict(kind="correspondence-differs", what="Model.AllocDisk.dbuild of the logged operations and the files found in the output directory "
                              "/ #copy folder predicts another tree (or verdict) than the real disk build left behind",
                              code=ev["codes"].get(k), differing_paths=ev2["diffs"].get(k), origin=origin, build=bi, disk_job=job,
                              real=dict(ok=br["ok"], exc=br.get("exc"), msg=(br.get("msg") or "")[:300],
                                        tags={p: t for p, t in br["after"].items() if TAG_PATH.match(p)}),
                              note="codes: 1 op result differs, 2 real ok but no build logged, 3 error class differs, 4 tree differs, 5 model accepts but real rejects"),
                         no_input=True)
    for name in DISK_FLAGS:
        for k in [k for k in ev[name] if pidx[k] not in failing][:2]:
            origin, job, bi, br = flat[pidx[k]]
            if name in ("undisciplined", "not_closed") and any(f.get("user_literal") for f in (disk_oracle(job, bi, br) if br["ok"] and br.get("cfg") else [])):
                continue
            ck.violation(dict(kind=f"disk-{name}", what=f"the model's tree of a real accepted disk build is {name} but the scan of the real tree found nothing",
                              origin=origin, build=bi, disk_job=job), no_input=True)
    where = {}
    for origin, job, bi, br in flat:
        key = f'{job["meta"]["where"]}:{"ok" if br["ok"] else "refused"}'
        where[key] = where.get(key, 0) + 1
    return dict(histories=len(jobs), builds=len(flat), accepted_builds=n_ok, replayed_in_coq=len(pairs), unsupported=unsupported[:10],
                n_unsupported=len(unsupported), disagreements=len(ev["mismatch"]), failing_builds=n_failing, failure_kinds=kinds,
                user_literal_references_skipped=literal, builds_by_place=where,
                rebuilds=sum(1 for _, _, bi, _ in flat if bi > 0),
                with_copied_tag=sum(1 for _, job, _, br in flat if br.get("copy") and any(TAG_PATH.match(p) for p in br["copy"])),
                tick_tag_changed_by_build=sum(1 for _, job, _, br in flat if br["ok"] and any(
                    TAG_PATH.match(p) and p.endswith("tick.json") and p in br["before"] | (br.get("copy") or {}) and br["after"].get(p) is not None
                    and br["after"].get(p) != (br.get("copy") or {}).get(p, br["before"].get(p)) for p in br["after"])),
                tag_errors=sum(1 for _, _, _, br in flat if not br["ok"] and br.get("exc") == "JMCBuildError"),
                library_call_builds=sum(1 for _, job, _, _ in flat if job["meta"].get("expect_ok") is not None),
                library_calls_accepted=sum(1 for _, job, _, br in flat if job["meta"].get("expect_ok") is not None and br["ok"]),
                library_calls_refused=sum(1 for _, job, _, br in flat if job["meta"].get("expect_ok") is not None and not br["ok"]))


def disk_report(origin, job, bi, br, f):
    b = job["builds"][bi]
    return dict(kind=f["kind"], failure=f, origin=origin, build=bi, program=b["src"], header=b.get("header"), namespace=job["ns"],
                pack_format=b.get("pack_format") or job["pack_format"], disk_job=job, expected=EXPECTED, actual=f,
                tags_after={p: t for p, t in br["after"].items() if TAG_PATH.match(p)},
                user_tags={rel: t for rel, t in (job.get("copy") or []) + (job.get("init") or []) if TAG_PATH.match(rel)})


def replay_disk(rep) -> int:
    job = rep["disk_job"]
    r = run_disk_jobs([job])[0]
    bad = 0
    for bi, br in enumerate(r["builds"]):
        b = job["builds"][bi]
        print(f"--- build {bi}: {b['src'][:200]}\n    header: {b.get('header')!r}")
        exp = (job.get("meta") or {}).get("expect_ok")
        if exp is not None and bool(br["ok"]) != exp[bi]:
            print(f"    actual: build {'accepted' if br['ok'] else 'refused'}; expected {'accepted' if exp[bi] else 'refused'} "
                  f"({job['meta'].get('expect_note')})")
            bad += 1
        if not br["ok"]:
            print("    actual: build fails with", br.get("exc"), (br.get("msg") or "")[:300])
            continue
        for p, t in br["after"].items():
            if TAG_PATH.match(p):
                print(f"    {p}: {json.dumps(json.loads(t, strict=False)) if parse_tag(t)[0] != 'text' else t!r}")
        fs = [f for f in disk_oracle(job, bi, br) if not f.get("user_literal")]
        print("    actual:", json.dumps(fs, indent=1) if fs else "no failure")
        bad += len(fs)
    print("expected:", rep.get("expected", EXPECTED))
    return 1 if bad else 0
